#!/usr/bin/env python3
"""Neutral-edit survey, second kind (development aid): small behaviour-preserving rewrites of Python statements.

One rewrite at a time, inside the named functions of a file, on a scratch copy:
  T1  x[i] op= e              ->  x[i] = x[i] op (e)          (subscript targets only: a Name target may alias an array)
  T2  y = a op b               ->  nt_tmp = a ; y = nt_tmp op b
  T3  return e                 ->  nt_ret = e ; return nt_ret
  T4  if c: A else: B          ->  if not (c): B else: A       (plain if/else, no elif)
  T5  a == b                   ->  b == a                      (both sides free of calls)
  T6  range(n)                 ->  range(0, n)
  T7  x.T                      ->  np.transpose(x)
  T8  np.dot(a, b)             ->  (a @ b)                      (the same for the 1-D / 2-D operands of this code base)
The quick checks of the given properties run against the copy: exit 1 is a false alarm, exit 2 a lost anchor.

usage: python3-vt tools/neutral_survey.py <file.py> <func[,func]|*> <Cnn[,Cmm]> [--jobs 16] [--max 200]
"""

from __future__ import annotations

import ast
import copy
import os
import re
import shutil
import subprocess
import sys
import tempfile
from concurrent.futures import ThreadPoolExecutor
from pathlib import Path

sys.path.insert(0, str(Path(__file__).resolve().parent.parent))
from engine import core, selftest  # noqa: E402


def has_call(e):
    return any(isinstance(x, (ast.Call, ast.Await, ast.Yield, ast.NamedExpr)) for x in ast.walk(e))


def rewrites(fn):
    """yield (kind, statement node to replace, list of replacement statements)"""
    for node in ast.walk(fn):
        for field in ("body", "orelse", "finalbody"):
            body = getattr(node, field, None)
            if not isinstance(body, list):
                continue
            for st in body:
                if isinstance(st, ast.AugAssign) and isinstance(st.target, ast.Subscript) and not has_call(st.target):
                    load = copy.deepcopy(st.target)
                    load.ctx = ast.Load()
                    yield "T1", st, [ast.Assign(targets=[copy.deepcopy(st.target)], value=ast.BinOp(left=load, op=st.op, right=st.value), lineno=0)]
                if isinstance(st, ast.Assign) and isinstance(st.value, ast.BinOp) and len(st.targets) == 1:
                    tmp = ast.Name(id="nt_tmp", ctx=ast.Store())
                    yield "T2", st, [
                        ast.Assign(targets=[tmp], value=st.value.left, lineno=0),
                        ast.Assign(targets=st.targets, value=ast.BinOp(left=ast.Name(id="nt_tmp", ctx=ast.Load()), op=st.value.op, right=st.value.right), lineno=0),
                    ]
                if isinstance(st, ast.Return) and st.value is not None and not isinstance(st.value, (ast.Name, ast.Constant)):
                    yield "T3", st, [ast.Assign(targets=[ast.Name(id="nt_ret", ctx=ast.Store())], value=st.value, lineno=0), ast.Return(value=ast.Name(id="nt_ret", ctx=ast.Load()))]
                is_elif = field == "orelse" and isinstance(node, ast.If) and len(body) == 1  # rewriting an elif would cut the chain
                if isinstance(st, ast.If) and st.orelse and not is_elif and not (len(st.orelse) == 1 and isinstance(st.orelse[0], ast.If)):
                    yield "T4", st, [ast.If(test=ast.UnaryOp(op=ast.Not(), operand=st.test), body=st.orelse, orelse=st.body)]
    for node in ast.walk(fn):
        if isinstance(node, ast.Compare) and len(node.ops) == 1 and isinstance(node.ops[0], ast.Eq) and not has_call(node):
            yield "T5", node, ast.Compare(left=node.comparators[0], ops=[ast.Eq()], comparators=[node.left])
        if isinstance(node, ast.Call) and isinstance(node.func, ast.Name) and node.func.id == "range" and len(node.args) == 1 and not node.keywords:
            yield "T6", node, ast.Call(func=node.func, args=[ast.Constant(value=0), node.args[0]], keywords=[])
        if isinstance(node, ast.Attribute) and node.attr == "T" and isinstance(node.ctx, ast.Load):
            yield "T7", node, ast.Call(func=ast.Attribute(value=ast.Name(id="np", ctx=ast.Load()), attr="transpose", ctx=ast.Load()), args=[node.value], keywords=[])
        if isinstance(node, ast.Call) and ast.unparse(node.func) == "np.dot" and len(node.args) == 2 and not node.keywords:
            yield "T8", node, ast.BinOp(left=node.args[0], op=ast.MatMult(), right=node.args[1])


def apply(text, node, repl):
    """replace the source of node by the unparsed replacement, keeping indentation"""
    lines = text.split("\n")
    l0, l1 = node.lineno - 1, node.end_lineno - 1
    if isinstance(repl, list):
        ind = lines[l0][: len(lines[l0]) - len(lines[l0].lstrip())]
        if node.col_offset != len(ind):
            return None  # statement not at the start of its line (after ';' or an 'elif')
        new = []
        for st in repl:
            ast.fix_missing_locations(st)
            new += [ind + x for x in ast.unparse(st).split("\n")]
        return "\n".join(lines[:l0] + new + lines[l1 + 1 :])
    ast.fix_missing_locations(repl)
    seg = "(" + ast.unparse(repl) + ")" if isinstance(repl, (ast.Compare, ast.BinOp)) else ast.unparse(repl)
    if l0 == l1:
        lines[l0] = lines[l0][: node.col_offset] + seg + lines[l0][node.end_col_offset :]
    else:
        lines[l0 : l1 + 1] = [lines[l0][: node.col_offset] + seg + lines[l1][node.end_col_offset :]]
    return "\n".join(lines)


def run_one(rel, w, props):
    tmp = Path(tempfile.mkdtemp(prefix="verif-nt-", dir="/tmp"))
    try:
        repo = tmp / "repo"
        selftest._copy_repo(repo)
        (repo / rel).write_text(w["text"])
        env = dict(os.environ)
        env.update(VERIF_REPO=str(repo), VERIF_OUT=str(tmp / "out"), VERIF_EVIDENCE_DIR=str(tmp / "ev"), VERIF_NO_SELFTEST="1", VERIF_NO_DELEGATE=os.environ.get("VERIF_NO_DELEGATE", "1"))
        codes, rules = {}, []
        for pid in props:
            p = subprocess.run([sys.executable, str(core.VERIF / "check.py"), pid, "--tier", "quick"], capture_output=True, text=True, env=env, timeout=1800)
            codes[pid] = p.returncode
            rules += [f"{pid}:{m.group(1)} {m.group(2)[:110]}" for m in re.finditer(r"^\s+\[(R[\w.]+)\] (.*)$", p.stdout, re.M)]
            if p.returncode == 2:
                rules.append(f"{pid}: " + p.stdout.strip().split("\n")[-1][:200])
        st = "FALSE-ALARM" if 1 in codes.values() else ("analysis-error" if 2 in codes.values() else "silent")
        return dict(w, status=st, codes=codes, rules=rules)
    finally:
        shutil.rmtree(tmp, ignore_errors=True)


def main():
    args = [a for a in sys.argv[1:] if not a.startswith("--")]
    rel, funcs, props = args[0], args[1].split(","), args[2].split(",")
    jobs = int(sys.argv[sys.argv.index("--jobs") + 1]) if "--jobs" in sys.argv else 16
    limit = int(sys.argv[sys.argv.index("--max") + 1]) if "--max" in sys.argv else 200
    text = core.read(rel)
    tree = ast.parse(text)
    work = []
    for fn in [n for n in ast.walk(tree) if isinstance(n, ast.FunctionDef)]:
        if funcs != ["*"] and fn.name not in funcs:
            continue
        for kind, node, repl in rewrites(fn):
            old = ast.unparse(node)
            new = apply(text, node, repl)
            if new is None or new == text:
                continue
            try:
                compile(new, rel, "exec")
            except SyntaxError:
                continue
            work.append(dict(func=fn.name, kind=kind, line=node.lineno, old=old[:100], text=new))
    if len(work) > limit:
        step = len(work) / limit
        work = [work[int(i * step)] for i in range(limit)]
    print(f"{rel}: {len(work)} neutral rewrites; properties {props}")
    with ThreadPoolExecutor(max_workers=jobs) as ex:
        res = list(ex.map(lambda w: run_one(rel, w, props), work))
    by = {}
    for r in res:
        by.setdefault(r["status"], []).append(r)
    print({k: len(v) for k, v in by.items()})
    for st in ("FALSE-ALARM", "analysis-error"):
        for r in by.get(st, []):
            print(f"{st:14s} {rel}:{r['line']} {r['func']} {r['kind']}: {r['old']}")
            for x in r.get("rules", [])[:4]:
                print("      ", x)


if __name__ == "__main__":
    main()
