#!/usr/bin/env python3
"""Neutral-edit survey (development aid): behaviour-preserving renames of local variables.

For every function of a Python file (or the named ones) all local variables (names assigned in the function that are
not parameters, not declared global/nonlocal and not attributes) are renamed consistently (x -> x_rn) on a scratch copy;
the quick checks of the given properties are run against the copy.  A VIOLATION on such a copy is a false alarm of a
rule that depends on a local name; an ANALYSIS-ERROR means an anchor was lost (the check is broken on that tree but
raises no alarm).

usage: python3-vt tools/rename_survey.py <file.py> <func[,func]|*> <Cnn[,Cmm]> [--jobs 16]
"""

from __future__ import annotations

import ast
import os
import re
import shutil
import subprocess
import sys
import tempfile
from concurrent.futures import ThreadPoolExecutor
from pathlib import Path

sys.path.insert(0, str(Path(__file__).resolve().parent.parent))
from engine import core, selftest  # noqa: E402


def locals_of(fn):
    params = {a.arg for a in fn.args.args + fn.args.kwonlyargs + fn.args.posonlyargs}
    if fn.args.vararg:
        params.add(fn.args.vararg.arg)
    if fn.args.kwarg:
        params.add(fn.args.kwarg.arg)
    skip = set()
    names = set()
    for n in ast.walk(fn):
        if isinstance(n, (ast.Global, ast.Nonlocal)):
            skip |= set(n.names)
        if isinstance(n, ast.Name) and isinstance(n.ctx, ast.Store):
            names.add(n.id)
        if isinstance(n, (ast.FunctionDef, ast.Lambda, ast.ClassDef)) and n is not fn:
            # keep it simple: do not touch functions with nested scopes
            return set()
        if isinstance(n, (ast.Import, ast.ImportFrom)):
            for a in n.names:
                skip.add((a.asname or a.name).split(".")[0])
    return {x for x in names - params - skip if not x.startswith("__")}


def rename_in(text, fn, names):
    """Rename Name nodes (not attributes, not keywords) of fn by position."""
    lines = text.split("\n")
    edits = []
    for n in ast.walk(fn):
        if isinstance(n, ast.Name) and n.id in names:
            edits.append((n.lineno - 1, n.col_offset, n.end_col_offset, n.id + "_rn"))
    for ln, c0, c1, new in sorted(edits, reverse=True):
        # col offsets are in utf-8 bytes; the sources are ascii in the relevant places
        lines[ln] = lines[ln][:c0] + new + lines[ln][c1:]
    return "\n".join(lines)


def run_one(rel, fname, new_text, props):
    tmp = Path(tempfile.mkdtemp(prefix="verif-rn-", dir="/tmp"))
    try:
        repo = tmp / "repo"
        selftest._copy_repo(repo)
        (repo / rel).write_text(new_text)
        try:
            compile(new_text, rel, "exec")
        except SyntaxError as e:
            return dict(func=fname, status="invalid", why=str(e))
        env = dict(os.environ)
        env.update(VERIF_REPO=str(repo), VERIF_OUT=str(tmp / "out"), VERIF_EVIDENCE_DIR=str(tmp / "ev"), VERIF_NO_SELFTEST="1", VERIF_NO_DELEGATE=os.environ.get("VERIF_NO_DELEGATE", "1"))
        codes, rules = {}, []
        for pid in props:
            p = subprocess.run([sys.executable, str(core.VERIF / "check.py"), pid, "--tier", "quick"], capture_output=True, text=True, env=env, timeout=900)
            codes[pid] = p.returncode
            rules += [f"{pid}:{m.group(1)} {m.group(2)[:90]}" for m in re.finditer(r"^\s+\[(R[\w.]+)\] (.*)$", p.stdout, re.M)]
            if p.returncode == 2:
                rules.append(f"{pid}: " + p.stdout.strip().split("\n")[-1][:160])
        st = "FALSE-ALARM" if 1 in codes.values() else ("analysis-error" if 2 in codes.values() else "silent")
        return dict(func=fname, status=st, codes=codes, rules=rules)
    finally:
        shutil.rmtree(tmp, ignore_errors=True)


def main():
    args = [a for a in sys.argv[1:] if not a.startswith("--")]
    rel, funcs, props = args[0], args[1].split(","), args[2].split(",")
    jobs = int(sys.argv[sys.argv.index("--jobs") + 1]) if "--jobs" in sys.argv else 16
    text = core.read(rel)
    tree = ast.parse(text)
    work = []
    for fn in [n for n in ast.walk(tree) if isinstance(n, ast.FunctionDef)]:
        if funcs != ["*"] and fn.name not in funcs:
            continue
        names = locals_of(fn)
        if not names:
            continue
        work.append((fn.name, rename_in(text, fn, names), sorted(names)))
    print(f"{rel}: {len(work)} functions with renamable locals; properties {props}")
    with ThreadPoolExecutor(max_workers=jobs) as ex:
        res = list(ex.map(lambda w: dict(run_one(rel, w[0], w[1], props), names=w[2]), work))
    by = {}
    for r in res:
        by.setdefault(r["status"], []).append(r)
    print({k: len(v) for k, v in by.items()})
    for st in ("FALSE-ALARM", "analysis-error", "invalid"):
        for r in by.get(st, []):
            print(f"{st:14s} {rel}::{r['func']} locals {r['names'][:8]}")
            for x in r.get("rules", [])[:4]:
                print("      ", x)


if __name__ == "__main__":
    main()
