#!/usr/bin/env python3
"""Write delegation_table.json: for every rule module the files in which its rules produce instances on the tree as it
stands (see rules/delegation.py).  usage: python3-vt tools/gen_delegation.py"""

import json
import os
import sys
from pathlib import Path

sys.path.insert(0, str(Path(__file__).resolve().parent.parent))
os.environ["VERIF_NO_DELEGATE"] = "1"
from engine import core  # noqa: E402
from rules import delegation  # noqa: E402

table = {}
for mod in delegation.MODULES:
    res = core.module_items(mod, "quick")
    table[mod] = sorted({it["file"] for it in res["items"]})
    print(mod, len(res["items"]), "instances in", len(table[mod]), "files", ("ERROR " + res["error"][:80]) if res.get("error") else "")
delegation.TABLE.write_text(json.dumps(table, indent=0, sort_keys=True))
