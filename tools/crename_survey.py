#!/usr/bin/env python3
"""Neutral-edit survey for the C sources (development aid): consistent renames of local variables.

For every function of a C file (or the named ones) the variables declared inside the function (not its parameters)
are renamed x -> x_rn within the function's text (whole identifiers only, including OpenMP pragma clauses) on a scratch
copy; the copy must still pass clang -fsyntax-only; the quick checks of the given properties run against it.
exit 1 on such a copy is a false alarm of a rule that depends on a local name, exit 2 a lost anchor.

usage: python3-vt tools/crename_survey.py <file.c> <func[,func]|*> <Cnn[,Cmm]> [--jobs 16]
"""

from __future__ import annotations

import os
import re
import shutil
import subprocess
import sys
import tempfile
from concurrent.futures import ThreadPoolExecutor
from pathlib import Path

sys.path.insert(0, str(Path(__file__).resolve().parent.parent))
from engine import cast, core, selftest  # noqa: E402


def function_span(text, tu, fn):
    """character span of the function definition (from its first line to the matching closing brace)"""
    lines = text.split("\n")
    lo = tu.line(fn) - 1
    pos = sum(len(l) + 1 for l in lines[:lo])
    i = text.index("{", pos)
    depth = 0
    for k in range(i, len(text)):
        if text[k] == "{":
            depth += 1
        elif text[k] == "}":
            depth -= 1
            if depth == 0:
                return pos, k + 1
    raise ValueError("unbalanced")


def run_one(rel, fname, new_text, props):
    tmp = Path(tempfile.mkdtemp(prefix="verif-crn-", dir="/tmp"))
    try:
        repo = tmp / "repo"
        selftest._copy_repo(repo)
        (repo / rel).write_text(new_text)
        p = subprocess.run(["clang-14", "-fsyntax-only", "-fopenmp", "-I", str(repo / "c"), "-I", str(core.VERIF / "stubs"), str(repo / rel)], capture_output=True, text=True)
        if p.returncode != 0:
            return dict(func=fname, status="invalid", rules=[p.stderr[:200]])
        env = dict(os.environ)
        env.update(VERIF_REPO=str(repo), VERIF_OUT=str(tmp / "out"), VERIF_EVIDENCE_DIR=str(tmp / "ev"), VERIF_NO_SELFTEST="1", VERIF_NO_DELEGATE=os.environ.get("VERIF_NO_DELEGATE", "1"))
        codes, rules = {}, []
        for pid in props:
            p = subprocess.run([sys.executable, str(core.VERIF / "check.py"), pid, "--tier", "quick"], capture_output=True, text=True, env=env, timeout=1800)
            codes[pid] = p.returncode
            rules += [f"{pid}:{m.group(1)} {m.group(2)[:110]}" for m in re.finditer(r"^\s+\[(R[\w.]+)\] (.*)$", p.stdout, re.M)]
            if p.returncode == 2:
                rules.append(f"{pid}: " + p.stdout.strip().split("\n")[-1][:200])
        st = "FALSE-ALARM" if 1 in codes.values() else ("analysis-error" if 2 in codes.values() else "silent")
        return dict(func=fname, status=st, codes=codes, rules=rules)
    finally:
        shutil.rmtree(tmp, ignore_errors=True)


def main():
    args = [a for a in sys.argv[1:] if not a.startswith("--")]
    rel, funcs, props = args[0], args[1].split(","), args[2].split(",")
    jobs = int(sys.argv[sys.argv.index("--jobs") + 1]) if "--jobs" in sys.argv else 16
    text = core.read(rel)
    tu = cast.load(rel)
    work = []
    for nm, fn in tu.functions.items():
        if funcs != ["*"] and nm not in funcs:
            continue
        try:
            b = cast.body(fn)
        except Exception:
            continue
        names = sorted({x.get("name") for x in cast.walk(b) if x.get("kind") == "VarDecl" and x.get("name")})
        if not names:
            continue
        try:
            lo, hi = function_span(text, tu, fn)
        except ValueError:
            continue
        seg = text[lo:hi]
        pat = re.compile(r"(?<![\w.>])(" + "|".join(map(re.escape, names)) + r")\b")
        # do not touch member accesses (a.x, a->x): handled by the look-behind
        new_seg = pat.sub(lambda m: m.group(1) + "_rn", seg)
        work.append((nm, text[:lo] + new_seg + text[hi:], names))
    print(f"{rel}: {len(work)} functions with renamable locals; properties {props}")
    with ThreadPoolExecutor(max_workers=jobs) as ex:
        res = list(ex.map(lambda w: dict(run_one(rel, w[0], w[1], props), names=w[2]), work))
    by = {}
    for r in res:
        by.setdefault(r["status"], []).append(r)
    print({k: len(v) for k, v in by.items()})
    for st in ("FALSE-ALARM", "analysis-error", "invalid"):
        for r in by.get(st, []):
            print(f"{st:14s} {rel}::{r['func']} locals {r['names'][:8]}")
            for x in r.get("rules", [])[:4]:
                print("      ", x)


if __name__ == "__main__":
    main()
