#!/usr/bin/env python3
"""Write alpha_table.json (see engine/alpha.py) from the Python files of the repository as it stands.

Run after /repo changed legitimately (a fix: commit); a stale entry is harmless (no renaming back takes place).
usage: python3-vt tools/gen_alpha.py
"""

import json
import os
import sys
from pathlib import Path

sys.path.insert(0, str(Path(__file__).resolve().parent.parent))
from engine import alpha, calpha, cast, core  # noqa: E402

t = alpha.build(core.REPO, core.python_files("phonopy"))
alpha.TABLE.write_text(json.dumps(t, indent=0, sort_keys=True))
print(f"{alpha.TABLE}: {len(t)} files, {sum(len(v) for v in t.values())} functions")

csrc = sorted(str(p.relative_to(core.REPO)) for p in (core.REPO / "c").glob("*.c"))
os.environ["VERIF_NO_ALPHA"] = "1"  # the table is built from the text as it stands
ct = calpha.build(core.read, cast.load, csrc)
calpha.TABLE.write_text(json.dumps(ct, sort_keys=True))
print(f"{calpha.TABLE}: {len(ct)} files, {sum(len(v) for v in ct.values())} functions")
