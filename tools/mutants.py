#!/usr/bin/env python3
"""Mutation survey (development aid, not a registered check).

Applies one small textual mutation at a time inside named functions of a source file, on a scratch copy of the
repository, runs the quick checks of the given properties against the copy and prints which mutants no check reports.
Survivors are triaged by hand: equivalent mutant, outside every claimed clause, or a gap in a rule.

usage: python3-vt tools/mutants.py <file> <func[,func...]|*> <Cnn[,Cmm...]> [--jobs 16] [--max 400]
"""

from __future__ import annotations

import ast
import os
import re
import shutil
import subprocess
import sys
import tempfile
from concurrent.futures import ThreadPoolExecutor
from pathlib import Path

sys.path.insert(0, str(Path(__file__).resolve().parent.parent))
from engine import core, selftest  # noqa: E402

OPS = [
    (r" \+ ", " - "),
    (r" - ", " + "),
    (r" \+= ", " -= "),
    (r" -= ", " += "),
    (r" \* ", " / "),
    (r" / ", " * "),
    (r"\bcos\(", "sin("),
    (r"\bsin\(", "cos("),
    (r"\[i\]", "[j]"),
    (r"\[j\]", "[i]"),
    (r"\[k\]", "[l]"),
    (r"\[l\]", "[k]"),
    (r"\[l\]", "[m]"),
    (r"\[m\]", "[l]"),
    (r"\.T\b", ""),
    (r" < ", " <= "),
    (r" > ", " >= "),
    (r"\b0\.5\b", "0.25"),
    (r"\b2\b", "3"),
    (r"\b3\b", "2"),
]


def function_ranges(rel, names):
    text = core.read(rel)
    out = []
    if rel.endswith(".py"):
        tree = ast.parse(text)
        for n in ast.walk(tree):
            if isinstance(n, (ast.FunctionDef,)) and (names == ["*"] or n.name in names):
                # skip the docstring
                start = n.body[0].end_lineno + 1 if isinstance(n.body[0], ast.Expr) and isinstance(getattr(n.body[0], "value", None), ast.Constant) and isinstance(n.body[0].value.value, str) else n.body[0].lineno
                out.append((n.name, start, n.end_lineno))
    else:
        from engine import cast

        tu = cast.load(rel)
        for nm, fn in tu.functions.items():
            if names == ["*"] or nm in names:
                b = cast.body(fn)
                lo = tu.line(b)
                end = b.get("range", {}).get("end", {})
                hi = end.get("line") or lo
                # clang omits 'line' when unchanged from the previous location: find the matching brace textually
                lines = text.split("\n")
                depth = 0
                hi = lo
                started = False
                for ln in range(lo - 1, len(lines)):
                    depth += lines[ln].count("{") - lines[ln].count("}")
                    if "{" in lines[ln]:
                        started = True
                    if started and depth <= 0:
                        hi = ln + 1
                        break
                out.append((nm, lo + 1, hi))
    return out


def mutants(rel, ranges, limit):
    lines = core.read(rel).split("\n")
    res = []
    for fname, lo, hi in ranges:
        for ln in range(lo - 1, min(hi, len(lines))):
            line = lines[ln]
            s = line.strip()
            if not s or s.startswith(("#", "//", "/*", "*", '"""', "'''")):
                continue
            code = line.split("//")[0] if not rel.endswith(".py") else line.split("  #")[0]
            for pat, new in OPS:
                for k, m in enumerate(re.finditer(pat, code)):
                    mutated = code[: m.start()] + re.sub(pat, new, code[m.start() : m.end()]) + code[m.end() :] + line[len(code) :]
                    if mutated == line:
                        continue
                    res.append(dict(func=fname, line=ln + 1, old=line, new=mutated, op=f"{pat} -> {new}"))
    if len(res) > limit:
        step = len(res) / limit
        res = [res[int(i * step)] for i in range(limit)]
    return res


def run_one(rel, mut, props):
    tmp = Path(tempfile.mkdtemp(prefix="verif-mut-", dir="/tmp"))
    try:
        repo = tmp / "repo"
        selftest._copy_repo(repo)
        f = repo / rel
        lines = f.read_text().split("\n")
        lines[mut["line"] - 1] = mut["new"]
        new = "\n".join(lines)
        f.write_text(new)
        if rel.endswith(".py"):
            try:
                compile(new, rel, "exec")
            except SyntaxError:
                return dict(mut, status="invalid")
        else:
            p = subprocess.run(["clang-14", "-fsyntax-only", "-I", str(repo / "c"), "-I", str(core.VERIF / "stubs"), str(f)], capture_output=True, text=True)
            if p.returncode != 0:
                return dict(mut, status="invalid")
        env = dict(os.environ)
        env.update(VERIF_REPO=str(repo), VERIF_OUT=str(tmp / "out"), VERIF_EVIDENCE_DIR=str(tmp / "ev"), VERIF_NO_SELFTEST="1", VERIF_NO_DELEGATE=os.environ.get("VERIF_NO_DELEGATE", "1"))
        codes = {}
        rules = []
        for pid in props:
            p = subprocess.run([sys.executable, str(core.VERIF / "check.py"), pid, "--tier", "quick"], capture_output=True, text=True, env=env, timeout=900)
            codes[pid] = p.returncode
            rules += [f"{pid}:{m.group(1)}" for m in re.finditer(r"^\s+\[(R[\w.]+)\]", p.stdout, re.M)]
            if p.returncode == 1:
                break
        st = "killed" if 1 in codes.values() else ("analysis-error" if 2 in codes.values() else "survived")
        return dict(mut, status=st, codes=codes, rules=sorted(set(rules)))
    except subprocess.TimeoutExpired:
        return dict(mut, status="timeout")
    finally:
        shutil.rmtree(tmp, ignore_errors=True)


def main():
    args = [a for a in sys.argv[1:] if not a.startswith("--")]
    rel, funcs, props = args[0], args[1].split(","), args[2].split(",")
    jobs = int(sys.argv[sys.argv.index("--jobs") + 1]) if "--jobs" in sys.argv else 16
    limit = int(sys.argv[sys.argv.index("--max") + 1]) if "--max" in sys.argv else 400
    ranges = function_ranges(rel, funcs)
    ms = mutants(rel, ranges, limit)
    print(f"{rel}: {len(ranges)} functions, {len(ms)} mutants, properties {props}")
    with ThreadPoolExecutor(max_workers=jobs) as ex:
        results = list(ex.map(lambda m: run_one(rel, m, props), ms))
    by = {}
    for r in results:
        by.setdefault(r["status"], []).append(r)
    print({k: len(v) for k, v in by.items()})
    for st in ("survived", "analysis-error", "timeout"):
        for r in by.get(st, []):
            print(f"{st.upper():14s} {rel}:{r['line']} {r['func']}: {r['op']}\n    - {r['old'].strip()}\n    + {r['new'].strip()}" + (f"\n    codes {r.get('codes')}" if st != "survived" else ""))


if __name__ == "__main__":
    main()
