#!/usr/bin/env python3
"""Regenerate MANIFEST.json from the table below (kept next to the code so that the
manifest is always valid and in step with the rule modules that exist)."""

import json
import sys
from pathlib import Path

HERE = Path(__file__).resolve().parent.parent

BASELINE = "cd /repo && /venv/bin/python -m pytest -ra -q -p no:cacheprovider --timeout=900 --continue-on-collection-errors"

CHECKS = {
    "C02": dict(
        technique="static analysis: element-wise symbolic execution of the forward kernel (closed form of one image's contribution), path/selection rules on the image loop of the clang AST, symbolic block addressing, open-term and structural rules on the Python reference and on the index maps handed to the kernel for the two force-constant layouts; index-map typing (primitive / supercell / representative index sets, inverse tables, helper functions inlined) of the maps handed to the kernel; def-use rule that float change-of-basis matrices are rounded before integer conversion; frame typing of the shortest-vector basis change; transposition parity from the producer of the reduced basis / change of basis to every shortest-vector kernel call site; after its own rules, the other properties' rules on the files this property is anchored in (anchor-scoped delegation, instances cached per tree digest); binary-search-on-sorted-data rule; segment-contract rule for consumers of the dense shortest vectors",
        level="other",
        text="Decides the shape of the lattice Fourier sum in both implementations: each term is Phi(j0, j'l) e^{+2 pi i q.s} / sqrt(m_j m_j'), averaged over the stored shortest vectors of exactly that (supercell atom, primitive atom) pair; the sum keeps exactly the supercell atoms that are images of j' and runs over all of them; the 3x3 block lands at (3j.., 3j'..); the maps handed to the kernel select the same atoms in the full and the compact layout; eigenvalues become frequencies by sign(e) sqrt|e| factor. Does not decide that the stored vectors are the minimum-image vectors (C05, a lattice theorem), nor equality of numbers with a closed-form crystal. The index maps are decided as typed maps (a position in sorted order is not a primitive index unless p2s_map is ascending), and the basis change of the shortest vectors as a rounded integer matrix of matching orientation.",
        note="Trusted: clang-14 JSON AST, sympy. Shares the forward-kernel rules with C06. The Hermitian symmetrisation that follows is decided under C03, the NAC additions under C08.",
        ref="DESIGN.md §3 C02",
    ),
    "C03": dict(
        technique="static analysis: post-dominance of the Hermitian symmetrisation in the clang AST of the D(q) producers (statement-list position relative to the OpenMP/serial twin and the single return), algebra of make_Hermitian's loop body by source-to-sympy translation, symbolic loop-bound extraction (every pair j >= i, diagonal included), open-term rules for the Python reference and the masses setter; orientation typing of the reciprocal point-group operations; coverage of the derivative kernel's symmetrisation nest; def-use rule that float change-of-basis matrices are rounded before integer conversion; flow-sensitive provenance of the masses each cell receives in the masses setter; after its own rules, the other properties' rules on the files this property is anchored in (anchor-scoped delegation, instances cached per tree digest); path enumeration of the compiled Wang driver (through delegation from C08); frame typing of the reciprocal lattice handed to the compiled kernels; frame typing of the Brillouin-zone change of basis",
        level="other",
        text="Decides only the Hermiticity and mass-propagation clauses: because the property quantifies over arbitrary force constants, 'every producer path ends in (M + M^H)/2' is a necessary condition visible in code shape, and make_Hermitian's body is shown algebraically to compute a'=(a+conj b)/2, b'=conj a' over all pairs j>=i. D(-q)=conj D(q), G-periodicity, point-group invariance, the acoustic sum rule and the s/t scaling are statements about values and are not decided.",
        note="Trusted: clang-14 JSON AST, sympy. The dipole-dipole term added after the symmetrisation on the Gonze-Lee path is Hermitian analytically, not by a code step; not judged.",
        ref="DESIGN.md §3 C03",
    ),
    "C04": dict(
        technique="static analysis on Python ast: index-variance (frame) typing of the lattice linear algebra — every axis is Cartesian, a lattice basis index or a lattice component index; .T swaps, inv swaps and flips, a contraction needs the same lattice with opposite variance — seeded from the repository's own conventions (x.cell, x.scaled_positions, supercell and primitive matrices); plus rejection-path rules (atom-count test before the maps are stored; species test on full symbols gathered through the mapping table); integrality typing of the trimming gate; rounding-before-integer-conversion def-use rule; symbolic evaluation of the trimming-frame expression on 3x3 symbolic entries with numpy broadcasting semantics (diag(frame).T = S); broadcast-alignment rule (per-row reductions combined with columns); after its own rules, the other properties' rules on the files this property is anchored in (anchor-scoped delegation, instances cached per tree digest); symbolic corner points of the surrounding frame; index-domain typing of the stored supercell/unit-cell maps (unit cell, surrounding cell, supercell, first images; composition and block-length rules); sublattice consistency of the pure translations; species hand-over rule for cells built from cells",
        level="other",
        text="Decides the clause 'the supercell has lattice S^T L' and its siblings for the primitive cell and the shortest-vector basis change for every matrix at once: a transposed or wrong-lattice product is a type error unless the matrix is diagonal, which is exactly why tests on diagonal/symmetric matrices cannot see it. Also decides that cells which cannot be tiled are rejected before index maps are stored. Does not decide duplicate-free tiling or the group property of the translation permutations (runtime values). Also decides the trimming gate's integrality, that float change-of-basis matrices are rounded (not truncated) before they become integer, and that the old-style trimming frame divides row i of the supercell matrix by the frame length of row i.",
        note="Trusted: CPython ast; the seed types of cell/positions/matrices (documented conventions of PhonopyAtoms and the Supercell/Primitive docstrings). Unknown operands type to unknown and are never reported.",
        ref="DESIGN.md §3 C04",
    ),
    "C06": dict(
        technique="static analysis: element-wise symbolic execution (clang-14 JSON AST -> sympy closed form of a generic array element, reductions as Sum) of the forward kernel's per-image contribution and of the inverse kernel; coefficient extraction and trigonometric identity checks; open-term comparison of the two Python references; structural pairing rule for the Smith-normal-form enumeration of commensurate points; history-independence rule on run(); three-valued value-preservation analysis (same / changed / other, through copies, dtype conversions, locals and module helpers) of caller-supplied commensurate points; rounding-before-integer-conversion rule followed from parameters to call sites; after its own rules, the other properties' rules on the files this property is anchored in (anchor-scoped delegation, instances cached per tree digest); interval evaluation of the extended-Euclid step for divisors of either sign; frame typing of the supercell matrix handed to the commensurate-point generator; index-map typing of the inverse transform's supercell-to-primitive table",
        level="other",
        text="Decides that the inverse transform is, term by term, the counterpart of the forward one, which is what makes FC -> D(q_k) -> FC the identity on translationally invariant force constants: it sums over exactly N = num_satom/num_patom points; it multiplies D_k by the complex conjugate of the forward phase factor, averaged over the same shortest-vector images of the same (supercell atom, primitive atom) pair; it takes the real part of D e^{i phi}; it multiplies by sqrt(m_i m_j')/N where the forward kernel divides by sqrt(m_i m_j); the Python references do the same; the integer commensurate points run once over range(D0) x range(D1) x range(D2) with each index scaled by the other two Smith-normal-form entries. Does not decide that the enumerated points are distinct modulo reciprocal lattice vectors, numeric equality of a round trip, or Phonopy.ph2ph. Also decides that run() starts from zeroed force constants on every call and that commensurate points supplied by the caller are stored as given (the dynamical matrices supplied next belong to exactly those q).",
        note="Trusted: clang-14 JSON AST, sympy (cos(-x) = cos(x) folding is accounted for by deciding phase sign and Re/Im combination jointly).",
        ref="DESIGN.md §3 C06",
    ),
    "C08": dict(
        technique="static analysis: element-wise symbolic execution of the NAC kernels' loop nests over the clang-14 JSON AST (literal-bound loops unrolled, size-bound loops run once for a generic index, array cells as patterns, callees inlined) giving closed sympy forms of a generic array element; homogeneity tests by substitution (direction -> s direction, Born -> s Born); who-writes and subscript-dependence rules; open-term comparison of the Python fallback with the same closed form; after its own rules, the other properties' rules on the files this property is anchored in (anchor-scoped delegation, instances cached per tree digest); path enumeration of the Wang driver over the clang AST (conditions split into atoms, conditional operators split, pointer locals followed): which vector the term is built from in each class of |q| and direction; provenance of the radius in the default damping parameter; closed form of the Gonze-Lee q = 0 on-site term by element-wise symbolic execution",
        level="other",
        text="Decides the zone-centre clauses for both methods: the term added along a direction n is nac_factor (n.Z_j)_a (n.Z_j')_b / (n.eps.n) (Wang: kernel and Python fallback, per image 1/N; Gonze-Lee: the G+q=0 term n_a n_b/(n.eps.n) dressed by multiply_borns), it is homogeneous of degree 0 in n -- hence independent of the length of n --, every correction term is bilinear in the Born charges -- hence zero charges switch it off --, the Wang addend is the same for all supercell images of a primitive atom, which is what makes it cancel at non-zero commensurate q, and the Gonze-Lee short-range force constants are built from dynamical matrices, dipole terms and an inverse transform that all use the same representatives of the commensurate points. Does not decide the cancellation of the Gonze-Lee reciprocal sum at commensurate points (a lattice-sum identity realised by a run-time G list), its stated precision, or the mass weighting / eigenvalues.",
        note="Trusted: clang-14 JSON AST, sympy. Assumption printed in the evidence: dd_q0 comes from the same Born dressing. The zone-centre switch tolerance is compared across languages under C13 (R13e).",
        ref="DESIGN.md §3 C08",
    ),
    "C09": dict(
        technique="static analysis on Python ast: structural proof obligations on the weight construction (open-term comparison), typestate over guard-correlated paths for the coupled symmetry flags, sibling keyword agreement for stored/iterated meshes, axis/weight abstract interpretation of nine mesh consumers (every sum/dot/einsum/loop accumulation over the irreducible q axis carries the weight; result homogeneous of degree 0 in the weights), pairwise precondition rule for the rotations (mesh numbers and half-shift flags per lattice-equivalent axis pair), guard-before-construction rule for consumers that need an unreduced mesh; finite-domain evaluation of the half-shift flag function; multiset typing of the weight construction; orientation typing of rotations; symbolic execution of the lattice-vector-equivalence function for a generic rotation with Boolean equivalence over sign-insensitive atoms; after its own rules, the other properties' rules on the files this property is anchored in (anchor-scoped delegation, instances cached per tree digest); global-normalisation rule for weighted means; binary-search rule; degree typing of the compiled consumers' C expressions in the q-point multiplicities (every store that reaches an output has degree 1); symbolic evaluation of the axis-pair compatibility flags in any spelling; half-shift rule for negated grid addresses (built-in examples); band-axis typing of the projected moments",
        level="other",
        text="Decides the clauses that make 'reduced sampling == full sampling' true by construction: weights are one count per grid point selected by the values of the same table; time reversal is never used where mesh symmetry is off (all constructor paths, all callers); both mesh flavours receive the same rotations and the symmetry library their documented orientation; every consumer (loop, dot, einsum or sum form) weights each q exactly once and divides by the weight sum; rotations are only used when mesh numbers and half-shifts agree on every pair of axes a rotation exchanges; eigenvector-dependent consumers refuse reduced meshes. Does not decide that spglib's mapping is a correct orbit decomposition.",
        note="Trusted: CPython ast, spglib's documented argument conventions.",
        ref="DESIGN.md §3 C09",
    ),
    "C10": dict(
        technique="static analysis: source-to-sympy translation of the Python and C closed forms (algebraic identity checking), interval abstract interpretation with IEEE-754 specials, AST pattern rules for filters/guards/unit chain; element-wise symbolic execution of the whole compiled reduction (closed form of a generic output cell with indicator factors for the T and cutoff guards); path conditions of the accumulations; path enumeration of the constructor over its options (absolute values / band selection on every path); after its own rules, the other properties' rules on the files this property is anchored in (anchor-scoped delegation, instances cached per tree digest); binary-search rule; axis typing (component x band) of the eigenvector arrays in the projected sums",
        level="other",
        text="Decides, for the source expressions themselves (not sampled values): S=-dF/dT, Cv=T dS/dT, documented F, C==Python, absence of NaN/inf over a stated (T,nu) box including h nu/kT >> 709, a single cutoff filter, identical unit chain and the T=0 guard. Does not decide monotonicity or what LAPACK returns.",
        note="Trusted: CPython ast, clang-14 JSON AST, sympy as normaliser, the translators in engine/symalg.py, interval semantics in engine/absint.py (rounding ignored except overflow/underflow/absorption thresholds).",
        ref="DESIGN.md §3 C10",
    ),
    "C11": dict(
        technique="static analysis: clang-JSON-to-sympy and ast-to-sympy translation of the 38+38 tetrahedron closed forms (equality as rational functions, sum rules by differentiation/cancellation), exhaustive evaluation of the literal C tetrahedra tables, abstract interpretation of the sorting network over the finite domain of 24 orderings, dispatch-table and case-split comparison, symbolic integration of the smearing kernels; element-wise symbolic execution of the table-copy and helper loops; provenance rule for stored iterator weights; role-based extraction (parameters by position, locals by what they receive); closed form of the compiled tetrahedron-DOS driver with uninterpreted library calls, structural rule on its irreducible-point tables; no-truncation rule for the smearing kernel; after its own rules, the other properties' rules on the files this property is anchored in (anchor-scoped delegation, instances cached per tree digest); grid-index stride rule; kind inference for the rank of the central vertex; the main-diagonal choice decided on the function itself: closed forms of the compared lengths and evaluation over all orderings of four lengths (finite ordering domain); fresh-write rule for the DOS classes (state set elsewhere is not changed in place by run()); observer purity of the DOS classes; axis typing of the projected DOS sums",
        level="other",
        text="Decides: C==Python for every closed form and for the (i,ci) dispatch and omega case split; sum_c I=1, sum_c J=1 (additivity of projected DOS), dn/dw=g, continuity and full normalisation of n; geometric validity of the 4x24 literal tetrahedra; correctness of sort_omegas on all strict orderings; unit integral of both smearing kernels; that every DOS path weights by multiplicity and divides by the grid size once. Does not decide non-negativity / [0,1] bounds (inequalities) or the run-time generated Python table.",
        note="Trusted: clang-14 JSON AST (parsed with -DTHM_EPSILON=1e-10 as CMake does), CPython ast, sympy cancel/diff/integrate as normaliser, engine/symalg.py translators. Generic branch of _f (distinct vertex frequencies).",
        ref="DESIGN.md §3 C11",
    ),
    "C12": dict(
        technique="static analysis: source-to-sympy derivative identity for the chain-rule coefficient, open-term comparison of the finite-difference and Grueneisen formulas with the documented ones, element-wise symbolic execution of the compiled derivative kernel compared with the sympy derivative of the forward kernel's closed form (FC part with image selection, NAC part), whole-class attribute resolution for objects constructed from repository classes, path enumeration of the q-point loops for band-order consistency of all per-band results; frame typing of the finite-difference displacement; open-term comparison of the group-velocity assembly sites; role-separation rule for the degeneracy tolerance; after its own rules, the other properties' rules on the files this property is anchored in (anchor-scoped delegation, instances cached per tree digest); symmetry-source rule for the Grueneisen mesh; frame typing of the little-group selection (products of reciprocal operations with q, stacks included) and entry-wise symbolic evaluation of the averaged term; observer purity of the Grueneisen plot / write methods (view-alias effect analysis, built-in example); view-update rule on the derivative / Grueneisen modules",
        level="other",
        text="Decides the coefficient clauses: the factor applied to <e|dD|e> is d(factor sqrt l)/dl, the numerical derivative is the symmetric difference over 2|dq|, gamma = -<e|dD|e>/(dV/V)/(2 l) with dD = D(V+) - D(V-) and the strain from the three supplied cells; that every documented access path (attribute/method on a locally constructed repository object) exists, and that eigenvalues, eigenvectors, <e|dD|e> and group velocities of one q-point are reordered by the same band connection. Does not decide that dD equals the derivative of D (loop nests), degeneracy handling or mesh agreement.",
        note="Trusted: CPython ast, sympy. Two known findings: phonopy-gruneisen calls two methods PhonopyGruneisen no longer has.",
        ref="DESIGN.md §3 C12",
    ),
    "C13": dict(
        technique="static analysis over the clang-14 JSON AST of c/*.c and the nanobind glue plus Python ast: cross-language ABI table (dtype/contiguity/arity by backward def-use with call context), swapped-argument detector, OpenMP data-sharing and mixed-radix subscript-injectivity analysis with callee write summaries, preprocessor-block and serial/parallel twin comparison, symbolic bounds of every write against malloc sizes / fixed extents / Python allocation shapes, perfect mixed-radix (dense row-major) form of every affine subscript, symbolic differentiation of the derivative kernel's helpers, constant and sibling-kernel agreement; the kernel closed-form rules of C02/C06/C08/C10/C11/C12 re-run for their instances in the compiled sources (every routine equals its reference formula); after its own rules, the other properties' rules on the files this property is anchored in (anchor-scoped delegation, instances cached per tree digest); path enumeration of the glue functions: optional arrays are NULL or the caller's data per flag combination; dtype inference of np.arange and of integer arrays combined with caller-supplied scalars; 1-D conditional copies",
        level="other",
        text="Decides the shape-of-code failure modes the property names: a kernel reinterpreting a buffer (dtype, layout, argument order, axis), a data race or order-dependent shared accumulation in any of the 11 parallel regions (for every schedule and thread count), code that exists only in the OpenMP build, a write past a temporary, a fixed-extent array or the array Python allocated, leaks, and diverging cross-language constants. Does not decide that loop-nest kernels compute the reference values (that is decided for the closed-form kernels under C10/C11 only). For the kernels that have a closed form (Fourier sum, inverse transform, NAC terms, thermal reduction, tetrahedron weights and DOS driver, derivative kernel) it also decides that the routine computes the reference formula, by the rules of the property that owns the formula.",
        note="Trusted: clang-14 JSON AST, the 30-line nanobind/omp.h stubs under /verif/stubs, sympy polynomial arithmetic. Assumptions (value ranges / injectivity of integer index maps supplied by the Python layer) are printed in the evidence. Unresolved Python arguments are listed as unknown, never reported.",
        ref="DESIGN.md §3 C13",
    ),
    "C14": dict(
        technique="static analysis on Python ast: guard-correlated alias/retention/overwrite analysis, path-sensitive definite-assignment (worlds of option-guard facts with class flag implications), open-term normal form of every eigenvalue->frequency conversion site, sibling-call keyword agreement across if-arms, who-reads rule for file writers; value-taint rule for the yaml / hdf5 writers of eigenvectors (copy only: indexing, transposition, reshape, real / imaginary part); after its own rules, the other properties' rules on the files this property is anchored in (anchor-scoped delegation, instances cached per tree digest); zone-centre window rule; same-name forwarding rule; sibling-class keyword rule; the batch solver behind the q-point drivers is an extra anchor for delegation (memory-order rules of the kernel arguments); fresh-write rule: results handed out by reference are not overwritten in place by the next call (built-in positive example); permutation-direction agreement of the band connection; observer purity (view-alias effect analysis of plot / write / get methods); out= aliasing rule across calls (built-in examples)",
        level="other",
        text="Decides, for every combination of the boolean output options (a product space no test enumerates), that no retained result view is overwritten through an alias, that no result variable is unbound on an option path, that all 11 access paths convert eigenvalues to frequencies by the same expression, that stored and iterated meshes (and every other if-selected sibling construction) are configured with the same keyword values, and that writers read only what the API returns. Does not decide that LAPACK eigenvectors diagonalise the matrix or band-connection permutations.",
        note="Trusted: CPython ast, sympy as normaliser. Assumes for-loops run at least once, == dispatch chains are exhaustive, and 'if b: self._a = True' in __init__ is an invariant.",
        ref="DESIGN.md §3 C14",
    ),
    "C15": dict(
        technique="static analysis on Python ast: interprocedural effect summaries (which repo functions mutate which argument in place), two-state typestate (written / rebuilt) over guard-correlated worlds for every public method and property setter of Phonopy, who-captures-the-dynamical-matrix analysis, copy-at-the-boundary rules for PhonopyAtoms, constructor-parameter exhaustiveness of copy(); after its own rules, the other properties' rules on the files this property is anchored in (anchor-scoped delegation, instances cached per tree digest); may-alias analysis of conditional copies changed in place; the shared group-velocity and derivative objects are extra anchors for delegation (sticky per-call state); fresh-write rule for the shared dynamical-matrix / group-velocity objects; who-may-write rule for the constructor configuration of the Phonopy object; view-update rule (a local bound to a view of stored data is not augmented in place)",
        level="other",
        text="Decides the clause that makes history independence possible at all: on every normal exit of every public state-changing operation (found through effect summaries, not a name list) the dynamical matrix and the persistent group-velocity helper are rebuilt from all four state fields, dataset writers drop the cached displaced supercells, builders do not feed a state field back into itself, cell objects hand out and store copies, and copy() forwards every constructor parameter. Histories are unbounded; the rule is per operation and therefore covers every sequence. Does not decide numerical equality with a fresh object.",
        note="Trusted: CPython ast; the accepted skip guards (no masses / no force constants yet) and the net-identity exception (show_drift_force_constants) are listed in the rule source. The documented zero-copy contract of Phonopy.force_constants is not judged. One known finding (deprecated frequency_scale_factor).",
        ref="DESIGN.md §3 C15",
    ),
    "C16": dict(
        technique="static analysis on Python ast: extraction of the yaml keys the dumpers can emit (string/f-string templates, holes resolved through call-site literals) and of the keys the loaders read (taint from self._yaml), set agreement for the fields the property names, legacy-key table; format-string tokenisation of the whitespace-parsed text writers; who-passes-what rule for save() and monotonicity of the settings save() adjusts; site typing of the BORN symmetry expansion; default-fill discipline of the loading helpers (guarded writes into loaded dictionaries, merge order); flow-sensitive provenance of the masses each cell receives before save(); after its own rules, the other properties' rules on the files this property is anchored in (anchor-scoped delegation, instances cached per tree digest); class-level mutable default rule; resolved-argument rule of load(); same-name forwarding; finite-domain evaluation of the dumper's dataset section over its two settings; truncating-mode rule for file writers; vocabulary agreement of the NAC method between dumper, loader and dispatch; index-domain typing of the BORN writer's unit-cell indices",
        level="other",
        text="Decides the necessary conditions of write->read identity that are properties of the pair of functions: both sides use the same key names for every field the property lists, every other key the loader reads is emitted or a documented legacy key, save() hands all ten pieces of state to the dumper and never switches off an item the caller asked for, numeric columns of FORCE_SETS/FORCE_CONSTANTS/BORN cannot fuse whatever the magnitude, and the 6-column split matches the writer. Does not decide numerical equality after a round trip or hdf5 contents. Also decides that the BORN expansion applies the operation in the direction representative -> atom and that a value read from a file is never replaced by a calculator default on loading.",
        note="Trusted: CPython ast; legacy keys are a frozen table with one reason each; the latent prefix mismatch of the v2.23 legacy parser is reported as a note, not a finding.",
        ref="DESIGN.md §3 C16",
    ),
    "C17": dict(
        technique="static analysis on Python ast: dispatch-table extraction and exhaustiveness over the calculator registry with callee existence/arity resolution, constant folding of units.py against a dimensional model of each unit string (factor, NAC factor, lengths, forces, conversion table), atom-order domain typing (original / sorted-by-species / permutation / grouped counts) in the structure writers, reader-tuple vs consumer shape agreement, refusal-path rule for create_FORCE_SETS, index-domain typing (file-row order vs atom-id order) of the id-keyed LAMMPS force loader; order-domain typing of the species grouping primitive; lookup-index typing (an index found by searching Y subscripts only lists in Y's order) in the interface modules; broadcast-alignment rule in the structure writers; after its own rules, the other properties' rules on the files this property is anchored in (anchor-scoped delegation, instances cached per tree digest); Gram-matrix identities of the cell-from-parameters routine; provenance typing of the SIESTA species tables; symbolic evaluation of the lattice assembly of readers with per-vector scale factors (backward slice of cell=); lookup-list identity for writers with a species header and per-atom indices; class-level mutable defaults of the interface classes (shallow copies with nested mutable values); definedness rule for early exits of streaming readers",
        level="other",
        text="Decides exhaustively over the 16 calculators: a handler exists with a compatible signature in all 7 dispatch functions; every unit number equals what its own unit strings imply (to 1e-9) so that one crystal gives the same THz in every unit system; no writer pairs a per-atom sequence in original order with one sorted by species (the defect only shows for interleaved input, which no sample file has); consumers index the reader's info tuple within its length; position mismatches refuse; force rows keyed by atom id are scattered to that id, never gathered through the ids, and incomplete id sets are refused. Does not decide textual round trips of particular files or lattice orientation conventions. Also decides, for the WIEN2k reader, that forces stored in case.scf order are addressed through an index looked up in a list of the same order.",
        note="Trusted: CPython ast; the per-atom meaning of two writer parameters (speci, conv_numbers) is a frozen table with reasons. Relative tolerance 1e-9 against constants folded from units.py itself.",
        ref="DESIGN.md §3 C17",
    ),
    "C18": dict(
        technique="static analysis on Python ast: extraction of the seven tables of the settings pipeline (argparse dests, read_options forwarding with guard kind and value encoding, parse_conf handlers, set_parameter names, set_settings consumers, Settings keys/setters, settings reads in the scripts) and set-algebra / agreement rules between adjacent tables, including evaluation of every parser default against the guard under which the dest is forwarded; silent-default evaluation of all add_argument calls; sibling-construction rule for the command defaults handed to the configuration parser; after its own rules, the other properties' rules on the files this property is anchored in (anchor-scoped delegation, instances cached per tree digest); path evaluation of the primitive-matrix precedence; same-name forwarding; in-place self-aliasing rule (an element taken without a copy is not the operand of an in-place update that runs over it; built-in positive example); resolved-calculator rule for calculator-dependent defaults; value-provenance rule of the configuration-file reader (no case folding of values); key agreement for dictionary-valued settings",
        level="other",
        text="Decides, exhaustively over all ~107 options and ~111 tags, the clause 'a setting has the same effect as tag or as option' as far as it is a property of the tables: every option reaches a handler, every parameter reaches an existing setter, every settings read in the scripts exists, the encoding stored for a key is the one its handler parses (including the polarity of negative flags), numeric options are forwarded under 'is not None' so that 0 means 0 on both routes, and an option that was not typed forwards nothing, so a configuration-file tag is not overridden by a parser default. Does not decide that output files equal library results. Also decides that the command defaults (phonopy-load: NAC on, symmetrised force constants) are in force whether or not a configuration file is read.",
        note="Trusted: CPython ast. Options handled directly by the scripts and namespace-only probes are frozen lists with one reason each. Documentation tags are reported as notes only.",
        ref="DESIGN.md §3 C18",
    ),
    "C19": dict(
        technique="static analysis: source-to-sympy translation of the displacement prefactors with symbolic unit constants (identity with hbar/(2 m w)(1+2n) and k_B T/(m w^2)), equality of the Bose-Einstein expressions across modules, structural rules for the sqrt(2) / real-imaginary bookkeeping of conjugate q-point pairs, interprocedural frame typing of the sampler's position/phase set-up; interprocedural count of seeded random generators per run; open-term comparison of the sampler and thermal-displacement assembly sites in each function's own environment; symbolic evaluation of the CIF normalisation on 3x3 symbols; broadcast-alignment rule; after its own rules, the other properties' rules on the files this property is anchored in (anchor-scoped delegation, instances cached per tree digest); memoised-derived-state rule (with a built-in positive example); symbolic evaluation of the spectral reassembly D = V diag(w) V^H on complex symbols (loop, batched matmul and einsum spellings); axis typing of the D-type to C-type eigenvector conversion; fresh-write rule for result arrays; symbolic evaluation of the projected / unprojected displacement weights on complex symbols",
        level="other",
        text="Decides the prefactor and distribution clauses for all temperatures/frequencies at once: both modules' mean-square amplitude per mode is algebraically the harmonic canonical one (quantum and classical), the two Bose-Einstein factors are the same function, q = -q+G points carry no sqrt(2) and conjugate pairs do with Re - Im, the partition is computed once, and supercell positions enter the phases as primitive-cell components contracted with reduced q-points. Does not decide covariance equality of the sampler, positive semi-definiteness or the CIF transform.",
        note="Trusted: CPython ast, sympy, units.py constants as symbols. One known finding: populations are switched off for T <= 1 K in ThermalMotion.",
        ref="DESIGN.md §3 C19",
    ),
    "C20": dict(
        technique="static analysis: source-to-sympy translation of the three equations of state and symbolic differentiation (12 defining-meaning obligations); open-term normal-form comparison of the QHA finite-difference, unit and PV formulas with the documented ones; dispatch/unpack-order table rules; exactness of the numerical Cp on quadratics with np.polyfit interpreted; temperature-window rules; element-wise reading of vectorised slice stores; dtype rule for result arrays; dispatch read as a name -> function map in either spelling; after its own rules, the other properties' rules on the files this property is anchored in (anchor-scoped delegation, instances cached per tree digest); order-domain typing of the volume-indexed arrays",
        level="proof",
        text="Every obligation is an algebraic identity about the source expression as written (E(V0)=E0, E'(V0)=0, V0E''(V0)=B0, dB/dP=B0'; +PV term; row-i-to-temperature-i; documented finite differences), discharged by sympy normalisation — valid for all parameter values, which no test can sample. Does not decide that scipy's least-squares fit recovers the parameters. Also decides the temperature window, the residual's argument order, and that result arrays cannot silently take an integer dtype from caller-supplied temperatures.",
        note="Trusted: CPython ast, sympy 1.14 diff/simplify as normaliser, translators in engine/symalg.py. Assumes v, V0, B0, B0' > 0; Murnaghan's removable singularity at B0'=1 not claimed.",
        ref="DESIGN.md §3 C20",
    ),
}

NOT_APPLICABLE = {
    "C01": "exact recovery of force constants quantifies over space groups/supercells and the rank of a pseudo-inverse; no clause is visible in code shape beyond kernel ABI/bounds (decided under C13)",
    "C05": "completeness of the 65-point search window is a theorem about lattices, not a shape of the code; bounded-write and sparse/dense agreement fragments are under C13",
    "C07": "projection/idempotence and compact==full are relations over all arrays; the defect class depends on which index pairs coincide at run time",
}


def main():
    all_ids = [f"C{i:02d}" for i in range(1, 21)]
    checks = []
    for pid in all_ids:
        if pid not in CHECKS:
            continue
        if not (HERE / "rules" / f"{pid.lower()}.py").is_file():
            continue
        c = CHECKS[pid]
        checks.append(
            {
                "property_id": pid,
                "quick_cmd": f"python3-vt check.py {pid} --tier quick",
                "thorough_cmd": f"python3-vt check.py {pid} --tier thorough",
                "evidence_file": f"/verif/evidence/{pid}.json",
                "replay_cmd_template": "python3-vt check.py --replay {path}",
                "engine": "static",
                "level_claimed": {"category": c["level"], "text": c["text"], "design_ref": c["ref"]},
                "level_note": c["note"],
                "technique": c["technique"],
            }
        )
    claimed = {c["property_id"] for c in checks}
    na = []
    for pid in all_ids:
        if pid in claimed:
            continue
        reason = NOT_APPLICABLE.get(pid, "static check not built yet for this property (see DESIGN.md §3); not claimed")
        na.append({"property_id": pid, "reason": reason})
    man = {
        "version": 1,
        "setup_cmd": "python3-vt tools/setup_check.py",
        "hooks": {
            "guard": "PHONOPY_VERIF",
            "enable": "no hooks: the checks read /repo's sources and never build or import phonopy",
            "baseline_off_cmd": BASELINE,
            "source_commits": [],
            "add_only": True,
        },
        "engines": [
            {
                "name": "static",
                "path": "/verif/engine",
                "serves_properties": sorted(claimed),
                "kind_free_text": "custom static analysers over Python ast and clang-14 JSON AST: source-to-sympy normal forms, interval abstract interpretation, statement CFG, call/effect graph, table extraction, C/Python ABI table, OpenMP data-sharing rules",
            }
        ],
        "checks": checks,
        "not_applicable": na,
        "notes": "Static analysis only. Exit 0 held / 1 VIOLATION / 2 ANALYSIS-ERROR (anchor vanished or instance floor not met). Known findings: /verif/known_findings.json.",
    }
    (HERE / "MANIFEST.json").write_text(json.dumps(man, indent=1) + "\n")
    print(f"MANIFEST.json: {len(checks)} checks, {len(na)} not_applicable")


if __name__ == "__main__":
    sys.exit(main())
