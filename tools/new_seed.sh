#!/bin/bash
# set up a scratch worktree and the property text for one seeding agent; prints the prompt.
# usage: tools/new_seed.sh <ID e.g. C02-2> "<focus sentence>"
id=$1; pid=${id%-*}; focus=$2
git -C /repo worktree add --detach /tmp/wt-$id >/dev/null 2>&1 || { echo "worktree failed"; exit 2; }
mkdir -p /tmp/seed-$id
python3 - "$pid" > /tmp/seed-$id/property.txt <<'P'
import json, sys
for l in open('/verif/properties.jsonl'):
    d = json.loads(l)
    if d['id'] == sys.argv[1]:
        print(f"Property {d['id']}: {d['title']}\n\nStatement: {d['statement']}\n\nQuantifier: {d['quantifier']}\n\nWhy tests cannot settle it: {d['why_tests_cant']}\n\nAnchors:")
        for a in d['anchors']:
            print("  -", json.dumps(a))
P
prev=""
for d in /verif/seeded/$pid-*/; do [ -f $d/meta.json ] && prev="$prev $(python3 -c "import json;print('* '+json.load(open('$d/meta.json')).get('summary','')[:220])")
"; done
sed -e "s/@ID@/$id/g" -e "s/@PID@/$pid/g" /verif/tools/seed_prompt.txt | python3 -c "
import sys
t=sys.stdin.read()
focus=sys.argv[1]
prev=sys.argv[2]
if prev.strip():
    focus += ' Earlier rounds already used these ideas for this property — pick a different mechanism, file or clause:\n' + prev
print(t.replace('@FOCUS@', focus))
" "$focus" "$prev"
