#!/bin/bash
# confirm a seeded change in its scratch worktree: demo fails with it, passes without, pinned tests still pass
# usage: confirm_seed.sh <name> <worktree> <seeddir> [demo command (default: /venv/bin/python <seeddir>/demo.py)]
name=$1; wt=$2; sd=$3; demo=${4:-"/venv/bin/python $sd/demo.py"}
cd $wt || exit 2
echo "== $name: demo WITH change"; (eval "$demo" > $sd/demo_with.log 2>&1; echo "exit=$?") | tee $sd/confirm.txt
tail -3 $sd/demo_with.log
echo "== pinned tests WITH change"
/venv/bin/python -m pytest -q -p no:cacheprovider --timeout=900 --continue-on-collection-errors --junitxml=$sd/junit.xml > $sd/pytest.log 2>&1; tail -1 $sd/pytest.log | tee -a $sd/confirm.txt
python3 - <<P | tee -a $sd/confirm.txt
import json, xml.etree.ElementTree as ET
base=set(json.load(open('/root/.vp/BASELINE.json'))['stable_pass'])
passed={tc.get('classname')+'::'+tc.get('name') for tc in ET.parse('$sd/junit.xml').iter('testcase') if not any(c.tag in ('failure','error','skipped') for c in tc)}
print('baseline tests still passing:', len(base&passed), 'of', len(base))
P
rm -f $sd/junit.xml
git diff > $sd/patch.confirmed.diff
git apply -R $sd/patch.confirmed.diff
echo "== demo WITHOUT change"; (eval "$demo" > $sd/demo_without.log 2>&1; echo "exit=$?") | tee -a $sd/confirm.txt
tail -2 $sd/demo_without.log
git apply $sd/patch.confirmed.diff
git status --short | head -5
