#!/bin/bash
# apply a seeded patch to /repo, run the given checks (quick), undo.   usage: try_seed.sh <patch> <Cxx> [Cyy ...]
patch=$1; shift
cd /repo && git diff --quiet || { echo "/repo not clean"; exit 2; }
git -C /repo apply "$patch" || { echo "patch does not apply"; exit 2; }
for p in "$@"; do
  (cd /verif && VERIF_EVIDENCE_DIR=/tmp/seed-ev VERIF_OUT=/tmp/seed-out python3-vt check.py $p --tier quick 2>&1 | grep -E "^\s+\[R|^C[0-9]+ \[|ANALYSIS" | head -8)
done
git -C /repo checkout -- . ; rm -rf /tmp/seed-ev /tmp/seed-out
