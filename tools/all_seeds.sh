#!/bin/bash
# apply every stored seed to /repo in turn, run the quick check of its property, undo; print which rule(s) fired.
# usage: tools/all_seeds.sh        (expects /repo clean; exit 1 if any seed is not reported)
cd /repo && git diff --quiet || { echo "/repo not clean"; exit 2; }
miss=0
for d in /verif/seeded/*/; do
  id=$(basename "$d"); p=${id%-*}
  git -C /repo apply "$d/patch.diff" 2>/dev/null || { echo "$id: patch does not apply (tree moved on)"; continue; }
  out=$(cd /verif && VERIF_EVIDENCE_DIR=/tmp/seed-ev VERIF_OUT=/tmp/seed-out python3-vt check.py $p --tier quick 2>&1)
  rc=$?
  rules=$(echo "$out" | grep -oE "^\s+\[R[0-9a-z.]+\]" | tr -d ' []' | sort -u | tr '\n' ' ')
  git -C /repo checkout -- .
  [ $rc -eq 1 ] || miss=1
  echo "$id exit=$rc rules: $rules"
done
rm -rf /tmp/seed-ev /tmp/seed-out
exit $miss
