#!/bin/bash
# apply every stored seed to a scratch copy of /repo, run the quick check of its property against the copy
# (VERIF_REPO), print which rule(s) fired; 8 seeds at a time.   exit 1 if any seed is not reported.
# usage: tools/all_seeds.sh [ID ...]
cd /verif
ids="$@"; [ -z "$ids" ] && ids=$(ls seeded | grep -v UNDETECTED)
run_one() {
  id=$1; p=${id%-*}; d=/tmp/seedrun-$id
  rm -rf $d; mkdir -p $d/repo
  (cd /repo && git ls-files -z | xargs -0 cp --parents -t $d/repo) 2>/dev/null
  (cd $d/repo && patch -p1 -s < /verif/seeded/$id/patch.diff) || { echo "$id: patch does not apply"; rm -rf $d; return; }
  out=$(cd /verif && VERIF_REPO=$d/repo VERIF_EVIDENCE_DIR=$d/ev VERIF_OUT=$d/out python3-vt check.py $p --tier quick 2>&1); rc=$?
  rules=$(echo "$out" | grep -oE "^\s+\[R[0-9a-zA-Z.]+\]" | tr -d ' []' | sort -u | tr '\n' ' ')
  echo "$id exit=$rc rules: $rules"
  rm -rf $d
}
export -f run_one
printf "%s\n" $ids | xargs -P 8 -I{} bash -c 'run_one {}' | sort > /tmp/all_seeds.out
cat /tmp/all_seeds.out
# seeds listed in seeded/UNDETECTED are expected to pass unnoticed (exit=0); anything else that is not reported fails
und=$(grep -v "^#" seeded/UNDETECTED 2>/dev/null | awk '{print $1}')
bad=0
while read -r line; do
  id=${line%% *}
  case "$line" in *"exit=1 "*) continue;; esac
  if echo "$und" | grep -qx "$id" && echo "$line" | grep -q "exit=0 "; then echo "(expected) $line"; continue; fi
  bad=1
done < /tmp/all_seeds.out
exit $bad
