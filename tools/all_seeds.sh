#!/bin/bash
# apply every stored seed to a scratch copy of /repo, run the quick check of its property against the copy
# (VERIF_REPO), print which rule(s) fired; 8 seeds at a time.   exit 1 if any seed is not reported.
# usage: tools/all_seeds.sh [ID ...]
cd /verif
ids="$@"; [ -z "$ids" ] && ids=$(ls seeded)
run_one() {
  id=$1; p=${id%-*}; d=/tmp/seedrun-$id
  rm -rf $d; mkdir -p $d/repo
  (cd /repo && git ls-files -z | xargs -0 cp --parents -t $d/repo) 2>/dev/null
  (cd $d/repo && patch -p1 -s < /verif/seeded/$id/patch.diff) || { echo "$id: patch does not apply"; rm -rf $d; return; }
  out=$(cd /verif && VERIF_REPO=$d/repo VERIF_EVIDENCE_DIR=$d/ev VERIF_OUT=$d/out python3-vt check.py $p --tier quick 2>&1); rc=$?
  rules=$(echo "$out" | grep -oE "^\s+\[R[0-9a-zA-Z.]+\]" | tr -d ' []' | sort -u | tr '\n' ' ')
  echo "$id exit=$rc rules: $rules"
  rm -rf $d
}
export -f run_one
printf "%s\n" $ids | xargs -P 8 -I{} bash -c 'run_one {}' | sort > /tmp/all_seeds.out
cat /tmp/all_seeds.out
if grep -qv "exit=1 " /tmp/all_seeds.out; then exit 1; fi
exit 0
