#!/usr/bin/env python3
"""setup_cmd: verify offline that everything the checks need is present."""
import shutil
import subprocess
import sys

ok = True
for m in ("sympy", "networkx", "lark"):
    try:
        __import__(m)
    except Exception as e:  # pragma: no cover
        print(f"missing python module {m}: {e}")
        ok = False
clang = shutil.which("clang-14") or shutil.which("clang")
if not clang:
    print("clang-14 not found")
    ok = False
else:
    p = subprocess.run([clang, "--version"], capture_output=True, text=True)
    print(p.stdout.splitlines()[0] if p.stdout else "clang: no version output")
print("setup ok" if ok else "setup FAILED")
sys.exit(0 if ok else 1)
