/* minimal omp.h stub for parsing only (trusted base of C13) */
#ifndef VERIF_OMP_STUB_H
#define VERIF_OMP_STUB_H
#ifdef __cplusplus
extern "C" {
#endif
int omp_get_max_threads(void);
int omp_get_num_threads(void);
int omp_get_thread_num(void);
void omp_set_num_threads(int);
#ifdef __cplusplus
}
#endif
#endif
