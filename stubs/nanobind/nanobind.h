// Minimal nanobind stub: enough for clang to parse c/_phonopy.cpp. Trusted base of C13.
#ifndef VERIF_NANOBIND_STUB_H
#define VERIF_NANOBIND_STUB_H
#include <stddef.h>
#include <stdint.h>
namespace nanobind {
template <typename... Args> class ndarray {
   public:
    void *data() const;
    size_t shape(size_t i) const;
    size_t ndim() const;
    size_t size() const;
};
class module_ {
   public:
    template <typename F> module_ &def(const char *name, F f);
};
}  // namespace nanobind
#define NB_MODULE(name, var) void verif_nb_module_##name(nanobind::module_ &var)
#endif
