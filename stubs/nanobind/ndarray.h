#include <nanobind/nanobind.h>
