"""E3 — C / C++ front end: clang-14 JSON AST of the files under /repo/c.

The translation units are produced by `clang -fsyntax-only -Xclang -ast-dump=json`
(nothing is compiled to code, nothing is run).  Results are cached under
out/cache keyed by the digest of the source, the headers next to it and the flags.
"""

from __future__ import annotations

import hashlib
import json
import os
import re
import subprocess
from pathlib import Path

from . import core
from .core import AnalysisError

STUBS = core.VERIF / "stubs"
C_FILES = ["c/phonopy.c", "c/dynmat.c", "c/derivative_dynmat.c", "c/tetrahedron_method.c", "c/rgrid.c"]
GLUE = "c/_phonopy.cpp"

_tu_cache: dict = {}


def _clang(cxx: bool) -> str:
    for c in (["clang++-14", "clang++"] if cxx else ["clang-14", "clang"]):
        for d in os.environ.get("PATH", "/usr/bin").split(":"):
            if (Path(d) / c).is_file():
                return str(Path(d) / c)
    raise AnalysisError("clang-14 not found")


def _digest(rel: str, flags: list[str], text: str) -> str:
    h = hashlib.sha256()
    h.update(text.encode())
    h.update(" ".join(flags).encode())
    for p in sorted((core.REPO / "c").glob("*.h")):
        h.update(p.read_bytes())
    for p in sorted(STUBS.rglob("*.h")):
        h.update(p.read_bytes())
    return h.hexdigest()[:24]


class TU:
    """One parsed translation unit: main-file declarations only."""

    def __init__(self, rel: str, text: str, decls: list[dict], openmp: bool):
        self.rel = rel
        self.text = text
        self.decls = decls
        self.openmp = openmp
        self._line_starts = [0]
        for m in re.finditer("\n", text):
            self._line_starts.append(m.end())
        self.functions: dict[str, dict] = {}
        self.prototypes: dict[str, dict] = {}
        self.globals: dict[str, dict] = {}
        for d in decls:
            k = d.get("kind")
            if k == "FunctionDecl":
                if any(c.get("kind") == "CompoundStmt" for c in d.get("inner", [])):
                    self.functions[d["name"]] = d
                else:
                    self.prototypes.setdefault(d["name"], d)
            elif k == "VarDecl":
                self.globals[d["name"]] = d
            elif k == "LinkageSpecDecl":
                for c in d.get("inner", []):
                    if c.get("kind") == "FunctionDecl":
                        self.prototypes.setdefault(c["name"], c)

    def line_of_offset(self, off: int) -> int:
        import bisect

        return bisect.bisect_right(self._line_starts, off)

    def line(self, node: dict) -> int | None:
        off = begin_offset(node)
        return None if off is None else self.line_of_offset(off)

    def excerpt(self, node: dict) -> str:
        b, e = begin_offset(node), end_offset(node)
        if b is None or e is None:
            return ""
        return core.norm(self.text[b : e + 1])


def begin_offset(node: dict):
    r = node.get("range", {}).get("begin", {})
    if "offset" in r:
        return r["offset"]
    for k in ("expansionLoc", "spellingLoc"):
        if k in r and "offset" in r[k]:
            return r[k]["offset"]
    return None


def end_offset(node: dict):
    r = node.get("range", {}).get("end", {})
    for src in (r, r.get("expansionLoc", {}), r.get("spellingLoc", {})):
        if "offset" in src:
            return src["offset"] + src.get("tokLen", 1) - 1
    return None


def load(rel: str, openmp: bool = True, symbolize: tuple[str, ...] = (), defines: tuple[str, ...] = ()) -> TU:
    key = (rel, openmp, symbolize, defines)
    if key in _tu_cache:
        return _tu_cache[key]
    text = core.read(rel)
    cxx = rel.endswith(".cpp")
    src_text = text
    for name in symbolize:
        # keep the macro symbolic: '#define KB 8.6e-5' -> 'extern const double KB;'
        pat = re.compile(r"^[ \t]*#define[ \t]+" + re.escape(name) + r"[ \t]+[^\n]*$", re.M)
        if not pat.search(src_text):
            raise AnalysisError(f"anchor vanished: #define {name} in {rel}")
        src_text = pat.sub(f"extern const double {name};", src_text)
    flags = ["-fsyntax-only", f"-I{STUBS}", f"-I{core.REPO / 'c'}", "-Xclang", "-ast-dump=json", "-w"]
    if openmp:
        flags.insert(1, "-fopenmp")
    for d in defines:
        flags.insert(1, f"-D{d}")
    if cxx:
        flags.insert(1, "-std=c++17")
    dig = _digest(rel, flags, src_text)
    cache = core.OUT / "cache" / f"{Path(rel).name}.{dig}.json"
    if cache.is_file():
        decls = json.loads(cache.read_text())
    else:
        lang = ["-x", "c++" if cxx else "c", "-"]
        try:
            p = subprocess.run(
                [_clang(cxx)] + flags + lang,
                input=src_text.encode(),
                capture_output=True,
                timeout=300,
            )
        except (OSError, subprocess.TimeoutExpired) as e:  # pragma: no cover
            raise AnalysisError(f"clang failed on {rel}: {e}") from e
        if p.returncode != 0:
            raise AnalysisError(
                f"clang cannot parse {rel}: {p.stderr.decode(errors='replace')[:400]}"
            )
        root = json.loads(p.stdout)
        decls = [
            n
            for n in root.get("inner", [])
            if "includedFrom" not in n.get("loc", {})
            and not n.get("isImplicit")
            and _in_main(n)
        ]
        cache.parent.mkdir(parents=True, exist_ok=True)
        for old in cache.parent.glob(f"{Path(rel).name}.*.json"):
            if old.stat().st_mtime < __import__("time").time() - 6 * 3600:
                old.unlink(missing_ok=True)
        tmp = cache.with_suffix(f".tmp{os.getpid()}")
        tmp.write_text(json.dumps(decls))
        os.replace(tmp, cache)
    tu = TU(rel, src_text, decls, openmp)
    _tu_cache[key] = tu
    return tu


def _in_main(n: dict) -> bool:
    """clang marks the presumed file only where it changes; decls of the main file
    read from stdin have loc.file '<stdin>' or no file at all after the first."""
    loc = n.get("loc", {})
    f = loc.get("file") or loc.get("expansionLoc", {}).get("file") or loc.get("spellingLoc", {}).get("file")
    if f is None:
        return True
    return f in ("<stdin>",)


# ---------------------------------------------------------------------------
# tree helpers
# ---------------------------------------------------------------------------


def kids(n: dict) -> list[dict]:
    return [c for c in n.get("inner", []) if isinstance(c, dict)]


def walk(n: dict):
    stack = [n]
    while stack:
        x = stack.pop()
        yield x
        stack.extend(reversed(kids(x)))


def body(fn: dict) -> dict:
    for c in kids(fn):
        if c.get("kind") == "CompoundStmt":
            return c
    raise AnalysisError(f"function {fn.get('name')} has no body")


def params(fn: dict) -> list[dict]:
    return [c for c in kids(fn) if c.get("kind") == "ParmVarDecl"]


def strip(e: dict) -> dict:
    """Remove parentheses and implicit/explicit value casts that do not change meaning
    for the analyses here (LValueToRValue, decay, NoOp)."""
    while True:
        k = e.get("kind")
        if k in ("ParenExpr", "ConstantExpr", "ExprWithCleanups", "MaterializeTemporaryExpr") and kids(e):
            e = kids(e)[0]
        elif k == "ImplicitCastExpr" and e.get("castKind") in (
            "LValueToRValue",
            "FunctionToPointerDecay",
            "ArrayToPointerDecay",
            "NoOp",
        ):
            e = kids(e)[0]
        else:
            return e


def qtype(e: dict) -> str:
    return e.get("type", {}).get("qualType", "")


def is_int_type(t: str) -> bool:
    t = t.replace("const ", "").strip()
    return t in (
        "int",
        "long",
        "int64_t",
        "long long",
        "unsigned int",
        "unsigned long",
        "size_t",
        "char",
        "short",
        "int32_t",
        "uint64_t",
    )


def ref_name(e: dict) -> str | None:
    e = strip(e)
    while e.get("kind") in ("ImplicitCastExpr", "CStyleCastExpr", "ParenExpr") and kids(e):
        e = strip(kids(e)[0])
    if e.get("kind") == "DeclRefExpr":
        return e.get("referencedDecl", {}).get("name")
    return None


def callee_name(call: dict) -> str | None:
    ks = kids(call)
    if not ks:
        return None
    c = strip(ks[0])
    if c.get("kind") == "DeclRefExpr":
        return c.get("referencedDecl", {}).get("name")
    if c.get("kind") == "MemberExpr":
        return c.get("name")
    return None


def call_args(call: dict) -> list[dict]:
    return kids(call)[1:]


def text(e: dict) -> str:
    """Canonical C-like text of an expression (format independent)."""
    e0 = e
    k = e.get("kind")
    ks = kids(e)
    if k in ("ParenExpr",):
        return "(" + text(ks[0]) + ")"
    if k in ("ImplicitCastExpr", "ConstantExpr", "ExprWithCleanups", "MaterializeTemporaryExpr"):
        return text(ks[0])
    if k in ("CStyleCastExpr", "CXXStaticCastExpr", "CXXFunctionalCastExpr"):
        return f"({qtype(e)})" + text(ks[0])
    if k == "DeclRefExpr":
        return e.get("referencedDecl", {}).get("name", "?")
    if k == "IntegerLiteral":
        return str(e.get("value"))
    if k == "FloatingLiteral":
        return str(e.get("value"))
    if k == "CharacterLiteral":
        return repr(chr(int(e.get("value"))))
    if k == "StringLiteral":
        return str(e.get("value"))
    if k == "BinaryOperator" or k == "CompoundAssignOperator":
        return f"{text(ks[0])} {e.get('opcode')} {text(ks[1])}"
    if k == "UnaryOperator":
        if e.get("isPostfix"):
            return f"{text(ks[0])}{e.get('opcode')}"
        return f"{e.get('opcode')}{text(ks[0])}"
    if k == "ArraySubscriptExpr":
        return f"{text(ks[0])}[{text(ks[1])}]"
    if k == "CallExpr" or k == "CXXMemberCallExpr":
        return f"{text(ks[0])}(" + ", ".join(text(a) for a in ks[1:]) + ")"
    if k == "MemberExpr":
        return f"{text(ks[0])}.{e.get('name')}" if ks else str(e.get("name"))
    if k == "ConditionalOperator":
        return f"{text(ks[0])} ? {text(ks[1])} : {text(ks[2])}"
    if k == "UnaryExprOrTypeTraitExpr":
        return f"sizeof({e.get('argType', {}).get('qualType', text(ks[0]) if ks else '?')})"
    if k == "InitListExpr":
        return "{" + ", ".join(text(a) for a in ks) + "}"
    return f"<{k}>"


# ---------------------------------------------------------------------------
# preprocessor and pragma scan (raw text; clang's JSON drops OpenMP clause lists)
# ---------------------------------------------------------------------------


def logical_lines(src: str):
    """Yield (first_line_no, text) joining backslash continuations."""
    lines = src.split("\n")
    i = 0
    while i < len(lines):
        start = i
        cur = lines[i]
        while cur.rstrip().endswith("\\") and i + 1 < len(lines):
            cur = cur.rstrip()[:-1] + " " + lines[i + 1]
            i += 1
        yield start + 1, cur
        i += 1


def pp_blocks(src: str):
    """Return list of conditional blocks: dict(kind, cond, start, end, else_line, lines=[(no,text)])."""
    out = []
    stack = []
    for no, ln in logical_lines(src):
        s = ln.strip()
        m = re.match(r"#\s*(ifdef|ifndef|if)\b\s*(.*)", s)
        if m:
            stack.append({"kind": m.group(1), "cond": m.group(2).strip(), "start": no, "else_line": None, "then": [], "else": []})
            continue
        if re.match(r"#\s*(else|elif)\b", s):
            if stack:
                stack[-1]["else_line"] = no
            continue
        if re.match(r"#\s*endif\b", s):
            if stack:
                b = stack.pop()
                b["end"] = no
                out.append(b)
            continue
        for b in stack[-1:]:
            (b["else"] if b["else_line"] else b["then"]).append((no, ln))
    return out


def omp_pragmas(src: str):
    """Return list of dict(line, directive, clauses={name:[args]}, raw)."""
    res = []
    for no, ln in logical_lines(src):
        s = ln.strip()
        m = re.match(r"#\s*pragma\s+omp\s+(.*)", s)
        if not m:
            continue
        rest = m.group(1).strip()
        clauses: dict[str, list[str]] = {}
        directive_words = []
        pos = 0
        tok = re.compile(r"\s*([A-Za-z_]+)\s*(\(([^()]*(\([^()]*\))?[^()]*)\))?")
        while pos < len(rest):
            mm = tok.match(rest, pos)
            if not mm:
                raise AnalysisError(f"cannot parse OpenMP pragma: {s}")
            name, arg = mm.group(1), mm.group(3)
            if arg is None and not clauses and name in ("parallel", "for", "simd", "sections", "single", "critical", "atomic", "barrier", "task"):
                directive_words.append(name)
            else:
                clauses.setdefault(name, [])
                if arg is not None:
                    clauses[name].extend(a.strip() for a in arg.split(",") if a.strip())
            pos = mm.end()
        res.append({"line": no, "directive": " ".join(directive_words), "clauses": clauses, "raw": core.norm(s)})
    return res
