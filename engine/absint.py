"""E6 — interval abstract interpretation with IEEE-754 special values.

An abstract value is a closed interval [lo, hi] of doubles (endpoints may be
+-inf, meaning the double value inf is reachable, e.g. after overflow of exp)
plus a flag `nan`.  Operations follow IEEE-754 double semantics at the
endpoints (Python floats *are* IEEE doubles; they are used as the arithmetic of
the abstract domain, the analysed program is never run).  `nan` is raised for
inf-inf, 0*inf, inf/inf, 0/0, log of a negative; every such event is recorded
with the sub-expression shape that produced it.  Rounding inside the interval
is ignored except at the special thresholds (overflow, underflow to 0,
absorption 1.0 - tiny == 1.0), which is what decides NaN/inf here.
"""

from __future__ import annotations

import math

INF = math.inf


class Events:
    def __init__(self):
        self.items: list[str] = []

    def add(self, what: str):
        if what not in self.items:
            self.items.append(what)


class Iv:
    __slots__ = ("lo", "hi", "nan", "ev", "tag")

    def __init__(self, lo, hi, nan=False, ev: Events | None = None, tag: str = ""):
        self.lo, self.hi, self.nan = float(lo), float(hi), nan
        self.ev = ev
        self.tag = tag

    def __repr__(self):
        return f"[{self.lo:.6g}, {self.hi:.6g}{', NaN' if self.nan else ''}]"

    # helpers
    def has(self, v: float) -> bool:
        return self.lo <= v <= self.hi

    @property
    def has_inf(self) -> bool:
        return self.hi == INF or self.lo == -INF

    def finite(self) -> bool:
        return not self.nan and not self.has_inf

    def _mk(self, vals, nan, other=None, why=None):
        ev = self.ev or (other.ev if isinstance(other, Iv) else None)
        vals = [v for v in vals if not (isinstance(v, float) and math.isnan(v))]
        if nan and why and ev is not None:
            ev.add(why)
        if not vals:
            return Iv(-INF, INF, True, ev)
        return Iv(min(vals), max(vals), nan, ev)

    @staticmethod
    def lift(x, ev=None):
        return x if isinstance(x, Iv) else Iv(x, x, False, ev)

    # arithmetic
    def __add__(self, o):
        o = Iv.lift(o, self.ev)
        nan = self.nan or o.nan
        why = None
        if (self.hi == INF and o.lo == -INF) or (self.lo == -INF and o.hi == INF):
            nan, why = True, f"inf + (-inf) in {self!r} + {o!r}"
        return self._mk([_add(self.lo, o.lo), _add(self.hi, o.hi)], nan, o, why)

    __radd__ = __add__

    def __neg__(self):
        return Iv(-self.hi, -self.lo, self.nan, self.ev)

    def __sub__(self, o):
        o = Iv.lift(o, self.ev)
        nan = self.nan or o.nan
        why = None
        if (self.hi == INF and o.hi == INF) or (self.lo == -INF and o.lo == -INF):
            nan, why = True, f"inf - inf in {self!r} - {o!r}"
        return self._mk([_add(self.lo, -o.hi), _add(self.hi, -o.lo)], nan, o, why)

    def __rsub__(self, o):
        return Iv.lift(o, self.ev) - self

    def __mul__(self, o):
        o = Iv.lift(o, self.ev)
        nan = self.nan or o.nan
        why = None
        if (self.has(0.0) and o.has_inf) or (o.has(0.0) and self.has_inf):
            nan, why = True, f"0 * inf in {self!r} * {o!r}"
        vals = [_mul(a, b) for a in (self.lo, self.hi) for b in (o.lo, o.hi)]
        return self._mk(vals, nan, o, why)

    __rmul__ = __mul__

    def __truediv__(self, o):
        o = Iv.lift(o, self.ev)
        nan = self.nan or o.nan
        why = None
        if self.has_inf and o.has_inf:
            nan, why = True, f"inf / inf in {self!r} / {o!r}"
        if self.has(0.0) and o.has(0.0):
            nan, why = True, f"0 / 0 in {self!r} / {o!r}"
        vals = []
        for a in (self.lo, self.hi):
            for b in (o.lo, o.hi):
                vals.append(_div(a, b))
        if o.has(0.0) and not (o.lo == 0.0 == o.hi and False):
            # division by an interval touching zero reaches +-inf
            if self.hi > 0 and o.hi >= 0 or self.lo < 0 and o.lo <= 0:
                vals.append(INF)
            if self.lo < 0 and o.hi >= 0 or self.hi > 0 and o.lo < 0:
                vals.append(-INF)
            ev = self.ev or o.ev
            if ev is not None:
                ev.add(f"division by zero possible in {self!r} / {o!r}")
        return self._mk(vals, nan, o, why)

    def __rtruediv__(self, o):
        return Iv.lift(o, self.ev) / self

    def __pow__(self, p):
        if isinstance(p, Iv):
            if p.lo != p.hi:
                raise TypeError("interval exponent")
            p = p.lo
        p = float(p)
        if p == int(p) and p >= 0:
            n = int(p)
            if n == 0:
                return Iv(1, 1, self.nan, self.ev)
            vals = [_pow(self.lo, n), _pow(self.hi, n)]
            if n % 2 == 0 and self.lo < 0 < self.hi:
                vals.append(0.0)
            return self._mk(vals, self.nan)
        if p == int(p) and p < 0:
            return Iv(1, 1, False, self.ev) / (self ** (-p))
        if p == 0.5:
            return fn("sqrt", self)
        raise TypeError(f"unsupported power {p}")

    @property
    def is_integer(self):
        return False


def _add(a, b):
    try:
        return a + b
    except OverflowError:
        return INF


def _mul(a, b):
    if (a == 0 and math.isinf(b)) or (b == 0 and math.isinf(a)):
        return 0.0  # the NaN is reported by the containment test; endpoints contribute 0
    return a * b


def _div(a, b):
    if b == 0:
        if a == 0:
            return math.nan
        return math.copysign(INF, a)
    if math.isinf(a) and math.isinf(b):
        return math.nan
    return a / b


def _pow(a, n):
    try:
        return a**n
    except OverflowError:
        return INF if (a > 0 or n % 2 == 0) else -INF


def _exp(x):
    try:
        return math.exp(x)
    except OverflowError:
        return INF


def _sinh(x):
    try:
        return math.sinh(x)
    except OverflowError:
        return math.copysign(INF, x)


def _cosh(x):
    try:
        return math.cosh(x)
    except OverflowError:
        return INF


def fn(name: str, x: Iv) -> Iv:
    x = Iv.lift(x)
    ev = x.ev
    nan = x.nan
    if name == "exp":
        return Iv(_exp(x.lo), _exp(x.hi), nan, ev)
    if name == "expm1":
        return Iv(math.expm1(x.lo) if x.lo < 700 else INF, math.expm1(x.hi) if x.hi < 700 else INF, nan, ev)
    if name == "log":
        if x.lo < 0:
            nan = True
            if ev:
                ev.add(f"log of a possibly negative value {x!r}")
        lo = -INF if x.lo <= 0 else math.log(x.lo)
        hi = -INF if x.hi <= 0 else (INF if x.hi == INF else math.log(x.hi))
        if x.lo <= 0 and ev:
            ev.add(f"log(0) = -inf possible for {x!r}")
        return Iv(lo, hi, nan, ev)
    if name == "log1p":
        return fn("log", x + 1.0)
    if name == "sqrt":
        if x.lo < 0:
            nan = True
            if ev:
                ev.add(f"sqrt of a possibly negative value {x!r}")
        return Iv(math.sqrt(max(x.lo, 0.0)), INF if x.hi == INF else math.sqrt(max(x.hi, 0.0)), nan, ev)
    if name == "sinh":
        return Iv(_sinh(x.lo), _sinh(x.hi), nan, ev)
    if name == "cosh":
        vals = [_cosh(x.lo), _cosh(x.hi)]
        if x.lo < 0 < x.hi:
            vals.append(1.0)
        return Iv(min(vals), max(vals), nan, ev)
    if name == "tanh":
        return Iv(math.tanh(x.lo), math.tanh(x.hi), nan, ev)
    if name == "coth":
        return Iv(1, 1, False, ev) / fn("tanh", x)
    if name in ("abs", "fabs"):
        vals = [abs(x.lo), abs(x.hi)]
        if x.lo < 0 < x.hi:
            vals.append(0.0)
        return Iv(min(vals), max(vals), nan, ev)
    raise TypeError(f"no interval semantics for {name}")


class IntervalAlg:
    def __init__(self, ev: Events):
        self.ev = ev

    def const(self, v):
        return Iv(v, v, False, self.ev)

    def func(self, name, x):
        return fn(name, Iv.lift(x, self.ev))

    def floordiv(self, a, b):
        raise TypeError("integer division in a floating-point expression")

    def pi(self):
        return Iv(math.pi, math.pi, False, self.ev)
