"""E7 — index-variance ("frame") typing of linear-algebra expressions.

Every array axis gets a space:
    C            Cartesian
    L(x)-        basis index of lattice x        (row index of x.cell)
    L(x)+        component index of lattice x    (fractional coordinates, column index of inv(x.cell))
    A            atom index
    D            diagonal/identity (compatible with anything)
    ?            unknown (never reported)
A contraction (np.dot / @) needs the same lattice with opposite variance, or C with C.
`.T` swaps the axes, `inv` swaps them and flips the variance, +/- need equal types.
Seeds are the repository's own conventions: x.cell : (L(x)-, C); x.scaled_positions : (A, L(x)+);
x.positions : (A, C); supercell_matrix : (L(u)+, L(s)-); reduced q-vectors : L(p)- ; plus per-function
parameter tables.  Unknown operands give unknown results.
"""

from __future__ import annotations

import ast
from dataclasses import dataclass

from . import core

C = ("C",)
A = ("A",)
D = ("D",)
U = ("?",)


def L(label, var):
    return ("L", label, var)


def flip(ax):
    if ax[0] == "L":
        return ("L", ax[1], "+" if ax[2] == "-" else "-")
    return ax


def show(t):
    if t is None:
        return "?"
    if t == ():
        return "scalar"
    out = []
    for ax in t:
        if ax[0] == "L":
            out.append(f"L({ax[1]}){ax[2]}")
        else:
            out.append({"C": "Cart", "A": "atom", "D": "diag", "?": "?"}[ax[0]])
    return "(" + ", ".join(out) + ")"


def compat_contract(a, b):
    """Can axis a be contracted with axis b?  True / False / None (unknown)."""
    if a[0] in ("?",) or b[0] in ("?",):
        return None
    if a[0] == "D" or b[0] == "D":
        return True
    if a[0] == "C" and b[0] == "C":
        return True
    if a[0] == "L" and b[0] == "L":
        if a[1] == "*" or b[1] == "*":
            return None if a[2] == b[2] else True
        if a[1] != b[1]:
            return False
        return a[2] != b[2]
    if a[0] == "A" and b[0] == "A":
        return True
    return False


def same_axis(a, b):
    if a[0] in ("?", "D") or b[0] in ("?", "D"):
        return None if "?" in (a[0], b[0]) else True
    if a[0] == "L" and b[0] == "L" and "*" in (a[1], b[1]):
        return a[2] == b[2] or None
    return a == b


def lattice_label(text: str) -> str:
    t = text.lower()
    if "prim" in t or "pcell" in t:
        return "p"
    if "super" in t or "scell" in t:
        return "s"
    if "unit" in t or "ucell" in t:
        return "u"
    return "*"  # some lattice; compatible with any label


@dataclass
class Mismatch:
    node: ast.AST
    message: str


class Typer:
    def __init__(self, fn: ast.FunctionDef, seeds: dict | None = None, params: dict | None = None, call_sigs: dict | None = None, where="", methods: dict | None = None, depth=0):
        self.fn = fn
        self.methods = methods or {}
        self.depth = depth
        self.seeds0 = dict(seeds or {})
        self.returns: list = []
        self.env = dict(seeds or {})
        self.params = params or {}
        self.call_sigs = call_sigs or {}
        self.problems: list[Mismatch] = []
        self.where = where
        self.n_typed = 0
        for p, t in self.params.items():
            self.env[p] = t

    # ------------------------------------------------------------------
    def run(self):
        self.block(self.fn.body)
        return self.problems

    def block(self, stmts):
        for s in stmts:
            self.stmt(s)

    def stmt(self, s):
        if isinstance(s, ast.Assign):
            t = self.expr(s.value)
            # a call whose declared signature returns a tuple of typed arrays:  a, b = f(...)
            if isinstance(s.value, ast.Call) and len(s.targets) == 1 and isinstance(s.targets[0], ast.Tuple):
                nm = s.value.func.attr if isinstance(s.value.func, ast.Attribute) else (s.value.func.id if isinstance(s.value.func, ast.Name) else None)
                sig = self.call_sigs.get(core.src(s.value.func)) or self.call_sigs.get(nm)
                if sig and "ret_tuple" in sig and len(sig["ret_tuple"]) == len(s.targets[0].elts):
                    for tg, tt in zip(s.targets[0].elts, sig["ret_tuple"]):
                        self.bind(tg, tt, s.value)
                    return
            for tg in s.targets:
                self.bind(tg, t, s.value)
        elif isinstance(s, ast.AnnAssign) and s.value is not None:
            self.bind(s.target, self.expr(s.value), s.value)
        elif isinstance(s, ast.AugAssign):
            t = self.expr(s.value)
            cur = self.expr(s.target) if isinstance(s.target, (ast.Name, ast.Attribute)) else None
            if isinstance(s.op, (ast.Add, ast.Sub)) and cur is not None and t is not None and cur != () and t != ():
                self.check_same(cur, t, s, "in-place " + type(s.op).__name__)
        elif isinstance(s, ast.Expr):
            self.expr(s.value)
        elif isinstance(s, ast.Return) and s.value is not None:
            self.returns.append(self.expr(s.value))
        elif isinstance(s, ast.If):
            self.expr(s.test)
            before = dict(self.env)
            self.block(s.body)
            e1 = self.env
            self.env = dict(before)
            self.block(s.orelse)
            e2 = self.env
            def is_diag(t):
                return t is not None and len(t) > 0 and all(ax[0] == "D" for ax in t)

            self.env = {}
            for k in e1:
                if k in e2:
                    if e1[k] == e2[k]:
                        self.env[k] = e1[k]
                    elif is_diag(e1[k]):
                        self.env[k] = e2[k]  # a diagonal matrix is compatible with every orientation: keep the typed arm
                    elif is_diag(e2[k]):
                        self.env[k] = e1[k]
            for k in set(e1) ^ set(e2):
                v = e1.get(k, e2.get(k))
                if k not in before:
                    self.env[k] = v
        elif isinstance(s, (ast.For, ast.While)):
            if isinstance(s, ast.For):
                it = self.expr(s.iter)
                # iterating a typed array yields its rows
                if isinstance(s.target, ast.Name):
                    if it is not None and len(it) >= 1:
                        self.env[s.target.id] = tuple(it[1:])
                    else:
                        self.env.pop(s.target.id, None)
                elif isinstance(s.target, ast.Tuple) and isinstance(s.iter, ast.Call) and core.src(s.iter.func) in ("zip", "enumerate"):
                    args = s.iter.args
                    elts = s.target.elts
                    if core.src(s.iter.func) == "enumerate" and len(elts) == 2:
                        if isinstance(elts[0], ast.Name):
                            self.env[elts[0].id] = ()
                        elts, args = [elts[1]], args[:1]
                    lead = [(a, self.expr(a)) for a in args]
                    lead = [(a, t[0]) for a, t in lead if t is not None and len(t) >= 1 and t[0][0] == "L" and t[0][1] != "*"]
                    for (a1, x1), (a2, x2) in zip(lead, lead[1:]):
                        self.n_typed += 1
                        if x1[1] != x2[1]:
                            self.problems.append(Mismatch(s.iter, f"zip pairs the axis {show((x1,))} of '{core.norm(core.src(a1), 30)}' with the axis {show((x2,))} of '{core.norm(core.src(a2), 30)}'"))
                    for e, a in zip(elts, args):
                        ta = self.expr(a)
                        if isinstance(e, ast.Name):
                            if ta is not None and len(ta) >= 1:
                                self.env[e.id] = tuple(ta[1:])
                            else:
                                self.env.pop(e.id, None)
            self.block(s.body)
            self.block(s.orelse)
        elif isinstance(s, ast.With):
            self.block(s.body)
        elif isinstance(s, ast.Try):
            self.block(s.body)
            for h in s.handlers:
                self.block(h.body)
            self.block(s.orelse)
            self.block(s.finalbody)

    def bind(self, target, t, value_node):
        if isinstance(target, ast.Name):
            if t is None:
                self.env.pop(target.id, None)
            else:
                self.env[target.id] = t
        elif isinstance(target, ast.Attribute):
            key = core.src(target)
            if t is None:
                self.env.pop(key, None)
            else:
                self.env[key] = t
        elif isinstance(target, (ast.Tuple, ast.List)):
            # a, b, c = M.T  /  = M  -> rows
            if t is not None and len(t) >= 1:
                for e in target.elts:
                    if isinstance(e, ast.Name):
                        self.env[e.id] = tuple(t[1:])
            else:
                for e in target.elts:
                    if isinstance(e, ast.Name):
                        self.env.pop(e.id, None)

    # ------------------------------------------------------------------
    def check_same(self, a, b, node, what):
        if a is None or b is None or a == () or b == ():
            return
        if len(a) != len(b):
            # broadcasting of a vector against rows is fine when the last axes agree
            if len(a) > len(b):
                a = a[len(a) - len(b):]
            else:
                b = b[len(b) - len(a):]
        for x, y in zip(a, b):
            if same_axis(x, y) is False:
                self.problems.append(Mismatch(node, f"{what} combines {show(a)} with {show(b)}"))
                return

    def contract(self, ta, tb, node, what):
        if ta is None or tb is None:
            return None
        if ta == ():
            return tb
        if tb == ():
            return ta
        a_last = ta[-1]
        # numpy contracts the last axis of a with the second-to-last axis of b (np.dot and matmul alike; for a matrix
        # that is its first axis), a stack of matrices keeps its leading axes
        b_first = tb[0] if len(tb) == 1 else tb[-2]
        ok = compat_contract(a_last, b_first)
        if ok is False:
            self.problems.append(Mismatch(node, f"{what} contracts {show((a_last,))} of {show(ta)} with {show((b_first,))} of {show(tb)}"))
            return None
        self.n_typed += 1
        if len(tb) > 2:
            return tuple(ta[:-1]) + tuple(tb[:-2]) + tuple(tb[-1:])
        return tuple(ta[:-1]) + tuple(tb[1:])

    def expr(self, e):
        if e is None:
            return None
        if isinstance(e, ast.Constant):
            return () if isinstance(e.value, (int, float, complex)) else None
        if isinstance(e, ast.Name):
            return self.env.get(e.id)
        if isinstance(e, ast.Attribute):
            key = core.src(e)
            if key in self.env:
                return self.env[key]
            if key in ("np.pi", "numpy.pi", "math.pi", "np.e"):
                return ()
            if e.attr == "T":
                t = self.expr(e.value)
                return tuple(reversed(t)) if t is not None and len(t) == 2 else (t if t is not None and len(t) < 2 else None)
            base = core.src(e.value)
            if e.attr == "cell":
                return (L(lattice_label(base), "-"), C)
            if e.attr == "scaled_positions":
                return (A, L(lattice_label(base), "+"))
            if e.attr == "positions":
                return (A, C)
            if e.attr in ("supercell_matrix", "_supercell_matrix"):
                return (L("u", "+"), L("s", "-"))
            if e.attr in ("real", "imag"):
                return self.expr(e.value)
            return None
        if isinstance(e, ast.UnaryOp):
            return self.expr(e.operand)
        if isinstance(e, ast.BinOp):
            if isinstance(e.op, ast.MatMult):
                return self.contract(self.expr(e.left), self.expr(e.right), e, "'@'")
            a, b = self.expr(e.left), self.expr(e.right)
            if isinstance(e.op, (ast.Add, ast.Sub)):
                self.check_same(a, b, e, "'+'" if isinstance(e.op, ast.Add) else "'-'")
                if a is not None and a != ():
                    return a
                return b
            if isinstance(e.op, (ast.Mult, ast.Div, ast.Pow, ast.FloorDiv, ast.Mod)):
                if a == () or a is None:
                    return b if a == () else None
                if b == () or b is None:
                    return a if b == () else None
                # element-wise product / quotient of two typed arrays: numpy aligns the trailing axes; two labelled
                # axes that meet must be the same kind of axis (variance is not an issue for element-wise products)
                if isinstance(e.op, (ast.Mult, ast.Div)):
                    la, lb = list(a), list(b)
                    n_ = min(len(la), len(lb))
                    for x, y in zip(la[len(la) - n_:], lb[len(lb) - n_:]):
                        kx = x[1] if x[0] == "L" else x[0]
                        ky = y[1] if y[0] == "L" else y[0]
                        if x[0] in ("?", "D") or y[0] in ("?", "D") or "*" in (kx, ky):
                            continue
                        if kx != ky:
                            self.problems.append(Mismatch(e, f"element-wise product aligns the axis {show((x,))} of {show(a)} with the axis {show((y,))} of {show(b)}"))
                            return None
                    self.n_typed += 1
                    return a if len(a) >= len(b) else b
                return None
            return None
        if isinstance(e, ast.Subscript) and core.src(e) in self.env:
            return self.env[core.src(e)]  # a seeded selection such as self._comm_points[self._ii]
        if isinstance(e, ast.Subscript):
            t = self.expr(e.value)
            self.expr(e.slice) if not isinstance(e.slice, (ast.Slice, ast.Tuple)) else None
            if t is None:
                return None
            idx = e.slice.elts if isinstance(e.slice, ast.Tuple) else [e.slice]
            out = []
            k = 0
            for i in idx:
                if isinstance(i, ast.Constant) and i.value is None:
                    out.append(U)
                    continue
                if k >= len(t):
                    return None
                if isinstance(i, ast.Slice):
                    out.append(t[k])
                else:
                    it = self.expr(i)
                    if it is not None and it != ():
                        if len(it) == 1 and it[0][0] == "L" and t[k][0] == "L" and it[0][1] not in ("*", t[k][1]) and t[k][1] != "*":
                            self.problems.append(Mismatch(e, f"an index / mask over {show(it)} is applied to the axis {show((t[k],))} of {show(t)} ('{core.norm(core.src(e), 50)}')"))
                        out.append(t[k])  # fancy indexing keeps the axis
                k += 1
            out += list(t[k:])
            return tuple(out)
        if isinstance(e, ast.Call):
            return self.call(e)
        if isinstance(e, (ast.List, ast.Tuple)):
            ts = [self.expr(x) for x in e.elts]
            if ts and all(t is not None for t in ts) and all(t == ts[0] for t in ts) and ts[0] != ():
                return (U,) + tuple(ts[0])
            return None
        if isinstance(e, ast.IfExp):
            a, b = self.expr(e.body), self.expr(e.orelse)
            return a if a == b else None
        if isinstance(e, ast.ListComp):
            return None
        if isinstance(e, (ast.Compare, ast.BoolOp)):
            # a mask over the axes of its array operand; the operands are expressions whose contractions are checked
            ts = []
            for ch in ast.iter_child_nodes(e):
                if isinstance(ch, ast.expr):
                    ts.append(self.expr(ch))
            typed = [t for t in ts if t is not None and t != ()]
            return typed[0] if typed and all(t == typed[0] for t in typed) else None
        return None

    def call(self, c: ast.Call):
        f = core.src(c.func)
        args = c.args
        if f in ("np.dot", "numpy.dot") and len(args) == 2:
            return self.contract(self.expr(args[0]), self.expr(args[1]), c, "np.dot")
        if f in ("np.linalg.inv",) and len(args) == 1:
            t = self.expr(args[0])
            if t is not None and len(t) == 2:
                return (flip(t[1]), flip(t[0]))
            return None
        if f in ("np.array", "np.asarray", "np.ascontiguousarray", "np.rint", "np.round", "np.abs", "abs", "np.copy", "np.real", "np.floor", "np.ceil", "np.repeat", "np.tile", "np.exp", "np.cos", "np.sin", "np.conj", "np.conjugate") and args:
            return self.expr(args[0])
        if f in ("np.transpose",) and len(args) == 1:
            t = self.expr(args[0])
            return tuple(reversed(t)) if t is not None and len(t) == 2 else None
        if f in ("np.eye", "np.identity", "np.diag"):
            return (D, D)
        if f in ("np.cross",) and len(args) == 2:
            a, b = self.expr(args[0]), self.expr(args[1])
            for t in (a, b):
                if t is not None and len(t) == 1 and t[0][0] == "L":
                    self.problems.append(Mismatch(c, f"np.cross of a non-Cartesian vector {show(t)}"))
            return a
        if f in ("np.linalg.norm", "np.linalg.det", "np.sum", "np.prod", "len", "float", "int", "np.sqrt", "np.trace"):
            for a in args:
                self.expr(a)
            return ()
        if isinstance(c.func, ast.Attribute) and c.func.attr in ("copy", "astype", "round", "conj", "ravel") and not (isinstance(c.func.value, ast.Name) and c.func.value.id in ("np", "numpy")):
            t = self.expr(c.func.value)
            return t if c.func.attr != "ravel" else None
        if isinstance(c.func, ast.Attribute) and c.func.attr in ("transpose",) and not c.args:
            t = self.expr(c.func.value)
            return tuple(reversed(t)) if t is not None and len(t) == 2 else None
        if isinstance(c.func, ast.Attribute) and c.func.attr == "reshape":
            self.expr(c.func.value)
            return None
        if isinstance(c.func, ast.Attribute) and c.func.attr in ("get_cell",):
            return (L(lattice_label(core.src(c.func.value)), "-"), C)
        if isinstance(c.func, ast.Attribute) and c.func.attr in ("get_scaled_positions",):
            return (A, L(lattice_label(core.src(c.func.value)), "+"))
        if isinstance(c.func, ast.Attribute) and c.func.attr in ("get_positions",):
            return (A, C)
        # methods of the same class: type the callee with the argument types (one or two levels deep)
        if isinstance(c.func, ast.Attribute) and isinstance(c.func.value, ast.Name) and c.func.value.id == "self" and c.func.attr in self.methods and self.depth < 2:
            m = self.methods[c.func.attr]
            ps = [a.arg for a in m.args.args][1:]
            binding = {}
            for pn, a in zip(ps, args):
                t = self.expr(a)
                if t is not None:
                    binding[pn] = t
            for k in c.keywords:
                if k.arg in ps:
                    t = self.expr(k.value)
                    if t is not None:
                        binding[k.arg] = t
            sub = Typer(m, seeds={k: v for k, v in self.seeds0.items() if k.startswith("self.")}, params=binding, call_sigs=self.call_sigs, where=self.where, methods=self.methods, depth=self.depth + 1)
            sub.run()
            self.problems.extend(sub.problems)
            self.n_typed += sub.n_typed
            rets = [r for r in sub.returns if r is not None]
            if rets and all(r == rets[0] for r in rets):
                return rets[0]
            return None
        # declared signatures
        name = c.func.attr if isinstance(c.func, ast.Attribute) else (c.func.id if isinstance(c.func, ast.Name) else None)
        sig = self.call_sigs.get(f) or self.call_sigs.get(name)
        if isinstance(c.func, ast.Attribute) and not isinstance(c.func.value, ast.Name):
            self.expr(c.func.value)  # the receiver of a method call is an expression of its own: (a . b).sum()
        for a in args:
            self.expr(a)
        for k in c.keywords:
            self.expr(k.value)
        if sig and "same_as" in sig:
            k_ = sig["same_as"]
            return self.expr(args[k_]) if k_ < len(args) else None
        if sig:
            pos = sig.get("pos", [])
            for i, a in enumerate(args):
                if i < len(pos) and pos[i] is not None:
                    self.check_arg(self.expr(a), pos[i], a, f"{name}(arg {i})")
            for k in c.keywords:
                want = sig.get("kw", {}).get(k.arg)
                if want is not None:
                    self.check_arg(self.expr(k.value), want, k.value, f"{name}({k.arg}=…)")
            return sig.get("ret")
        return None

    def check_arg(self, got, want, node, what):
        if got is None or got == ():
            return
        if len(got) != len(want):
            return
        self.n_typed += 1
        for x, y in zip(got, want):
            if same_axis(x, y) is False:
                self.problems.append(Mismatch(node, f"{what} expects {show(want)} but receives {show(got)} ('{core.norm(core.src(node), 50)}')"))
                return
