"""Abstract values (dtype, C-contiguity, shape) of Python expressions by backward
def-use over the syntax trees of the package: constructor keywords, local
assignments, `self._x` writes in the class hierarchy, property getters, method
returns, function parameters -> callers (name-resolved, depth-limited).

An abstract value is a set of *sources*; a source is (dtype, contig, shape, why).
Unresolvable expressions yield the source ('?', None, None, reason): unknown is
never turned into a report.
"""

from __future__ import annotations

import ast
from dataclasses import dataclass

from . import core

DT = {
    "double": "double", "float": "double", "float64": "double", "d": "double", "f8": "double", "np.double": "double", "np.float64": "double",
    "intc": "intc", "i": "intc", "int32": "intc", "np.intc": "intc",
    "int64": "int64", "np.int64": "int64", "i8": "int64",
    "int_": "int_", "int": "int_", "long": "int_", "intp": "int_", "np.int_": "int_",
    "complex": "complex128", "complex128": "complex128", "c16": "complex128", "cdouble": "complex128",
    "bool": "bool", "byte": "int8", "uint": "uint64", "uintp": "uint64",
}


@dataclass(frozen=True)
class Src:
    dtype: str  # double|intc|int64|int_|complex128|bool|pyint|pyfloat|pybool|str|none|?
    contig: object  # True | False | None(unknown)
    shape: tuple | None
    why: str
    tags: frozenset = frozenset()  # configuration facts under which this source arises, e.g. ("store_dense_svecs", True)

    def short(self):
        return f"{self.dtype}{'' if self.contig is None else ('/C' if self.contig else '/nonC')}"


def unk(why):
    return {Src("?", None, None, why)}


class Index:
    """Package-wide indices: functions by name, classes, methods, class attrs."""

    def __init__(self):
        self.files = core.python_files("phonopy")
        self.funcs: dict[str, list] = {}  # name -> [(rel, FunctionDef, class or None)]
        self.classes: dict[str, tuple] = {}  # name -> (rel, ClassDef)
        self.calls_by_name: dict[str, list] = {}  # callee simple name -> [(rel, Call, enclosing fn, enclosing class)]
        for rel in self.files:
            tree = core.parse(rel)
            for n in ast.walk(tree):
                if isinstance(n, ast.ClassDef):
                    self.classes.setdefault(n.name, (rel, n))
                elif isinstance(n, ast.FunctionDef):
                    par = getattr(n, "_parent", None)
                    cls = par if isinstance(par, ast.ClassDef) else None
                    self.funcs.setdefault(n.name, []).append((rel, n, cls))
                elif isinstance(n, ast.Call):
                    nm = n.func.id if isinstance(n.func, ast.Name) else (n.func.attr if isinstance(n.func, ast.Attribute) else None)
                    if nm:
                        fn = core.enclosing_function(n)
                        cls = None
                        cur = fn
                        while cur is not None:
                            cur = getattr(cur, "_parent", None)
                            if isinstance(cur, ast.ClassDef):
                                cls = cur
                                break
                        self.calls_by_name.setdefault(nm, []).append((rel, n, fn, cls))

    def mro(self, cls: ast.ClassDef) -> list:
        out, todo = [], [cls]
        while todo:
            c = todo.pop(0)
            if c in out:
                continue
            out.append(c)
            for b in c.bases:
                bn = b.id if isinstance(b, ast.Name) else (b.attr if isinstance(b, ast.Attribute) else None)
                if bn in self.classes:
                    todo.append(self.classes[bn][1])
        return out

    def subclasses(self, cls: ast.ClassDef) -> list:
        out = [cls]
        for name, (rel, c) in self.classes.items():
            if c is not cls and cls in self.mro(c):
                out.append(c)
        return out

    def rel_of(self, node) -> str:
        cur = node
        while getattr(cur, "_parent", None) is not None:
            cur = cur._parent
        for rel in self.files:
            if core._ast_cache.get(rel) is cur:
                return rel
        return "?"


FLAGS = {"store_dense_svecs"}  # boolean configuration threaded unchanged from Primitive to every consumer


def _flag_of(test: ast.AST):
    neg = False
    if isinstance(test, ast.UnaryOp) and isinstance(test.op, ast.Not):
        neg, test = True, test.operand
    t = core.src(test).split(".")[-1].lstrip("_")
    if t in FLAGS and isinstance(test, (ast.Name, ast.Attribute)):
        return t, not neg
    return None


class Resolver:
    MAXD = 12

    def site_tags(self, node) -> frozenset:
        """Flag facts that hold at a statement: enclosing `if <flag>:` arms, and — for a
        method only ever called under such an arm inside its class — the caller's arm."""
        tags = set()
        cur, child = getattr(node, "_parent", None), node
        fn = None
        while cur is not None:
            if isinstance(cur, ast.If):
                f = _flag_of(cur.test)
                if f is not None:
                    if child in cur.body:
                        tags.add(f)
                    elif child in cur.orelse:
                        tags.add((f[0], not f[1]))
            if isinstance(cur, ast.FunctionDef) and fn is None:
                fn = cur
            child, cur = cur, getattr(cur, "_parent", None)
        if fn is not None and isinstance(getattr(fn, "_parent", None), ast.ClassDef) and fn.name.startswith("_") and not fn.name.startswith("__"):
            sites = [c for rel, c, cfn, ccls in self.idx.calls_by_name.get(fn.name, []) if ccls is fn._parent and isinstance(c.func, ast.Attribute) and core.src(c.func.value) == "self"]
            if sites and fn.name not in self._tagging:
                self._tagging.add(fn.name)
                try:
                    common = None
                    for c in sites:
                        t = self.site_tags(c)
                        common = t if common is None else (common & t)
                    tags |= set(common or ())
                finally:
                    self._tagging.discard(fn.name)
        return frozenset(tags)

    _tagging: set = set()

    @staticmethod
    def apply_tags(srcs: set, tags: frozenset) -> set:
        if not tags:
            return srcs
        out = set()
        for s in srcs:
            if any((f, not v) in s.tags for f, v in tags):
                continue  # arises only under the opposite configuration
            out.add(Src(s.dtype, s.contig, s.shape, s.why, s.tags | tags))
        return out

    def __init__(self, idx: Index | None = None):
        self.idx = idx or Index()
        self.memo = {}
        self.active = set()
        self.bind: dict[int, list] = {}  # id(fn) -> stack of {param: (node, fn, cls)} (1-level call context)

    # -- helpers ---------------------------------------------------------
    def kw(self, call: ast.Call, name: str):
        for k in call.keywords:
            if k.arg == name:
                return k.value
        return None

    def dtype_of_node(self, n, fn, cls):
        if n is None:
            return None
        if isinstance(n, ast.Constant) and isinstance(n.value, str):
            return DT.get(n.value, f"?{n.value}")
        t = core.src(n)
        if t in DT:
            return DT[t]
        if t in ("int", "np.int_"):
            return "int_"
        if t == "float":
            return "double"
        if t == "complex":
            return "complex128"
        if isinstance(n, ast.Name) and fn is not None:
            # local variable holding a dtype: "c%d" % (itemsize * 2), a literal, or <array>.dtype
            found = set()
            for a in ast.walk(fn):
                if isinstance(a, ast.Assign) and core.src(a.targets[0]) == n.id and a.value is not n:
                    r = self.dtype_of_node(a.value, fn, cls)
                    found.add(r)
            params = [p.arg for p in fn.args.args + fn.args.kwonlyargs]
            if n.id in params and not found:
                for node, pfn, pcls in self._param_nodes(n.id, fn, cls):
                    found.add(self.dtype_of_node(node, pfn, pcls))
            if len(found) == 1:
                return found.pop()
            if found:
                return "?" + "|".join(sorted(str(x) for x in found))
        if isinstance(n, ast.Attribute) and isinstance(n.value, ast.Name) and n.value.id == "self" and cls is not None:
            found = set()
            for k in self.idx.mro(cls):
                for m in k.body:
                    if isinstance(m, ast.FunctionDef):
                        for a in ast.walk(m):
                            if isinstance(a, ast.Assign) and core.src(a.targets[0]) == core.src(n):
                                found.add(self.dtype_of_node(a.value, m, k))
            if len(found) == 1:
                return found.pop()
        if isinstance(n, ast.Attribute) and n.attr == "dtype":
            inner = self.resolve(n.value, fn, cls, 1)
            ds = {s.dtype for s in inner}
            if len(ds) == 1:
                return ds.pop()
        if "c%d" in t and "itemsize * 2" in t:
            return "complex128"
        return f"?{t}"

    # -- main --------------------------------------------------------------
    def resolve(self, e: ast.AST, fn, cls, depth=0) -> set:
        b = self.bind.get(id(fn))
        key = (id(e), id(fn), id(b[-1]) if b else 0)
        if key in self.memo:
            return self.memo[key]
        if depth > self.MAXD or key in self.active:
            self.cuts += 1
            return unk("depth limit")
        self.active.add(key)
        c0 = self.cuts
        try:
            r = self._resolve(e, fn, cls, depth)
        finally:
            self.active.discard(key)
        if self.cuts == c0:
            self.memo[key] = r
        return r

    cuts = 0

    def _resolve(self, e, fn, cls, depth) -> set:
        if isinstance(e, ast.Constant):
            v = e.value
            if isinstance(v, bool):
                return {Src("pybool", None, (), "literal")}
            if isinstance(v, int):
                return {Src("pyint", None, (), "literal")}
            if isinstance(v, float):
                return {Src("pyfloat", None, (), "literal")}
            if isinstance(v, str):
                return {Src("str", None, (), "literal")}
            if v is None:
                return {Src("none", None, None, "None")}
        if isinstance(e, ast.BinOp):
            a, b = self.resolve(e.left, fn, cls, depth + 1), self.resolve(e.right, fn, cls, depth + 1)
            da, db = {s.dtype for s in a}, {s.dtype for s in b}
            scal = {"pyint", "pyfloat", "pybool"}
            if da <= scal and db <= scal:
                if isinstance(e.op, ast.Div) or "pyfloat" in da | db:
                    return {Src("pyfloat", None, (), "arithmetic")}
                return {Src("pyint", None, (), "arithmetic")}
            # a float literal (or float-valued scalar) combined with something of unknown type is float-valued
            if (da <= {"pyfloat"} and all(x == "?" for x in db)) or (db <= {"pyfloat"} and all(x == "?" for x in da)):
                return {Src("pyfloat", None, (), "arithmetic with a float scalar")}
            # array (op) scalar keeps array dtype for double; result is a fresh C-contiguous array
            arr = a if not da <= scal else b
            known = {"double", "complex128", "int64", "intc", "int_", "int64-or-double"}
            if arr is a and not (da & known) and (db & known):
                arr = b  # the side with an established array dtype is the array
            other = db if arr is a else da
            # sources of the other operand that are scalars the user of the public API passes in (type unknown)
            other_api = [o for o in (b if arr is a else a) if o.dtype == "?" and "public API input" in o.why]
            out = set()
            for s in arr:
                if s.dtype in ("int64", "intc", "int_") and other_api and not isinstance(e.op, ast.Div):
                    # integer array (op) a scalar of the caller: integer when the caller passes an integer, double
                    # when a float -- the dtype follows the caller's scalar
                    out.add(Src("int64-or-double", s.contig, s.shape, f"integer array combined with a caller-supplied scalar ({other_api[0].why[:60]}): the dtype follows the type of that scalar"))
                if s.dtype == "?" and other <= {"pyint", "pybool"} and isinstance(e.op, ast.Mult):
                    # unknown * 1: the `flag * 1` idiom -> python int / numpy bool->int
                    out.add(Src("pyint?", None, (), f"({core.src(e)})"))
                elif s.dtype in ("double", "complex128") or (s.dtype in ("int64", "intc", "int_") and other <= {"pyint", "pybool"} and not isinstance(e.op, ast.Div)):
                    # element-wise results are allocated in the memory order of the operand (order 'K')
                    out.add(Src(s.dtype if not ("pyfloat" in other and s.dtype != "complex128") else "double", s.contig, s.shape, f"arith({s.why})"))
                elif s.dtype in ("int64", "intc", "int_") and (isinstance(e.op, ast.Div) or "pyfloat" in other):
                    out.add(Src("double", s.contig, s.shape, f"arith({s.why})"))
                elif s.dtype in ("int64", "intc", "int_") and other_api:
                    pass  # handled below, per source of the scalar
                elif s.dtype == "int64-or-double":
                    out.add(Src("double" if "pyfloat" in other else "int64-or-double", s.contig, s.shape, s.why))
                else:
                    out.add(Src("?", None, None, f"arith on {s.dtype}"))
            return out
        if isinstance(e, ast.UnaryOp):
            return self.resolve(e.operand, fn, cls, depth + 1)
        if isinstance(e, ast.Call):
            return self._call(e, fn, cls, depth)
        if isinstance(e, ast.Name):
            return self._name(e.id, e, fn, cls, depth)
        if isinstance(e, ast.Attribute):
            return self._attr(e, fn, cls, depth)
        if isinstance(e, ast.Subscript):
            base = self.resolve(e.value, fn, cls, depth + 1)
            out = set()
            for s in base:
                if s.dtype.startswith("tuple:"):
                    out.add(Src("?", None, None, "tuple index"))
                else:
                    # slicing/indexing an array: dtype kept, contiguity not guaranteed unless leading-axis integer index
                    lead_only = not isinstance(e.slice, (ast.Tuple, ast.Slice))
                    contig = s.contig if lead_only else None
                    if isinstance(e.slice, ast.Tuple) and len(e.slice.elts) >= 2 and isinstance(e.slice.elts[0], ast.Slice) and e.slice.elts[0].lower is None and e.slice.elts[0].upper is None and any(not isinstance(x, ast.Slice) and not (isinstance(x, ast.Constant) and x.value is None) for x in e.slice.elts[1:]):
                        # x[:, k] is a strided view; x[:, index_array] is a copy laid out with the indexed axis first:
                        # neither is C-contiguous (for more than one row)
                        contig = False
                    out.add(Src(s.dtype, contig, None, f"{s.why}[…]"))
            return out
        if isinstance(e, ast.IfExp):
            return self.resolve(e.body, fn, cls, depth + 1) | self.resolve(e.orelse, fn, cls, depth + 1)
        if isinstance(e, (ast.List, ast.Tuple)):
            return {Src("pylist", None, None, "literal sequence")}
        if isinstance(e, ast.Compare) or isinstance(e, ast.BoolOp):
            return {Src("pybool", None, (), "comparison")}
        return unk(f"expression {type(e).__name__}")

    # -- calls ---------------------------------------------------------------
    def _call(self, c: ast.Call, fn, cls, depth) -> set:
        f = core.src(c.func)
        base = f.split(".")[-1]
        if f in ("np.zeros", "np.ones", "np.empty", "np.full", "numpy.zeros"):
            dt = self.dtype_of_node(self.kw(c, "dtype"), fn, cls) or "double"
            order = self.kw(c, "order")
            contig = not (isinstance(order, ast.Constant) and order.value == "F")
            shp = None
            if c.args:
                a0 = c.args[0]
                if isinstance(a0, ast.Tuple):
                    shp = tuple(core.src(x) for x in a0.elts)
                elif isinstance(a0, ast.Constant) or (isinstance(a0, ast.Call) and core.src(a0.func) == "len"):
                    shp = (core.src(a0),)
                else:
                    shp = None  # a name or expression holding the shape: rank not visible here
            return {Src(dt, contig, shp, f"{f}(dtype={dt})")}
        if f in ("np.atleast_1d", "np.atleast_2d", "np.squeeze") and c.args:
            # the same buffer with length-1 axes added / removed: dtype and memory order of the argument
            return {Src(s.dtype, s.contig, None, f"{f}({s.why})") for s in self.resolve(c.args[0], fn, cls, depth + 1)}
        if f in ("np.zeros_like", "np.empty_like", "np.ones_like"):
            dtn = self.kw(c, "dtype")
            inner = self.resolve(c.args[0], fn, cls, depth + 1)
            if dtn is not None:
                dt = self.dtype_of_node(dtn, fn, cls)
                return {Src(dt, True, None, f"{f}(dtype={dt})")}
            return {Src(s.dtype, s.contig, s.shape, f"{f}({s.why})") for s in inner}
        if f in ("np.array", "np.asarray", "np.ascontiguousarray", "np.require", "numpy.array"):
            dtn = self.kw(c, "dtype")
            order = self.kw(c, "order")
            inner = self.resolve(c.args[0], fn, cls, depth + 1) if c.args else unk("no arg")
            out = set()
            for s in inner:
                dt = self.dtype_of_node(dtn, fn, cls) if dtn is not None else (s.dtype if s.dtype not in ("pylist",) else "?")
                if f == "np.ascontiguousarray" or (isinstance(order, ast.Constant) and order.value == "C"):
                    contig = True
                elif s.dtype in ("pylist", "pyint", "pyfloat") or s.contig is True:
                    contig = True
                elif isinstance(c.args[0], (ast.List, ast.Tuple, ast.ListComp)):
                    contig = True
                elif s.contig is False and not (isinstance(order, ast.Constant) and order.value in ("C", "F", "A")):
                    contig = False  # order='K' keeps the layout of the source: a transposed / fancy-indexed source stays non-C
                else:
                    contig = None  # order='K' keeps the layout of the source
                    a0 = c.args[0]
                    root = a0.value if isinstance(a0, ast.Subscript) else a0
                    params = {p_.arg for p_ in fn.args.args + fn.args.kwonlyargs} if fn is not None else set()
                    if dtn is not None and isinstance(root, ast.Name) and root.id in params and f in ("np.array", "np.asarray", "numpy.array"):
                        # a conversion site for an array the caller hands in: it fixes the dtype but, without
                        # order='C', keeps whatever memory order the caller's array has
                        out.add(Src(dt, None, s.shape, f"{f}({core.src(a0)}, dtype={dt}) keeps the caller's memory order (no order='C')"))
                        continue
                out.add(Src(dt, contig, s.shape, f"{f}(…, dtype={dt})"))
            return out
        if f in ("np.arange", "np.linspace"):
            dtn = self.kw(c, "dtype")
            if dtn is None:
                if f == "np.linspace":
                    return {Src("double", True, None, "np.linspace")}
                kinds = set()
                for a_ in c.args:
                    kinds |= {s_.dtype for s_ in self.resolve(a_, fn, cls, depth + 1)}
                if "pyfloat" in kinds:
                    return {Src("double", True, None, "np.arange with a float argument")}
                if kinds and kinds <= {"pyint", "pybool"}:
                    return {Src("int64", True, None, "np.arange of integers")}
                return unk("np.arange without dtype (depends on the argument types)")
            dt = self.dtype_of_node(dtn, fn, cls)
            shp = (core.src(c.args[0]),) if f == "np.arange" and len(c.args) == 1 else None
            return {Src(dt, True, shp, f"np.arange(dtype={dt})")}
        if f in ("np.hstack", "np.vstack", "np.concatenate", "np.dot", "np.transpose", "np.linalg.inv", "np.rint", "np.unique", "np.prod", "np.sum", "np.sqrt", "np.abs", "np.where", "np.linalg.norm", "np.multiply", "np.extract", "np.invert"):
            if f in ("np.linalg.inv", "np.linalg.norm", "np.sqrt"):
                return {Src("double", True if f != "np.transpose" else None, None, f)}
            return unk(f"result of {f}")
        if f == "abs" and len(c.args) == 1:
            inner = self.resolve(c.args[0], fn, cls, depth + 1)
            return {Src(s.dtype, True if s.contig else None, s.shape, f"abs({s.why})") for s in inner}
        if f in ("float",):
            return {Src("pyfloat", None, (), "float()")}
        if f in ("int", "len"):
            return {Src("pyint", None, (), f"{f}()")}
        if f == "bool":
            return {Src("pybool", None, (), "bool()")}
        if isinstance(c.func, ast.Attribute):
            recv = c.func.value
            m = c.func.attr
            if m == "view":
                dt = self.dtype_of_node(self.kw(c, "dtype") or (c.args[0] if c.args else None), fn, cls)
                inner = self.resolve(recv, fn, cls, depth + 1)
                return {Src(f"{dt}<-{s.dtype}", s.contig, s.shape, f"{s.why}.view({dt})") for s in inner}
            if m == "astype":
                dt = self.dtype_of_node(c.args[0] if c.args else self.kw(c, "dtype"), fn, cls)
                inner = self.resolve(recv, fn, cls, depth + 1)
                return {Src(dt, s.contig if s.contig else None, s.shape, f"astype({dt})") for s in inner}
            if m in ("copy",):
                inner = self.resolve(recv, fn, cls, depth + 1)
                ordk = self.kw(c, "order")
                return {Src(s.dtype, True if s.contig is not False else None, s.shape, f"{s.why}.copy()") for s in inner}
            if m in ("reshape", "ravel", "flatten"):
                inner = self.resolve(recv, fn, cls, depth + 1)
                return {Src(s.dtype, s.contig, None, f"{s.why}.{m}()") for s in inner}
            if m in ("sum", "min", "max", "tolist", "transpose", "conj"):
                return unk(f".{m}()")
            # method of a repo class
            return self._method_return(recv, m, c, fn, cls, depth)
        if isinstance(c.func, ast.Name):
            nm = c.func.id
            if nm in self.idx.funcs:
                out = set()
                for rel, fdef, fcls in self.idx.funcs[nm]:
                    if fcls is None:
                        out |= self._returns(fdef, None, depth, self._bindings_of(c, fdef, False, fn, cls))
                return out or unk(f"return of {nm}")
            if nm in self.idx.classes:
                return {Src(f"obj:{nm}", None, None, f"{nm}(…)")}
        return unk(f"call {core.norm(f, 50)}")

    def _bindings_of(self, call: ast.Call, fdef: ast.FunctionDef, is_method: bool, fn, cls):
        params = [p.arg for p in fdef.args.args]
        if is_method and params and params[0] in ("self", "cls"):
            params = params[1:]
        b = {}
        for k, a in enumerate(call.args):
            if isinstance(a, ast.Starred):
                break
            if k < len(params):
                b[params[k]] = (a, fn, cls)
        for kw_ in call.keywords:
            if kw_.arg is not None:
                b[kw_.arg] = (kw_.value, fn, cls)
        return b

    def _returns(self, fdef: ast.FunctionDef, fcls, depth, bindings=None) -> set:
        if bindings is not None:
            self.bind.setdefault(id(fdef), []).append(bindings)
        try:
            return self._returns0(fdef, fcls, depth)
        finally:
            if bindings is not None:
                self.bind[id(fdef)].pop()

    def _returns0(self, fdef: ast.FunctionDef, fcls, depth) -> set:
        out = set()
        for r in ast.walk(fdef):
            if isinstance(r, ast.Return) and r.value is not None and core.enclosing_function(r) is fdef:
                if isinstance(r.value, ast.Tuple):
                    out.add(Src("tuple:" + "|".join(str(i) for i in range(len(r.value.elts))), None, None, f"tuple@{id(r.value)}"))
                    b = self.bind.get(id(fdef))
                    self._tuples[id(r.value)] = (r.value, fdef, fcls, dict(b[-1]) if b else None)
                else:
                    out |= self.resolve(r.value, fdef, fcls, depth + 1)
        return out or unk(f"{fdef.name} returns nothing resolvable")

    _tuples: dict = {}

    def _method_return(self, recv, m, c, fn, cls, depth) -> set:
        classes = self._classes_of(recv, fn, cls, depth)
        out = set()
        for k in classes:
            for base in self.idx.mro(k):
                hit = [x for x in base.body if isinstance(x, ast.FunctionDef) and x.name == m]
                if hit:
                    out |= self._returns(hit[0], k, depth, self._bindings_of(c, hit[0], True, fn, cls))
                    break
        if out:
            return out
        # name-based fallback when the receiver class is unknown and the method name is unique
        cands = [(rel, f, k) for rel, f, k in self.idx.funcs.get(m, []) if k is not None]
        if len(cands) == 1:
            return self._returns(cands[0][1], cands[0][2], depth)
        return unk(f"method {m} of unresolved receiver {core.norm(core.src(recv), 40)}")

    # -- names and attributes ----------------------------------------------
    def _use_guard(self, nm, node):
        cur, child = getattr(node, "_parent", None), node
        while cur is not None and not isinstance(cur, ast.FunctionDef):
            if isinstance(cur, ast.If) and child in cur.body:
                conj = cur.test.values if isinstance(cur.test, ast.BoolOp) and isinstance(cur.test.op, ast.And) else [cur.test]
                for cj in conj:
                    t = core.src(cj)
                    if t in (f"isinstance({nm}, float)", f"isinstance({nm}, (float, int))", f"isinstance({nm}, (int, float))"):
                        return {Src("pyfloat", None, (), f"guarded by '{t}'")}
                    if t == f"isinstance({nm}, int)":
                        return {Src("pyint", None, (), f"guarded by '{t}'")}
            child, cur = cur, getattr(cur, "_parent", None)
        return None

    def _name(self, nm, node, fn, cls, depth) -> set:
        if fn is None:
            return unk(f"module-level name {nm}")
        g = self._use_guard(nm, node)
        if g is not None:
            return g
        defs, need_param = self._reaching(nm, node, fn)
        out = set()
        found = bool(defs)
        for kind, a in defs:
            if kind == "assign":
                for t in a.targets:
                    r = self._bind(t, a.value, nm, fn, cls, depth)
                    if r is not None:
                        out |= r
            elif kind == "annassign":
                r = self._bind(a.target, a.value, nm, fn, cls, depth)
                if r is not None:
                    out |= r
            elif kind == "for":
                tgt, it = a.target, a.iter
                if isinstance(tgt, ast.Name):
                    inner = self.resolve(it, fn, cls, depth + 1)
                    out |= {Src(s.dtype, s.contig, None, f"row of {s.why}", s.tags) if s.dtype not in ("pylist", "?") else Src("?", None, None, f"element of {core.norm(core.src(it), 40)}") for s in inner}
                else:
                    out |= unk(f"loop target {nm} in {core.norm(core.src(it), 40)}")
            elif kind == "with":
                out |= unk("with-target")
        params = [p.arg for p in fn.args.args + fn.args.kwonlyargs]
        if need_param and nm in params:
            out |= self._param(nm, fn, cls, depth)
            found = True
        if not found:
            # closure variable of an enclosing function
            outer = core.enclosing_function(fn)
            if outer is not None:
                return self._name(nm, fn, outer, cls, depth + 1)
            return unk(f"name {nm} has no definition in {fn.name}")
        if len(out) > 1:
            out = {s for s in out if s.dtype != "none"} or out
        return out

    @staticmethod
    def _assigns_in(stmt, nm):
        """All binding statements of nm anywhere inside stmt (not entering nested defs)."""
        out = []
        stack = [stmt]
        while stack:
            x = stack.pop()
            if isinstance(x, (ast.FunctionDef, ast.ClassDef, ast.Lambda)) and x is not stmt:
                continue
            if isinstance(x, ast.Assign) and any(nm in [n.id for n in ast.walk(t) if isinstance(n, ast.Name) and isinstance(n.ctx, ast.Store)] for t in x.targets):
                out.append(("assign", x))
            elif isinstance(x, ast.AnnAssign) and x.value is not None and isinstance(x.target, ast.Name) and x.target.id == nm:
                out.append(("annassign", x))
            elif isinstance(x, (ast.For, ast.comprehension)) and nm in [n.id for n in ast.walk(x.target) if isinstance(n, ast.Name)]:
                out.append(("for", x))
            elif isinstance(x, ast.With) and any(it.optional_vars is not None and core.src(it.optional_vars) == nm for it in x.items):
                out.append(("with", x))
            stack.extend(ast.iter_child_nodes(x))
        return out

    def _kills(self, stmt, nm) -> bool:
        """Does stmt definitely (re)bind nm on every path through it?"""
        if isinstance(stmt, ast.Assign):
            return any(isinstance(t, ast.Name) and t.id == nm or (isinstance(t, (ast.Tuple, ast.List)) and any(isinstance(e, ast.Name) and e.id == nm for e in t.elts)) for t in stmt.targets)
        if isinstance(stmt, ast.AnnAssign):
            return stmt.value is not None and isinstance(stmt.target, ast.Name) and stmt.target.id == nm
        if isinstance(stmt, ast.If):
            return bool(stmt.orelse) and any(self._kills(x, nm) for x in stmt.body) and any(self._kills(x, nm) for x in stmt.orelse)
        if isinstance(stmt, ast.With):
            return any(self._kills(x, nm) for x in stmt.body)
        return False

    def _reaching(self, nm, use, fn):
        """Reaching definitions of nm at `use` by a backward walk over enclosing statement
        lists (straight-line kill, may-defs from compound statements, loop back edges)."""
        defs = []
        cur = use
        # climb to the statement that contains the use
        while getattr(cur, "_parent", None) is not None and not isinstance(cur, ast.stmt):
            cur = cur._parent
        stmt = cur
        killed = False
        while stmt is not None and stmt is not fn:
            parent = getattr(stmt, "_parent", None)
            if parent is None:
                break
            for field in ("body", "orelse", "finalbody", "handlers"):
                lst = getattr(parent, field, None)
                if isinstance(lst, list) and stmt in lst:
                    k = lst.index(stmt)
                    for prev in reversed(lst[:k]):
                        ds = self._assigns_in(prev, nm)
                        defs.extend(ds)
                        if self._kills(prev, nm):
                            killed = True
                            break
                    break
            if killed:
                break
            # the use's own statement may be `x = f(x)`: the target binding does not reach its own RHS
            if isinstance(parent, (ast.For, ast.While)):
                # loop back edge: definitions anywhere in the loop body may reach
                for b in parent.body:
                    for d in self._assigns_in(b, nm):
                        if d not in defs and not (d[1] is stmt and isinstance(stmt, ast.Assign)):
                            defs.append(d)
                if isinstance(parent, ast.For) and nm in [n.id for n in ast.walk(parent.target) if isinstance(n, ast.Name)]:
                    defs.append(("for", parent))
                    killed = True
                    break
            if isinstance(parent, ast.With) and any(it.optional_vars is not None and core.src(it.optional_vars) == nm for it in parent.items):
                defs.append(("with", parent))
                killed = True
                break
            if isinstance(parent, (ast.ListComp, ast.GeneratorExp, ast.SetComp, ast.DictComp)):
                pass
            stmt = parent if isinstance(parent, ast.stmt) or parent is fn else parent
            if parent is fn:
                break
        # comprehension variables
        c = use
        while c is not None and c is not fn:
            c = getattr(c, "_parent", None)
            if isinstance(c, (ast.ListComp, ast.GeneratorExp, ast.SetComp, ast.DictComp)):
                for g in c.generators:
                    if nm in [n.id for n in ast.walk(g.target) if isinstance(n, ast.Name)]:
                        return [("for", g)], False
        uniq = []
        for d in defs:
            if d not in uniq:
                uniq.append(d)
        return uniq, not killed

    def _guard_facts(self, node, value):
        """`if isinstance(x, np.ndarray) and x.dtype == np.dtype("double") and x.flags.c_contiguous: y = x`"""
        if not isinstance(value, ast.Name):
            return None
        cur, child = getattr(node, "_parent", None), node
        while cur is not None and not isinstance(cur, ast.FunctionDef):
            if isinstance(cur, ast.If) and child in cur.body:
                conj = cur.test.values if isinstance(cur.test, ast.BoolOp) and isinstance(cur.test.op, ast.And) else [cur.test]
                dt, contig = None, None
                for cj in conj:
                    t = core.src(cj)
                    v = value.id
                    for name, key in (("double", "double"), ("int64", "int64"), ("intc", "intc"), ("int_", "int_")):
                        if t in (f"{v}.dtype == np.dtype('{name}')", f"{v}.dtype == '{name}'", f"{v}.dtype == np.{name}"):
                            dt = key
                    if t.replace('"', "'") in (f"{v}.flags.c_contiguous", f"{v}.flags['C_CONTIGUOUS']", f"{v}.flags.carray", f"{v}.flags.contiguous", f"{v}.flags['C']"):
                        contig = True
                if dt is not None:
                    # a zero-copy pass-through of a caller's array: the guard is all that is known about it; a guard
                    # that establishes the dtype but not the C layout lets a Fortran-ordered array through
                    return {Src(dt, True if contig else False, None, f"guarded by '{core.norm(core.src(cur.test), 70)}'" + ("" if contig else " (the guard does not establish C-contiguity)"))}
            child, cur = cur, getattr(cur, "_parent", None)
        return None

    def _bind(self, target, value, nm, fn, cls, depth):
        if isinstance(target, ast.Name) and target.id == nm:
            g = self._guard_facts(target, value)
            if g is not None:
                return g
            return self.apply_tags(self.resolve(value, fn, cls, depth + 1), self.site_tags(target))
        if isinstance(target, (ast.Tuple, ast.List)):
            for k, t in enumerate(target.elts):
                if isinstance(t, ast.Name) and t.id == nm:
                    return self.apply_tags(self._bind_tuple(target, value, k, fn, cls, depth), self.site_tags(target))
        return None

    def _param_nodes(self, nm, fn, cls):
        """Argument nodes bound to parameter nm: the current call context if any, else every caller."""
        b = self.bind.get(id(fn))
        if b and nm in b[-1]:
            return [b[-1][nm]]
        params = [p.arg for p in fn.args.args]
        is_method = cls is not None and params and params[0] in ("self", "cls")
        pos = params[1:] if is_method else params
        out = []
        for rel, call, cfn, ccls in self.idx.calls_by_name.get(fn.name, []):
            if not self._may_target(call, cfn, ccls, fn, cls, 0):
                continue
            val = None
            if nm in pos:
                k = pos.index(nm)
                if k < len(call.args) and not any(isinstance(a, ast.Starred) for a in call.args[: k + 1]):
                    val = call.args[k]
            for kw_ in call.keywords:
                if kw_.arg == nm:
                    val = kw_.value
            if val is not None:
                out.append((val, cfn, ccls))
        return out

    def _may_target(self, call, cfn, ccls, fn, cls, depth) -> bool:
        """Can this call (found by callee *name*) reach function fn of class cls?"""
        f = call.func
        if cls is None:
            # module-level function: a bare-name call, or module.attr call
            if isinstance(f, ast.Name):
                return True
            if isinstance(f, ast.Attribute):
                return not (isinstance(f.value, ast.Name) and f.value.id == "self")
            return False
        if fn.name == "__init__":
            return isinstance(f, ast.Name) or (isinstance(f, ast.Attribute) and core.src(f.value) != "super()") or True
        if isinstance(f, ast.Name):
            return False  # a method is not called by bare name
        if isinstance(f, ast.Attribute):
            recv = f.value
            if isinstance(recv, ast.Name) and recv.id == "self":
                return ccls is not None and (ccls in self.idx.mro(cls) or cls in self.idx.mro(ccls))
            if core.src(recv) == "super()":
                return ccls is not None and cls in self.idx.mro(ccls)
            ks = self._classes_of(recv, cfn, ccls, depth + 2) if depth < self.MAXD - 3 else []
            if ks:
                return any(cls in self.idx.mro(k) or k in self.idx.mro(cls) for k in ks)
            return True
        return True

    def _param(self, nm, fn, cls, depth) -> set:
        """Abstract value of a parameter: merge over all call sites (by name)."""
        if depth > self.MAXD - 1:
            return unk(f"parameter {nm} of {fn.name}: depth limit")
        b = self.bind.get(id(fn))
        if b and nm in b[-1]:
            node, bfn, bcls = b[-1][nm]
            return self.resolve(node, bfn, bcls, depth + 1)
        args = fn.args
        params = [p.arg for p in args.args]
        is_method = cls is not None and params and params[0] in ("self", "cls")
        callee_names = [fn.name]
        if fn.name == "__init__" and cls is not None:
            callee_names = [k.name for k in self.idx.subclasses(cls)]
        out = set()
        n_calls = 0
        for cn in callee_names:
            for rel, call, cfn, ccls in self.idx.calls_by_name.get(cn, []):
                if not self._may_target(call, cfn, ccls, fn, cls, depth):
                    continue
                pos = params[1:] if is_method else params
                val = None
                if nm in pos:
                    k = pos.index(nm)
                    if k < len(call.args) and not any(isinstance(a, ast.Starred) for a in call.args[: k + 1]):
                        val = call.args[k]
                for kw_ in call.keywords:
                    if kw_.arg == nm:
                        val = kw_.value
                if isinstance(call.func, ast.Attribute) and core.src(call.func.value) == "super()" and fn.name == "__init__":
                    pass
                if val is None:
                    continue
                n_calls += 1
                out |= self.resolve(val, cfn, ccls, depth + 1)
        # default value
        defaults = dict(zip(reversed(params), reversed(args.defaults)))
        if nm in defaults and not (isinstance(defaults[nm], ast.Constant) and defaults[nm].value is None):
            out |= self.resolve(defaults[nm], None, None, depth + 1)
        if not out:
            return unk(f"parameter {nm} of {fn.name}: no resolvable caller (public API input)")
        return out

    def _attr(self, e: ast.Attribute, fn, cls, depth) -> set:
        t = core.src(e)
        if isinstance(e.value, ast.Name) and e.value.id == "self" and cls is not None:
            return self._self_attr(e.attr, cls, depth)
        if e.attr == "T":
            inner = self.resolve(e.value, fn, cls, depth + 1)
            return {Src(s.dtype, False if s.contig else None, None, f"{s.why}.T") for s in inner}
        if e.attr in ("real", "imag"):
            return unk(f".{e.attr}")
        classes = self._classes_of(e.value, fn, cls, depth)
        out = set()
        for k in classes:
            out |= self._self_attr(e.attr, k, depth)
        if out:
            return out
        # name-based fallback: a property/attribute name defined by exactly one class
        owners = []
        for name, (rel, c) in self.idx.classes.items():
            for x in c.body:
                if isinstance(x, ast.FunctionDef) and x.name == e.attr and any(core.src(d) == "property" for d in x.decorator_list):
                    owners.append(c)
        if len(owners) >= 1 and len({id(o) for o in owners}) <= 3:
            for o in owners:
                out |= self._self_attr(e.attr, o, depth)
            return out
        return unk(f"attribute {core.norm(t, 50)} of unresolved receiver")

    def _self_attr(self, attr, cls, depth) -> set:
        """Value of self.<attr> / obj.<attr> for obj of class cls: property getter or
        union of all `self.<attr> = …` in the MRO (and in subclasses, which may set it)."""
        key = ("attr", attr, id(cls))
        if key in self.memo:
            return self.memo[key]
        if key in self.active or depth > self.MAXD:
            self.cuts += 1
            return unk("depth limit")
        self.active.add(key)
        c0 = self.cuts
        try:
            out = set()
            for k in self.idx.mro(cls):
                props = [x for x in k.body if isinstance(x, ast.FunctionDef) and x.name == attr and any(core.src(d) == "property" for d in x.decorator_list)]
                if props:
                    out |= self._returns(props[0], cls, depth + 1)
                    break
                consts = [x for x in k.body if isinstance(x, ast.Assign) and core.src(x.targets[0]) == attr]
                if consts:
                    out |= self.resolve(consts[0].value, None, k, depth + 1)
                    break
            if not out:
                for k in self.idx.mro(cls) + [c for c in self.idx.subclasses(cls) if c is not cls]:
                    for m in k.body:
                        if not isinstance(m, ast.FunctionDef):
                            continue
                        for a in ast.walk(m):
                            if isinstance(a, ast.Assign):
                                for tg in a.targets:
                                    if core.src(tg) == f"self.{attr}":
                                        out |= self.apply_tags(self.resolve(a.value, m, k, depth + 1), self.site_tags(a))
                                    elif isinstance(tg, ast.Tuple):
                                        for i, el in enumerate(tg.elts):
                                            if core.src(el) == f"self.{attr}":
                                                r = self._bind_tuple(tg, a.value, i, m, k, depth)
                                                out |= self.apply_tags(r, self.site_tags(a))
                            elif isinstance(a, ast.AnnAssign) and a.value is not None and core.src(a.target) == f"self.{attr}":
                                out |= self.resolve(a.value, m, k, depth + 1)
            if len(out) > 1:
                out = {s for s in out if s.dtype != "none"} or out
            res = out or unk(f"self.{attr} never assigned in {cls.name}")
        finally:
            self.active.discard(key)
        if self.cuts == c0:
            self.memo[key] = res
        return res

    def _bind_tuple(self, target, value, k, fn, cls, depth):
        if isinstance(value, (ast.Tuple, ast.List)) and len(value.elts) == len(target.elts):
            return self.resolve(value.elts[k], fn, cls, depth + 1)
        vs = self.resolve(value, fn, cls, depth + 1)
        out = set()
        for s in vs:
            if s.dtype.startswith("tuple:") and s.why.startswith("tuple@"):
                tv, tfn, tcls, tb = self._tuples[int(s.why[6:])]
                if k < len(tv.elts):
                    if tb is not None:
                        self.bind.setdefault(id(tfn), []).append(tb)
                    try:
                        out |= self.resolve(tv.elts[k], tfn, tcls, depth + 1)
                    finally:
                        if tb is not None:
                            self.bind[id(tfn)].pop()
            else:
                out.add(Src("?", None, None, f"item {k} of {s.why}"))
        return out

    def _classes_of(self, recv, fn, cls, depth) -> list:
        """Repo classes an expression may be an instance of."""
        if isinstance(recv, ast.Name) and recv.id == "self" and cls is not None:
            return [cls]
        out = []
        # annotation of a parameter
        if isinstance(recv, ast.Name) and fn is not None:
            for p in fn.args.args + fn.args.kwonlyargs:
                if p.arg == recv.id and p.annotation is not None:
                    for n in ast.walk(p.annotation):
                        nm = n.id if isinstance(n, ast.Name) else (n.value if isinstance(n, ast.Constant) and isinstance(n.value, str) else None)
                        if nm in self.idx.classes:
                            out.append(self.idx.classes[nm][1])
        if out:
            return out
        vals = self.resolve(recv, fn, cls, depth + 1)
        for s in vals:
            if s.dtype.startswith("obj:") and s.dtype[4:] in self.idx.classes:
                out.append(self.idx.classes[s.dtype[4:]][1])
        # property return annotations:  def primitive(self) -> Primitive
        if not out and isinstance(recv, ast.Attribute):
            owners = self._classes_of(recv.value, fn, cls, depth + 1)
            for o in owners:
                for k in self.idx.mro(o):
                    for x in k.body:
                        if isinstance(x, ast.FunctionDef) and x.name == recv.attr and x.returns is not None:
                            for n in ast.walk(x.returns):
                                nm = n.id if isinstance(n, ast.Name) else (n.value if isinstance(n, ast.Constant) and isinstance(n.value, str) else None)
                                if nm in self.idx.classes:
                                    out.append(self.idx.classes[nm][1])
        return out
