"""Element-wise symbolic execution of C loop nests (clang JSON AST -> sympy).

The kernels of the repository fill arrays element by element inside loop nests whose bounds are sizes
(num_patom, num_G).  This executor computes, for such a function, the value stored in a *generic* element as a
closed sympy expression of the inputs:

* loops with literal bounds (the Cartesian 0..2 loops) are unrolled;
* a loop with a symbolic bound is executed once for a generic value of its variable (a fresh Symbol); array
  cells written under it are recorded as patterns over that Symbol and instantiated on later reads
  (q_born[i][a] written for generic i, read as q_born[j][b]);
* `x[idx] += term` inside a generic loop whose variable does not occur in idx is a reduction: the stored value
  becomes old + Sum(term, (var, lo, hi - 1));
* input arrays are uninterpreted functions of their evaluated subscripts: born(i, k, a);
* calls of other functions of the same translation unit that return a scalar are inlined (array parameters are
  aliased to the argument arrays).

Anything else (data-dependent branches, pointer arithmetic, while loops) raises AnalysisError: the caller
decides what that means.  Nothing is run.
"""

from __future__ import annotations

import sympy as sp

from engine import cast
from engine.core import AnalysisError

MATH = {"sqrt": sp.sqrt, "exp": sp.exp, "cos": sp.cos, "sin": sp.sin, "log": sp.log, "fabs": sp.Abs}


def _unwrap(e):
    while e.get("kind") in ("ImplicitCastExpr", "ParenExpr", "CStyleCastExpr", "ConstantExpr") and cast.kids(e):
        e = cast.kids(e)[0]
    return e


class ElemExec:
    def __init__(self, tu, where="", consts: dict | None = None, max_inline=3, null_pointers=(), nonnull_pointers=(), opaque=(), opaque_out: dict | None = None, call_hook=None, opaque_merge=False):
        self.ignore_continue = False  # model `continue` at the end of an arm of a data-dependent if (the rest of the block becomes the other arm)
        self.call_hook = call_hook  # call_hook(callee name, inlined value, state) -> replacement value | None
        self.opaque_merge = opaque_merge  # a scalar assigned under a data-dependent condition becomes a fresh opaque symbol afterwards (instead of having no value)
        self._fresh = 0
        self.opaque = set(opaque)  # callees kept as uninterpreted functions of their arguments
        self.opaque_out = dict(opaque_out or {})  # void callees that fill an array: name -> position of that array
        self.null_pointers = set(null_pointers)  # pointer parameters assumed NULL: `if (p)` takes the else arm
        self.nonnull_pointers = set(nonnull_pointers)
        self.tu = tu
        self.where = where or getattr(tu, "rel", "")
        self.consts = dict(consts or {})
        self.max_inline = max_inline

    # ------------------------------------------------------------------
    def function(self, name, scalars: dict | None = None, alias: dict | None = None, depth=0, cells: dict | None = None, prefix: dict | None = None, pointers: dict | None = None):
        """Execute function `name`.  scalars: parameter name -> sympy value; alias: array parameter -> array name
        seen by the caller.  Returns State."""
        fn = self.tu.functions.get(name)
        if fn is None:
            raise AnalysisError(f"{self.where}: function {name} not found")
        st = State(self, name, dict(scalars or {}), dict(alias or {}), depth)
        st.prefix = dict(prefix or {})      # array parameter that is a sub-array of the caller's: leading subscripts
        st.pointers = set(pointers or ())   # scalar out-parameters (double *p bound to &x): '*p' is a scalar of its own
        for pn in st.pointers:
            st.alias.pop(pn, None)
        for pn, v in (pointers or {}).items():
            if v is not None:
                st.scalars["*" + pn] = v
        for pn, pats in (cells or {}).items():
            st.cells[pn] = list(pats)  # a local array of the caller handed to this callee: its cells are known
        for p in cast.params(fn):
            pn = p.get("name")
            if pn not in st.scalars and pn not in st.alias and pn not in st.pointers:
                qt = cast.qtype(p)
                if "*" in qt or "[" in qt:
                    st.alias[pn] = pn
                else:
                    st.scalars[pn] = sp.Symbol(pn, integer=cast.is_int_type(qt)) if cast.is_int_type(qt) else sp.Symbol(pn)
        st.block(cast.kids(cast.body(fn)))
        return st


class State:
    def __init__(self, ex: ElemExec, fname, scalars, alias, depth):
        self.ex = ex
        self.fname = fname
        self.scalars = scalars
        self.alias = alias  # local array name -> external array name (inputs / outputs)
        self.depth = depth
        self.cells: dict = {}  # array base -> list of (pattern tuple, loopvars tuple, value)
        self.loopvars: list = []  # stack of (Symbol, lo, hi) for generic loops
        self.ret = None
        self.local_arrays: set = set()
        self.level: dict = {}  # scalar name -> generic-loop depth at its last plain assignment
        self.glevel: dict = {}  # scalar / cell -> number of guards in force at its last plain assignment
        self.guards: list = []  # indicator factors of the data-dependent conditions that enclose the current statement
        self.prefix: dict = {}
        self.pointers: set = set()

    # -- expressions --------------------------------------------------------
    def base_and_idx(self, e):
        idx = []
        cur = _unwrap(e)
        while cur.get("kind") == "ArraySubscriptExpr":
            a, b = cast.kids(cur)
            idx.append(self.expr(b))
            cur = _unwrap(a)
        if cur.get("kind") != "DeclRefExpr":
            raise AnalysisError(f"{self.ex.where}::{self.fname}: subscript base not a plain array: {cast.text(e)}")
        nm = cur["referencedDecl"]["name"]
        return nm, tuple(self.prefix.get(nm, ())) + tuple(sp.expand(x) for x in reversed(idx))

    def _unify(self, pat, lvs, idx):
        """Match a stored cell pattern (subscripts over the generic loop variables lvs) against a concrete subscript.
        Returns a substitution dict, False (provably a different cell) or None (cannot tell)."""
        if len(pat) != len(idx):
            return False
        sub = {}
        eqs = []
        for p, x in zip(pat, idx):
            if p == x:
                continue
            pv = [v for v in lvs if p.has(v)]
            if not pv:
                d = sp.expand(p - x)
                if d == 0:
                    continue
                # different polynomials in the sizes / per-call indices denote different cells (generic sizes and
                # indices: the dense row-major addressing that makes this true is rule R13h)
                return False
            if p in lvs and p.is_Symbol:
                if p in sub and sp.expand(sub[p] - x) != 0:
                    return False
                sub[p] = x
                continue
            eqs.append(sp.expand(p - x))
        if not eqs:
            return sub
        unknowns = [v for v in lvs if v not in sub and any(e_.has(v) for e_ in eqs)]
        eqs = [e_.subs(sub) for e_ in eqs]
        # the equation must hold for all values of the size symbols that multiply the loop variables
        sizes = set()
        for e_ in eqs:
            for v in unknowns:
                sizes |= sp.expand(e_).coeff(v).free_symbols
        sizes -= set(unknowns)
        system = []
        for e_ in eqs:
            if sizes:
                try:
                    P = sp.Poly(sp.expand(e_), *sorted(sizes, key=str))
                except sp.PolynomialError:
                    return None
                system += [c for c in P.coeffs()]
            else:
                system.append(e_)
        if not unknowns:
            # no loop variable left to choose: equal polynomials are the same cell, different ones another cell
            # (generic sizes and per-call indices, see R13h)
            return sub if all(sp.expand(c) == 0 for c in system) else False
        try:
            sol = sp.solve(system, unknowns, dict=True)
        except Exception:
            return None
        if not sol:
            return False
        if len(sol) != 1 or any(v not in sol[0] for v in unknowns):
            return None
        for v, val in sol[0].items():
            # loop variables are integers: a fractional constant offset means another cell
            for t in sp.Add.make_args(sp.expand(val)):
                c, rest = t.as_coeff_Mul()
                if c.is_Rational and not c.is_Integer:
                    if rest == 1:
                        return False  # a fractional constant offset: another cell
                    return None  # depends on the residue of a generic index: cannot tell
            sub[v] = val
        return sub

    def read_cell(self, base, idx):
        for pat, lvs, val in reversed(self.cells.get(base, [])):
            m = self._unify(pat, lvs, idx)
            if m is None:
                raise AnalysisError(f"{self.ex.where}::{self.fname}: cannot decide whether {base}{[str(x) for x in idx]} is the cell {base}{[str(x) for x in pat]} written earlier")
            if m is False:
                continue
            return val.subs(m, simultaneous=True) if m else val
        if base in self.local_arrays and base not in self.alias:
            # a cell of a local array that no statement wrote: shows up in the closed form as uninitialised_<array>(...)
            return sp.Function(f"uninitialised_{base}")(*idx)
        return sp.Function(self.alias.get(base, base))(*idx)

    def expr(self, e):
        e = _unwrap(e)
        k = e.get("kind")
        ks = cast.kids(e)
        if k == "IntegerLiteral":
            return sp.Integer(int(e["value"]))
        if k == "FloatingLiteral":
            return sp.nsimplify(float(e["value"]), rational=True)
        if k == "DeclRefExpr":
            nm = e["referencedDecl"]["name"]
            if nm in self.scalars:
                return self.scalars[nm]
            if nm in self.ex.consts:
                return self.ex.consts[nm]
            raise AnalysisError(f"{self.ex.where}::{self.fname}: scalar '{nm}' read before it has a symbolic value")
        if k == "UnaryOperator" and e.get("opcode") == "*" and _unwrap(ks[0]).get("kind") == "DeclRefExpr" and _unwrap(ks[0])["referencedDecl"]["name"] in self.pointers:
            pn = "*" + _unwrap(ks[0])["referencedDecl"]["name"]
            if pn not in self.scalars:
                raise AnalysisError(f"{self.ex.where}::{self.fname}: '{pn}' read before it has a value")
            return self.scalars[pn]
        if k == "UnaryOperator":
            op = e.get("opcode")
            v = self.expr(ks[0])
            if op == "-":
                return -v
            if op == "+":
                return v
            raise AnalysisError(f"{self.ex.where}::{self.fname}: unary '{op}'")
        if k == "BinaryOperator":
            op = e.get("opcode")
            a, b = self.expr(ks[0]), self.expr(ks[1])
            if op == "+":
                return a + b
            if op == "-":
                return a - b
            if op == "*":
                return a * b
            if op == "/":
                if cast.is_int_type(cast.qtype(ks[0])) and cast.is_int_type(cast.qtype(ks[1])):
                    return sp.floor(a / b)
                return a / b
            if op == "%":
                return sp.Mod(a, b)
            raise AnalysisError(f"{self.ex.where}::{self.fname}: operator '{op}'")
        if k == "ArraySubscriptExpr":
            base, idx = self.base_and_idx(e)
            return self.read_cell(base, idx)
        if k == "CallExpr":
            nm = cast.callee_name(e)
            args = ks[1:]
            if nm in MATH and len(args) == 1:
                return MATH[nm](self.expr(args[0]))
            if nm == "pow" and len(args) == 2:
                return self.expr(args[0]) ** self.expr(args[1])
            if nm in self.ex.opaque:
                return sp.Function(nm)(*[self.opaque_arg(a) for a in args])
            if nm in self.ex.tu.functions and self.depth < self.ex.max_inline:
                callee = self.ex.tu.functions[nm]
                sc, al, shared, pf = {}, {}, {}, {}
                for p, a in zip(cast.params(callee), args):
                    qt = cast.qtype(p)
                    if "*" in qt or "[" in qt:
                        ua = _unwrap(a)
                        if ua.get("kind") == "DeclRefExpr":
                            an = ua["referencedDecl"]["name"]
                            al[p["name"]] = self.alias.get(an, an)
                            if an in self.cells and an not in self.alias:
                                # local array handed to the callee: share its cells
                                shared[p["name"]] = self.cells[an]
                        elif ua.get("kind") == "ArraySubscriptExpr":
                            b_, pre = self.base_and_idx(ua)  # a row / sub-array of the caller's array
                            al[p["name"]] = self.alias.get(b_, b_)
                            pf[p["name"]] = pre
                        else:
                            raise AnalysisError(f"{self.ex.where}::{self.fname}: array argument '{cast.text(a)}' of {nm} is not a plain name")
                    else:
                        sc[p["name"]] = self.expr(a)
                sub = self.ex.function(nm, sc, al, self.depth + 1, cells=shared, prefix=pf)
                if sub.ret is None:
                    raise AnalysisError(f"{self.ex.where}::{self.fname}: inlined {nm} returns no value")
                if self.ex.call_hook is not None:
                    r_ = self.ex.call_hook(nm, sub.ret, self)
                    if r_ is not None:
                        return r_
                return sub.ret
            raise AnalysisError(f"{self.ex.where}::{self.fname}: call of '{nm}' has no symbolic meaning")
        raise AnalysisError(f"{self.ex.where}::{self.fname}: expression kind {k}: {cast.text(e)}")

    def opaque_arg(self, a):
        """argument of an uninterpreted callee: scalars by value, arrays the caller filled as the tuple of their cells
        (row-major over the declared extents), other arrays by name"""
        ua = _unwrap(a)
        if ua.get("kind") == "CharacterLiteral":
            return sp.Integer(ua.get("value", 0))
        if ua.get("kind") == "DeclRefExpr":
            qt = cast.qtype(ua)
            nm = ua["referencedDecl"]["name"]
            if "[" in qt or "*" in qt:
                if nm in self.cells and nm not in self.alias:
                    import itertools
                    import re as _re

                    dims = [int(x) for x in _re.findall(r"\[(\d+)\]", qt)]
                    if not dims:
                        raise AnalysisError(f"{self.ex.where}::{self.fname}: array argument '{nm}' of unknown extent")
                    return sp.Tuple(*[self.read_cell(nm, tuple(sp.Integer(i) for i in ix)) for ix in itertools.product(*[range(d) for d in dims])])
                return sp.Symbol(self.alias.get(nm, nm))
        return self.expr(a)

    # -- statements ---------------------------------------------------------
    def guard_factor(self, since=0):
        """Product of the indicator factors established after the target was last (re)initialised: a temporary that
        is reset inside the guarded region needs no factor of its own."""
        g = sp.Integer(1)
        for x in self.guards[since:]:
            g = g * x
        return g

    def store(self, lhs, val, op="="):
        lhs = _unwrap(lhs)
        if getattr(self, "cond_returned", False):
            # after a return under a data-dependent condition only the function's own temporaries may be written
            # (they feed the final return value, which carries the indicator of not having returned)
            l0 = lhs
            while l0.get("kind") == "ArraySubscriptExpr":
                l0 = _unwrap(cast.kids(l0)[0])
            nm0 = l0.get("referencedDecl", {}).get("name") if l0.get("kind") == "DeclRefExpr" else None
            is_local = nm0 is not None and nm0 not in self.alias and (lhs.get("kind") == "DeclRefExpr" or nm0 in self.local_arrays) and nm0 not in self.pointers
            if not is_local:
                raise AnalysisError(f"{self.ex.where}::{self.fname}: a store into '{cast.text(lhs)}' after a return under a data-dependent condition is outside the modelled fragment")
        deref = lhs.get("kind") == "UnaryOperator" and lhs.get("opcode") == "*" and _unwrap(cast.kids(lhs)[0]).get("kind") == "DeclRefExpr" and _unwrap(cast.kids(lhs)[0])["referencedDecl"]["name"] in self.pointers
        if lhs.get("kind") == "DeclRefExpr" or deref:
            nm = lhs["referencedDecl"]["name"] if not deref else "*" + _unwrap(cast.kids(lhs)[0])["referencedDecl"]["name"]
            if self.guards and op in ("+=", "-="):
                val = val * self.guard_factor(self.glevel.get(nm, 0))
            if op == "=":
                self.scalars[nm] = val
                self.level[nm] = len(self.loopvars)
                self.glevel[nm] = len(self.guards)
                if getattr(self, "_plain_log", None) is not None:
                    self._plain_log.add(nm)
            else:
                cur = self.scalars.get(nm)
                if cur is None:
                    raise AnalysisError(f"{self.ex.where}::{self.fname}: '{nm} {op}' before initialisation")
                # accumulation into a scalar that was last assigned outside some enclosing generic loops is a
                # reduction over those loops (the ones that the accumulated term depends on)
                lvl = self.level.get(nm, 0)
                red = [x for p_, x in enumerate(self.loopvars) if p_ >= lvl and x[0] in val.free_symbols]
                if op in ("+=", "-=") and red:
                    term = val
                    for lv, lo, hi in reversed(red):
                        term = sp.Sum(term, (lv, lo, hi - 1))
                    self.scalars[nm] = cur + term if op == "+=" else cur - term
                else:
                    self.scalars[nm] = {"+=": cur + val, "-=": cur - val, "*=": cur * val, "/=": cur / val}[op]
            return
        if lhs.get("kind") == "ArraySubscriptExpr":
            base, idx = self.base_and_idx(lhs)
            lvs = tuple(lv for lv, _, _ in self.loopvars)
            idx_syms = set().union(*[x.free_symbols for x in idx]) if idx else set()
            ckey = (base, tuple(str(x) for x in idx))
            if self.guards and op == "=" and (base in self.alias or base not in self.local_arrays):
                raise AnalysisError(f"{self.ex.where}::{self.fname}: plain store into '{base}' under a data-dependent condition is outside the modelled fragment")
            if self.guards and op in ("+=", "-="):
                val = val * self.guard_factor(self.glevel.get(ckey, 0))
            if op == "=":
                new = val
                self.level[ckey] = len(self.loopvars)
                self.glevel[ckey] = len(self.guards)
                if getattr(self, "_plain_cells", None) is not None:
                    self._plain_cells.append((base, idx, tuple(lv for lv in lvs if lv in idx_syms)))
            else:
                cur = self.read_cell(base, idx)
                lvl = self.level.get(ckey, 0)
                red = [x for p_, x in enumerate(self.loopvars) if p_ >= lvl and x[0] not in idx_syms and x[0] in val.free_symbols]
                if op in ("+=", "-=") and red:
                    term = val
                    for lv, lo, hi in reversed(red):
                        term = sp.Sum(term, (lv, lo, hi - 1))
                    new = cur + term if op == "+=" else cur - term
                else:
                    new = {"+=": cur + val, "-=": cur - val, "*=": cur * val, "/=": cur / val}[op]
            self.cells.setdefault(base, []).append((idx, tuple(lv for lv in lvs if lv in idx_syms), new))
            return
        raise AnalysisError(f"{self.ex.where}::{self.fname}: lvalue {cast.text(lhs)}")

    def cond_factor(self, e, positive):
        """Indicator (0/1) factor of a C condition as a sympy expression: ind_gt(x) = [x > 0], ind_ge, ind_ne, ind_eq;
        conjunction = product."""
        e = _unwrap(e)
        k, op = e.get("kind"), e.get("opcode")
        if k == "UnaryOperator" and op == "!":
            return self.cond_factor(cast.kids(e)[0], not positive)
        if k == "BinaryOperator" and op in ("&&", "||"):
            a, b = cast.kids(e)
            if (op == "&&") == positive:
                return self.cond_factor(a, positive) * self.cond_factor(b, positive)
            # not (a && b) = 1 - [a][b];  a || b = 1 - [not a][not b]
            return 1 - self.cond_factor(a, not positive) * self.cond_factor(b, not positive)
        if k == "BinaryOperator" and op in ("<", ">", "<=", ">=", "==", "!="):
            a, b = (self.expr(x) for x in cast.kids(e))
            if op in ("<", "<="):
                a, b, op = b, a, {"<": ">", "<=": ">="}[op]
            if not positive:
                if op in (">", ">="):
                    a, b, op = b, a, {">": ">=", ">=": ">"}[op]
                else:
                    op = {"==": "!=", "!=": "=="}[op]
            name = {">": "ind_gt", ">=": "ind_ge", "==": "ind_eq", "!=": "ind_ne"}[op]
            d = sp.expand(a - b)
            if name in ("ind_eq", "ind_ne") and d.could_extract_minus_sign():
                d = -d
            return sp.Function(name)(d)
        raise AnalysisError(f"{self.ex.where}::{self.fname}: condition '{cast.text(e)[:50]}' has no indicator form")

    def _decide(self, c):
        """truth of a condition whose operands are numbers (unrolled loop variables, literals), None otherwise;
        && and || short-circuit"""
        c = _unwrap(c)
        k, op = c.get("kind"), c.get("opcode")
        if k == "UnaryOperator" and op == "!":
            t = self._decide(cast.kids(c)[0])
            return None if t is None else not t
        if k == "BinaryOperator" and op in ("&&", "||"):
            a_, b_ = cast.kids(c)
            ta = self._decide(a_)
            if ta is not None and ta == (op == "||"):
                return ta
            tb = self._decide(b_)
            if ta is None:
                return tb if (tb is not None and tb == (op == "||")) else None
            return tb
        if k == "BinaryOperator" and op in ("==", "!=", "<", ">", "<=", ">="):
            try:
                a_, b_ = (self.expr(x) for x in cast.kids(c))
            except AnalysisError:
                return None
            if a_.is_number and b_.is_number:
                return bool({"==": a_ == b_, "!=": a_ != b_, "<": a_ < b_, ">": a_ > b_, "<=": a_ <= b_, ">=": a_ >= b_}[op])
        return None

    def block(self, stmts) -> bool:
        pushed = 0
        try:
            return self._block(stmts)
        finally:
            pass

    def _block(self, stmts) -> bool:
        pushed = 0
        n_guards = len(self.guards)
        try:
            return self._block2(stmts)
        finally:
            del self.guards[n_guards:]

    def _block2(self, stmts) -> bool:
        pushed = 0
        for idx_s, s in enumerate(stmts):
            k = s.get("kind")
            ks = cast.kids(s)
            if k == "DeclStmt":
                for d in ks:
                    if d.get("kind") == "VarDecl":
                        qt = cast.qtype(d)
                        if "[" in qt or "*" in qt:
                            self.local_arrays.add(d["name"])
                        elif cast.kids(d):
                            self.scalars[d["name"]] = self.expr(cast.kids(d)[0])
                continue
            if k == "NullStmt":
                continue
            if k == "ContinueStmt" and self.ex.ignore_continue:
                # `continue` ends this path through the loop body: the data-dependent if statement it belongs to takes
                # the rest of the enclosing block as its other arm
                self._cont_hit = True
                return True
            if k == "BinaryOperator" and s.get("opcode") == "=":
                rhs = _unwrap(ks[1])
                if rhs.get("kind") == "CallExpr" and cast.callee_name(rhs) in ("malloc", "calloc"):
                    l = _unwrap(ks[0])
                    if l.get("kind") == "DeclRefExpr":
                        self.local_arrays.add(l["referencedDecl"]["name"])
                    continue
                if rhs.get("kind") in ("GNUNullExpr",) or cast.text(rhs) in ("NULL", "((void *)0)"):
                    continue
                self.store(ks[0], self.expr(ks[1]))
                continue
            if k == "CompoundAssignOperator":
                self.store(ks[0], self.expr(ks[1]), s.get("opcode"))
                continue
            if k == "CompoundStmt":
                if self.block(ks):
                    return True
                continue
            if k == "ReturnStmt":
                v_ = self.expr(ks[0]) if ks else None
                live = getattr(self, "ret_live", sp.Integer(1))
                if self.guards:
                    # a return under data-dependent conditions: the value counts with the indicator of those
                    # conditions (and of not having returned earlier); what follows runs only otherwise
                    g_ = live * self.guard_factor(0)
                    if v_ is not None:
                        self.ret_partial = getattr(self, "ret_partial", sp.Integer(0)) + g_ * v_
                    self.ret_live = live - g_
                    self.cond_returned = True
                    return True
                if v_ is not None and getattr(self, "cond_returned", False):
                    v_ = getattr(self, "ret_partial", sp.Integer(0)) + live * v_
                self.ret = v_
                return True
            if k == "ForStmt":
                self.loop(s)
                continue
            if k == "IfStmt":
                c = _unwrap(ks[0])
                neg = False
                while c.get("kind") == "UnaryOperator" and c.get("opcode") == "!":
                    neg = not neg
                    c = _unwrap(cast.kids(c)[0])
                nm = c.get("referencedDecl", {}).get("name") if c.get("kind") == "DeclRefExpr" else None
                if nm in self.ex.null_pointers or nm in self.ex.nonnull_pointers:
                    truth = (nm in self.ex.nonnull_pointers) != neg
                    arm = ks[1] if truth else (ks[2] if len(ks) > 2 else None)
                    if arm is not None and self.block([arm]):
                        return True
                    continue
                # a condition over literal / unrolled values is decided on the spot
                truth = self._decide(ks[0])
                if truth is not None:
                    arm = ks[1] if truth else (ks[2] if len(ks) > 2 else None)
                    if arm is not None and self.block([arm]):
                        return True
                    continue
                # data-dependent condition: indicator factors on the accumulations it encloses
                then = ks[1]
                els = ks[2] if len(ks) > 2 else None
                tstm = cast.kids(then) if then.get("kind") == "CompoundStmt" else [then]
                if els is None and len(tstm) == 1 and tstm[0].get("kind") == "ContinueStmt":
                    # `if (c) continue;` guards the rest of this loop body with not-c
                    self.guards.append(self.cond_factor(ks[0], False))
                    pushed += 1
                    continue
                before = dict(self.scalars)
                g_ = self.cond_factor(ks[0], True)
                log_outer = getattr(self, "_plain_log", None)
                clog_outer = getattr(self, "_plain_cells", None)
                cells_before = {b_: list(v_) for b_, v_ in self.cells.items()}
                self._plain_log = set()
                self._plain_cells = []
                self._cont_hit = False
                self.guards.append(g_)
                self.block([then])
                self.guards.pop()
                consumed_rest = False
                if getattr(self, "_cont_hit", False):
                    # if (c) { ...; continue; } REST   ==   if (c) { ... } else { [else arm;] REST }
                    self._cont_hit = False
                    rest_ = list(stmts[idx_s + 1:])
                    els = {"kind": "CompoundStmt", "inner": ([els] if els is not None else []) + rest_}
                    consumed_rest = True
                plain_t, s_then = self._plain_log, dict(self.scalars)
                cplain_t, cells_then = self._plain_cells, {b_: list(v_) for b_, v_ in self.cells.items()}
                cplain_e, cells_else = [], None
                plain_e, s_else = set(), None
                if els is not None:
                    for b_ in {c_[0] for c_ in cplain_t}:
                        # the else arm starts from the cells as they were before the statement
                        if b_ in cells_before:
                            self.cells[b_] = list(cells_before[b_])
                        else:
                            self.cells.pop(b_, None)
                    self._plain_cells = []
                    # the else arm starts from the values before the statement, except for what the then arm
                    # accumulated (already weighted by its indicator)
                    for nm_ in plain_t:
                        if nm_ in before:
                            self.scalars[nm_] = before[nm_]
                        else:
                            self.scalars.pop(nm_, None)
                    self._plain_log = set()
                    self.guards.append(self.cond_factor(ks[0], False))
                    self.block([els])
                    self.guards.pop()
                    plain_e, s_else = self._plain_log, dict(self.scalars)
                    cplain_e, cells_else = self._plain_cells, {b_: list(v_) for b_, v_ in self.cells.items()}
                self._plain_log = log_outer
                self._plain_cells = clog_outer
                # array cells plainly stored under the condition: afterwards the indicator-weighted mixture of the arms
                if cplain_t or cplain_e:
                    def _lookup(snapshot, base_, idx_):
                        keep = self.cells
                        self.cells = snapshot
                        try:
                            v_ = self.read_cell(base_, idx_)
                        except AnalysisError:
                            v_ = None
                        finally:
                            self.cells = keep
                        if v_ is not None and any(getattr(f_.func, "__name__", "").startswith("uninitialised_") for f_ in v_.atoms(sp.Function)):
                            return None
                        return v_

                    after = {b_: list(v_) for b_, v_ in self.cells.items()}
                    done = set()
                    for base_, idx_, lvs_ in cplain_t + cplain_e:
                        key_ = (base_, tuple(str(x) for x in idx_))
                        if key_ in done:
                            continue
                        done.add(key_)
                        if clog_outer is not None:
                            clog_outer.append((base_, idx_, lvs_))
                        in_t = any((b2, tuple(str(x) for x in i2)) == key_ for b2, i2, _ in cplain_t)
                        in_e = any((b2, tuple(str(x) for x in i2)) == key_ for b2, i2, _ in cplain_e)
                        t_ = _lookup(cells_then if in_t else cells_before, base_, idx_)
                        e_ = _lookup((cells_else if in_e else (cells_else if cells_else is not None else cells_before)) if (in_e or cells_else is not None) else cells_before, base_, idx_)
                        if base_ in self.alias or base_ not in self.local_arrays:
                            # an output / input array: handled (refused) by store(); nothing to merge here
                            continue
                        if t_ is None or e_ is None:
                            continue  # written in one arm only and undefined before: a temporary of that arm
                        if t_ != e_:
                            self.cells.setdefault(base_, []).append((idx_, lvs_, sp.expand(g_ * t_ + (1 - g_) * e_)))
                # a scalar plainly assigned under the condition: afterwards it is the indicator-weighted mixture of
                # the two arms (the value before the statement where an arm does not assign it)
                for nm_ in plain_t | plain_e:
                    if log_outer is not None:
                        log_outer.add(nm_)
                    if self.ex.opaque_merge:
                        self.ex._fresh += 1
                        self.scalars[nm_] = sp.Symbol(f"{nm_}@merge{self.ex._fresh}")
                        continue
                    t_ = s_then.get(nm_) if nm_ in plain_t else None
                    e_ = (s_else.get(nm_) if s_else is not None and nm_ in plain_e else None)
                    if t_ is None:
                        t_ = before.get(nm_)
                    if e_ is None:
                        # not assigned in the else arm (or no else arm): what it was before, plus what that arm accumulated
                        e_ = (s_else if s_else is not None else before).get(nm_) if nm_ not in plain_e else e_
                    if t_ is None or e_ is None:
                        # assigned in one arm only and undefined before: a temporary of that arm
                        self.scalars[nm_] = t_ if t_ is not None else e_
                        continue
                    self.scalars[nm_] = t_ if t_ == e_ else sp.expand(g_ * t_ + (1 - g_) * e_)
                    self.level[nm_] = min(self.level.get(nm_, len(self.loopvars)), len(self.loopvars))
                if consumed_rest:
                    return False
                continue
            if k == "CallExpr":
                nm = cast.callee_name(s)
                if nm in ("free", "printf", "fprintf"):
                    continue
                if nm in self.ex.tu.functions and nm not in self.ex.opaque and nm not in self.ex.opaque_out and self.depth < self.ex.max_inline:
                    # a void helper of the same file: inline it; `&x` arguments are scalar results, rows of the caller's
                    # arrays are arrays with leading subscripts
                    callee = self.ex.tu.functions[nm]
                    sc, al, pf, ptr, back, local_name, shared_ = {}, {}, {}, {}, {}, {}, {}
                    for p_, a in zip(cast.params(callee), ks[1:]):
                        qt = cast.qtype(p_)
                        ua = _unwrap(a)
                        if ua.get("kind") == "UnaryOperator" and ua.get("opcode") == "&" and _unwrap(cast.kids(ua)[0]).get("kind") == "DeclRefExpr":
                            x = _unwrap(cast.kids(ua)[0])["referencedDecl"]["name"]
                            ptr[p_["name"]] = self.scalars.get(x)
                            back[p_["name"]] = x
                        elif "*" in qt or "[" in qt:
                            if ua.get("kind") == "DeclRefExpr":
                                an = ua["referencedDecl"]["name"]
                                if an in self.cells and an not in self.alias:
                                    shared_[p_["name"]] = self.cells[an]  # a local array the caller filled: the helper sees its cells
                                al[p_["name"]] = self.alias.get(an, an)
                                local_name[p_["name"]] = an
                                if an in self.prefix:
                                    pf[p_["name"]] = self.prefix[an]
                            elif ua.get("kind") == "ArraySubscriptExpr":
                                b_, pre = self.base_and_idx(ua)
                                al[p_["name"]] = self.alias.get(b_, b_)
                                local_name[p_["name"]] = b_
                                pf[p_["name"]] = pre
                            else:
                                raise AnalysisError(f"{self.ex.where}::{self.fname}: array argument '{cast.text(a)}' of {nm}")
                        else:
                            sc[p_["name"]] = self.expr(a)
                    sub = self.ex.function(nm, sc, al, self.depth + 1, prefix=pf, pointers=ptr, cells=shared_)
                    for b in sub.cells:
                        if b in sub.local_arrays:
                            continue
                        if b not in local_name or self.guards:
                            raise AnalysisError(f"{self.ex.where}::{self.fname}: the void helper {nm} writes arrays of its caller ({sorted(sub.cells)}): not modelled")
                        # the helper filled (part of) an array of the caller: its cells, with the caller's leading
                        # subscripts already in place (prefix), become cells of that array
                        if b in shared_:
                            self.cells[local_name[b]] = list(sub.cells[b])
                        else:
                            self.cells.setdefault(local_name[b], []).extend(sub.cells[b])
                    for pn, x in back.items():
                        if "*" + pn in sub.scalars:
                            self.scalars[x] = sub.scalars["*" + pn]
                            self.level[x] = len(self.loopvars)
                            self.glevel[x] = len(self.guards)
                    continue
                if nm in self.ex.opaque_out:
                    # a void callee that fills one array from the others: cell r of that array is an uninterpreted
                    # function of r and of the remaining arguments
                    import itertools
                    import re as _re

                    args = ks[1:]
                    pos = self.ex.opaque_out[nm]
                    out = _unwrap(args[pos])
                    if out.get("kind") != "DeclRefExpr":
                        raise AnalysisError(f"{self.ex.where}::{self.fname}: output argument of {nm} is not a plain array")
                    onm = out["referencedDecl"]["name"]
                    dims = [int(x) for x in _re.findall(r"\[(\d+)\]", cast.qtype(out))]
                    if not dims or onm in self.alias:
                        raise AnalysisError(f"{self.ex.where}::{self.fname}: output array '{onm}' of {nm} has no local fixed extent")
                    ins = [self.opaque_arg(a) for p_, a in enumerate(args) if p_ != pos]
                    for ix in itertools.product(*[range(d) for d in dims]):
                        idx = tuple(sp.Integer(i) for i in ix)
                        pats = self.cells.setdefault(onm, [])
                        pats[:] = [c for c in pats if tuple(c[0]) != idx]
                        pats.append((idx, (), sp.Function(nm)(*idx, *ins)))
                    self.local_arrays.add(onm)
                    continue
                raise AnalysisError(f"{self.ex.where}::{self.fname}: statement call of '{nm}' is not modelled")
            raise AnalysisError(f"{self.ex.where}::{self.fname}: statement kind {k} is outside the modelled fragment: {cast.text(s)[:60]}")
        return False

    def loop(self, s):
        real = [x for x in s.get("inner", []) if isinstance(x, dict) and x.get("kind")]
        if len(real) < 4:
            raise AnalysisError(f"{self.ex.where}::{self.fname}: for-loop shape")
        init, cond, inc, body = real[0], _unwrap(real[-3]), real[-2], real[-1]
        if not (init.get("kind") == "BinaryOperator" and init.get("opcode") == "="):
            raise AnalysisError(f"{self.ex.where}::{self.fname}: for-loop init")
        a, b = cast.kids(init)
        var = _unwrap(a)["referencedDecl"]["name"]
        lo = self.expr(b)
        if not (cond.get("kind") == "BinaryOperator" and cond.get("opcode") in ("<", "<=") and _unwrap(cast.kids(cond)[0]).get("referencedDecl", {}).get("name") == var):
            raise AnalysisError(f"{self.ex.where}::{self.fname}: for-loop condition {cast.text(cond)}")
        hi = self.expr(cast.kids(cond)[1]) + (1 if cond.get("opcode") == "<=" else 0)
        def _unit_step(x):
            """i++, ++i, i += 1, i = i + 1 (all the same step)"""
            if x.get("kind") == "UnaryOperator" and x.get("opcode") == "++":
                return _unwrap(cast.kids(x)[0]).get("referencedDecl", {}).get("name") == var
            if x.get("kind") == "CompoundAssignOperator" and x.get("opcode") == "+=":
                l_, r_ = cast.kids(x)
                return _unwrap(l_).get("referencedDecl", {}).get("name") == var and _unwrap(r_).get("kind") == "IntegerLiteral" and _unwrap(r_).get("value") == "1"
            if x.get("kind") == "BinaryOperator" and x.get("opcode") == "=":
                l_, r_ = cast.kids(x)
                r_ = _unwrap(r_)
                if _unwrap(l_).get("referencedDecl", {}).get("name") == var and r_.get("kind") == "BinaryOperator" and r_.get("opcode") == "+":
                    a_, b_ = (_unwrap(y) for y in cast.kids(r_))
                    return {a_.get("referencedDecl", {}).get("name"), b_.get("value")} == {var, "1"} or {b_.get("referencedDecl", {}).get("name"), a_.get("value")} == {var, "1"}
            return False

        if not _unit_step(inc):
            raise AnalysisError(f"{self.ex.where}::{self.fname}: for-loop increment")
        if lo.is_Integer and hi.is_Integer and hi - lo <= 32:
            for v in range(int(lo), int(hi)):
                self.scalars[var] = sp.Integer(v)
                self.block([body])
            return
        # a fresh symbol per generic loop: the first loop over `var` keeps the plain name, later ones get a suffix
        self.used_names = getattr(self, "used_names", {})
        cnt = self.used_names.get(var, 0)
        self.used_names[var] = cnt + 1
        sym = sp.Symbol(var if cnt == 0 else f"{var}_{cnt + 1}", integer=True)
        self.scalars[var] = sym
        self.loopvars.append((sym, lo, hi))
        self.block([body])
        self.loopvars.pop()

    # -- queries --------------------------------------------------------------
    def cell(self, base, *idx):
        return self.read_cell(base, tuple(sp.sympify(x) for x in idx))


def canon(e):
    """Canonical form for structural comparison of closed forms: trig arguments expanded, factors that do not depend
    on a summation variable pulled out of the Sum, everything expanded."""
    e = sp.sympify(e)
    e = e.replace(lambda f: isinstance(f, (sp.cos, sp.sin, sp.exp)), lambda f: f.func(sp.expand(f.args[0])))

    def pull(f):
        body = sp.expand(f.function)
        out = 0
        for term in sp.Add.make_args(body):
            indep, dep = term, sp.Integer(1)
            for lim in f.limits:
                indep, d2 = indep.as_independent(lim[0], as_Add=False)
                dep = dep * d2
            out += indep * sp.Sum(dep, *f.limits)
        return out

    for _ in range(3):
        new = e.replace(lambda f: isinstance(f, sp.Sum), pull)
        if new == e:
            break
        e = new
    return sp.expand(_bound_names(sp.expand(e)))


def _sum_height(f):
    inner = [x for a in f.args for x in a.atoms(sp.Sum)]
    return 1 + max((_sum_height(x) for x in inner), default=-1)


def _bound_names(e):
    """Summation variables are bound: name them by the nesting height of their Sum, so that two closed forms that
    differ only in the name of a loop variable are the same expression."""

    def ren(f):
        h = _sum_height(f)
        body, lims = f.function, []
        for n_, lim in enumerate(f.limits):
            b = sp.Symbol(f"_b{h}" + (f"_{n_}" if n_ else ""), integer=True)
            body = body.xreplace({lim[0]: b})
            lims.append((b,) + tuple(lim[1:]))
        return sp.Sum(body, *lims)

    return e.replace(lambda f: isinstance(f, sp.Sum), ren)


def same(a, b):
    return canon(sp.sympify(a) - sp.sympify(b)) == 0
