"""E4 — the cross-language ABI table: m.def entries, glue functions, phonopy.h
prototypes, C definitions, and the Python call sites with abstract argument values."""

from __future__ import annotations

import ast
import re
from dataclasses import dataclass, field

from . import cast, core
from .core import AnalysisError

GLUE = "c/_phonopy.cpp"


@dataclass
class GlueParam:
    name: str
    kind: str  # 'ndarray' | 'scalar'
    ctype: str  # for scalars the declared type
    elem: str | None = None  # element C type the .data() pointer is cast to (ndarray)
    casts: list = field(default_factory=list)  # [(local, cast type)]
    shapes: list = field(default_factory=list)  # [(local, axis)]
    subscripts: list = field(default_factory=list)  # direct reads like function[0]


@dataclass
class GlueFn:
    name: str
    exported: str | None
    params: list
    locals_: dict  # local name -> declared type
    origin: dict  # local name -> ('data', param, casttype) | ('shape', param, axis) | ('expr', text)
    calls: list  # [(callee, [arg text], [arg node])]
    line: int
    node: dict


def elem_of(ctype: str) -> str:
    """'double (*)[3]' -> 'double'; 'int64_t *' -> 'int64_t'; 'char *' -> 'char'."""
    t = ctype.replace("const ", "").strip()
    m = re.match(r"([A-Za-z_0-9 ]+?)\s*(\(\*\)|\*)", t)
    return (m.group(1) if m else t).strip()


def glue_table() -> dict[str, GlueFn]:
    tu = cast.load(GLUE)
    # m.def("name", &fn)
    exported = {}
    modfn = [f for n, f in tu.functions.items() if n.startswith("verif_nb_module_")]
    if not modfn:
        raise AnalysisError("NB_MODULE body not found in the glue")
    for call in cast.walk(modfn[0]):
        if call.get("kind") == "CXXMemberCallExpr" and cast.callee_name(call) == "def":
            args = cast.call_args(call)
            lit = [x for x in cast.walk(args[0]) if x.get("kind") == "StringLiteral"]
            ref = [x for x in cast.walk(args[1]) if x.get("kind") == "DeclRefExpr"]
            if lit and ref:
                exported[lit[0]["value"].strip('"')] = ref[0]["referencedDecl"]["name"]
    out: dict[str, GlueFn] = {}
    by_fn = {v: k for k, v in exported.items()}
    for name, fn in tu.functions.items():
        if name.startswith("verif_nb_module_"):
            continue
        params = []
        for p in cast.params(fn):
            t = cast.qtype(p)
            kind = "ndarray" if "ndarray" in t else "scalar"
            params.append(GlueParam(p["name"], kind, t))
        pmap = {p.name: p for p in params}
        locals_, origin, calls = {}, {}, []
        for x in cast.walk(cast.body(fn)):
            k = x.get("kind")
            if k == "VarDecl":
                locals_[x["name"]] = cast.qtype(x)
                if cast.kids(x):
                    _record_origin(x["name"], cast.kids(x)[0], origin, pmap)
            elif k == "BinaryOperator" and x.get("opcode") == "=":
                lhs, rhs = cast.kids(x)
                nm = cast.ref_name(lhs)
                if nm is not None:
                    _record_origin(nm, rhs, origin, pmap)
            elif k == "CallExpr":
                cn = cast.callee_name(x)
                if cn and (cn.startswith("phpy_") or cn.startswith("thm_") or cn.startswith("dym_")):
                    calls.append((cn, [cast.text(a) for a in cast.call_args(x)], cast.call_args(x)))
            elif k == "ArraySubscriptExpr":
                b = cast.ref_name(cast.kids(x)[0])
                if b in pmap:
                    pmap[b].subscripts.append(cast.text(x))
        out[name] = GlueFn(name, by_fn.get(name), params, locals_, origin, calls, tu.line(fn) or 0, fn)
    for ex, fnname in exported.items():
        if fnname not in out and not fnname.startswith("phpy_"):
            raise AnalysisError(f"m.def('{ex}') refers to unknown glue function {fnname}")
    return out, exported


def _record_origin(local, rhs, origin, pmap):
    r = rhs
    cast_t = None
    # peel casts, remembering the outermost explicit one
    while True:
        k = r.get("kind")
        if k in ("CStyleCastExpr", "CXXStaticCastExpr", "CXXReinterpretCastExpr", "CXXFunctionalCastExpr"):
            if cast_t is None:
                cast_t = cast.qtype(r)
            r = cast.kids(r)[0]
        elif k in ("ImplicitCastExpr", "ParenExpr", "ExprWithCleanups", "MaterializeTemporaryExpr", "CXXBindTemporaryExpr"):
            r = cast.kids(r)[0]
        else:
            break
    if r.get("kind") == "CXXMemberCallExpr":
        meth = cast.callee_name(r)
        mem = cast.kids(r)[0]
        obj = cast.ref_name(cast.kids(mem)[0]) if cast.kids(mem) else None
        if obj in pmap:
            if meth == "data":
                origin[local] = ("data", obj, cast_t)
                pmap[obj].casts.append((local, cast_t))
                if cast_t:
                    pmap[obj].elem = elem_of(cast_t)
                return
            if meth == "shape":
                ax = cast.strip(cast.call_args(r)[0])
                while ax.get("kind") in ("ImplicitCastExpr",):
                    ax = cast.kids(ax)[0]
                axis = int(ax["value"]) if ax.get("kind") == "IntegerLiteral" else None
                origin[local] = ("shape", obj, axis)
                pmap[obj].shapes.append((local, axis))
                return
    origin[local] = ("expr", cast.text(rhs))


# ---------------------------------------------------------------------------
# header prototypes and definitions
# ---------------------------------------------------------------------------


def c_signature(fn: dict) -> list[tuple[str, str]]:
    return [(p.get("name", ""), cast.qtype(p)) for p in cast.params(fn)]


def header_prototypes(rel: str = "c/phonopy.h") -> dict[str, list[tuple[str, str]]]:
    """Parse prototypes of a header by compiling a one-line includer."""
    text = core.read(rel)
    tu = _load_header(rel, text)
    return {n: c_signature(f) for n, f in tu.prototypes.items()}


def _load_header(rel, text):
    import subprocess, json, hashlib

    key = ("hdr", rel)
    if key in cast._tu_cache:
        return cast._tu_cache[key]
    flags = ["-fsyntax-only", f"-I{cast.STUBS}", f"-I{core.REPO / 'c'}", "-Xclang", "-ast-dump=json", "-w", "-x", "c", "-"]
    p = subprocess.run([cast._clang(False)] + flags, input=text.encode(), capture_output=True, timeout=120)
    if p.returncode != 0:
        raise AnalysisError(f"clang cannot parse {rel}: {p.stderr.decode()[:300]}")
    root = json.loads(p.stdout)
    decls = [n for n in root.get("inner", []) if "includedFrom" not in n.get("loc", {}) and not n.get("isImplicit") and cast._in_main(n)]
    tu = cast.TU(rel, text, decls, False)
    cast._tu_cache[key] = tu
    return tu


# ---------------------------------------------------------------------------
# Python call sites
# ---------------------------------------------------------------------------


@dataclass
class PySite:
    file: str
    qualname: str
    entry: str
    call: ast.Call
    line: int


def python_sites() -> list[PySite]:
    out = []
    for rel in core.python_files("phonopy"):
        txt = core.read(rel)
        if "phonoc." not in txt:
            continue
        tree = core.parse(rel)
        for n in ast.walk(tree):
            if isinstance(n, ast.Call) and isinstance(n.func, ast.Attribute) and core.src(n.func.value) == "phonoc":
                out.append(PySite(rel, core.qualname_of(n), n.func.attr, n, n.lineno))
    return out
