"""E8 — extraction of the command-line / configuration tables of phonopy:
argparse dests, read_options forwarding, parse_conf handlers, set_parameter names,
set_settings consumers, Settings attributes, documented tags."""

from __future__ import annotations

import ast
import re
from dataclasses import dataclass, field

from . import core
from .core import AnalysisError

ARGP = "phonopy/cui/phonopy_argparse.py"
SETT = "phonopy/cui/settings.py"


@dataclass
class Dest:
    dest: str
    flags: list
    action: str | None
    type_: str | None
    default: str | None
    nargs: str | None
    line: int


def argparse_all(rel=ARGP, fn="get_parser") -> list[Dest]:
    """Every add_argument call (a dest may be defined on several branches, e.g. --nac / --nonac)."""
    return argparse_dests(rel, fn, _all=True)


def argparse_dests(rel=ARGP, fn="get_parser", _all=False):
    f = core.find_def(rel, fn)
    out = {}
    every = []
    for c in ast.walk(f):
        if isinstance(c, ast.Call) and isinstance(c.func, ast.Attribute) and c.func.attr == "add_argument":
            kw = {k.arg: k.value for k in c.keywords if k.arg}
            flags = [a.value for a in c.args if isinstance(a, ast.Constant)]
            dest = kw.get("dest")
            if dest is None:
                # positional or derived from the long flag
                long = [x for x in flags if x.startswith("--")]
                name = long[0][2:].replace("-", "_") if long else (flags[0] if flags else None)
            else:
                name = dest.value if isinstance(dest, ast.Constant) else None
            if name is None:
                continue
            out[name] = every_one = Dest(
                name,
                flags,
                kw["action"].value if "action" in kw and isinstance(kw["action"], ast.Constant) else None,
                core.src(kw["type"]) if "type" in kw else None,
                core.src(kw["default"]) if "default" in kw else None,
                core.src(kw["nargs"]) if "nargs" in kw else None,
                c.lineno,
            )
            every.append(every_one)
    return every if _all else out


@dataclass
class Forward:
    dest: str
    guard: str  # 'is not None' | 'truthy' | 'falsy' | 'is True' | 'is False' | 'other:<text>'
    conf_key: str
    value: str  # source of the stored value
    kind: str  # 'true' | 'false' | 'raw' | 'join' | 'other'
    line: int
    cls: str


def read_options(rel=SETT):
    """All `self._confs[key] = value` under `if "<dest>" in arg_list:` in read_options/_read_options."""
    tree = core.parse(rel)
    out: list[Forward] = []
    probes: dict[str, int] = {}
    for cls in [c for c in ast.walk(tree) if isinstance(c, ast.ClassDef)]:
        for m in cls.body:
            if not (isinstance(m, ast.FunctionDef) and m.name in ("read_options", "_read_options")):
                continue
            for top in m.body:
                if not isinstance(top, ast.If):
                    continue
                t = top.test
                if not (isinstance(t, ast.Compare) and isinstance(t.ops[0], ast.In) and isinstance(t.left, ast.Constant) and core.src(t.comparators[0]) == "arg_list"):
                    continue
                dest = t.left.value
                probes[dest] = top.lineno
                for s in ast.walk(top):
                    if isinstance(s, ast.Assign) and isinstance(s.targets[0], ast.Subscript) and core.src(s.targets[0].value) == "self._confs" and isinstance(s.targets[0].slice, ast.Constant):
                        key = s.targets[0].slice.value
                        guard = _guard_of(s, top, dest)
                        v = s.value
                        vt = core.src(v)
                        if isinstance(v, ast.Constant) and v.value == ".true.":
                            kind = "true"
                        elif isinstance(v, ast.Constant) and v.value == ".false.":
                            kind = "false"
                        elif "join" in vt:
                            kind = "join"
                        elif vt == f"self._args.{dest}" or (isinstance(v, ast.Name) and any(isinstance(a, ast.Assign) and isinstance(a.targets[0], ast.Name) and a.targets[0].id == v.id and core.src(a.value) == f"self._args.{dest}" for a in ast.walk(top))):
                            kind = "raw"
                        else:
                            kind = "other"
                        out.append(Forward(dest, guard, key, vt, kind, s.lineno, cls.name))
            # second idiom: value = arg_list.get("<dest>") [or arg_list.get("<old spelling>")]; if value <guard>: confs[key] = value
            aliases = {}
            for top in m.body:
                if isinstance(top, ast.Assign) and isinstance(top.targets[0], ast.Name):
                    gets = [c for c in ast.walk(top.value) if isinstance(c, ast.Call) and core.src(c.func) == "arg_list.get" and c.args and isinstance(c.args[0], ast.Constant)]
                    if not gets:
                        continue
                    parts = []
                    v = top.value
                    if isinstance(v, ast.BoolOp) and isinstance(v.op, ast.Or):
                        for k, operand in enumerate(v.values):
                            for c in [c for c in ast.walk(operand) if c in gets]:
                                parts.append((c.args[0].value, "truthy" if k < len(v.values) - 1 else None))
                    else:
                        parts = [(c.args[0].value, None if v is c else "other:" + core.norm(core.src(v), 40)) for c in gets]
                    aliases[top.targets[0].id] = parts
                    for d, _ in parts:
                        probes.setdefault(d, top.lineno)
                elif isinstance(top, ast.If) and aliases:
                    names = {x.id for x in ast.walk(top.test) if isinstance(x, ast.Name)} & set(aliases)
                    if not names:
                        continue
                    al = sorted(names)[0]
                    t = core.src(top.test)
                    tg = {f"{al} is not None": "is not None", al: "truthy", f"{al} is None": "is None", f"not {al}": "falsy"}.get(t, "other:" + core.norm(t, 60))
                    for st in ast.walk(top):
                        if isinstance(st, ast.Assign) and isinstance(st.targets[0], ast.Subscript) and core.src(st.targets[0].value) == "self._confs" and isinstance(st.targets[0].slice, ast.Constant):
                            in_body = any(st in set(ast.walk(b)) for b in top.body)
                            for d, eg in aliases[al]:
                                guard = eg or (tg if in_body else "other:else-arm")
                                vt = core.src(st.value)
                                kind = "raw" if vt == al else ("true" if vt == "'.true.'" else ("false" if vt == "'.false.'" else "other"))
                                out.append(Forward(d, guard, st.targets[0].slice.value, f"self._args.{d}" if vt == al else vt, kind, st.lineno, cls.name))
            # third idiom: a helper of the class called with literal (dest, conf key):
            #   self._read_flag_option("classical", "classical")
            #   def _read_flag_option(self, arg_name, conf_key): flag = vars(self._args).get(arg_name); if flag <guard>: self._confs[conf_key] = <value>
            helpers = {h.name: h for h in cls.body if isinstance(h, ast.FunctionDef)}
            for top in m.body:
                c = top.value if isinstance(top, ast.Expr) and isinstance(top.value, ast.Call) else None
                if c is None or not (isinstance(c.func, ast.Attribute) and core.src(c.func.value) == "self" and c.func.attr in helpers and c.args and all(isinstance(a, ast.Constant) and isinstance(a.value, str) for a in c.args)):
                    continue
                h = helpers[c.func.attr]
                hp = [a.arg for a in h.args.args if a.arg != "self"]
                bind = {p_: a.value for p_, a in zip(hp, c.args)}
                alias = None
                dest = None
                for st in h.body:
                    if isinstance(st, ast.Assign) and isinstance(st.targets[0], ast.Name):
                        for cc in ast.walk(st.value):
                            if isinstance(cc, ast.Call) and ((isinstance(cc.func, ast.Attribute) and cc.func.attr == "get") or core.src(cc.func) == "getattr"):
                                for a in cc.args:
                                    if isinstance(a, ast.Name) and a.id in bind:
                                        alias, dest = st.targets[0].id, bind[a.id]
                if alias is None:
                    continue
                probes.setdefault(dest, top.lineno)
                for st in h.body:
                    if not isinstance(st, ast.If):
                        continue
                    t = core.src(st.test)
                    tg = {f"{alias} is not None": "is not None", alias: "truthy", f"{alias} is None": "is None", f"not {alias}": "falsy"}.get(t, "other:" + core.norm(t, 60))
                    for a in ast.walk(st):
                        if isinstance(a, ast.Assign) and isinstance(a.targets[0], ast.Subscript) and core.src(a.targets[0].value) == "self._confs":
                            ksl = a.targets[0].slice
                            key = bind.get(ksl.id) if isinstance(ksl, ast.Name) else (ksl.value if isinstance(ksl, ast.Constant) else None)
                            if key is None:
                                continue
                            v = a.value
                            vt = core.src(v)
                            if isinstance(v, ast.Constant) and v.value == ".true.":
                                kind = "true"
                            elif isinstance(v, ast.Constant) and v.value == ".false.":
                                kind = "false"
                            elif isinstance(v, ast.IfExp) and core.src(v.test) == alias and isinstance(v.body, ast.Constant) and isinstance(v.orelse, ast.Constant) and (v.body.value, v.orelse.value) == (".true.", ".false."):
                                kind = "true"  # truthy -> .true., falsy -> .false.: the polarity of a positive flag
                            elif vt == alias:
                                kind = "raw"
                            else:
                                kind = "other"
                            in_body = any(a in set(ast.walk(b)) for b in st.body)
                            out.append(Forward(dest, tg if in_body else "other:else-arm", key, f"self._args.{dest}" if vt == alias else vt, kind, top.lineno, cls.name))
    return out, probes


def _guard_of(stmt, top, dest):
    """Innermost condition on self._args.<dest> that encloses stmt (below the arg_list probe)."""
    cur = getattr(stmt, "_parent", None)
    guards = []
    child = stmt
    while cur is not None and cur is not top:
        if isinstance(cur, ast.If):
            pol = child in cur.body
            guards.append((cur.test, pol))
        child, cur = cur, getattr(cur, "_parent", None)
    ref = f"self._args.{dest}"
    # local aliases:  x = self._args.<dest>
    aliases = {ref}
    for a in ast.walk(top):
        if isinstance(a, ast.Assign) and isinstance(a.targets[0], ast.Name) and core.src(a.value) == ref:
            aliases.add(a.targets[0].id)
    for test, pol in reversed(guards):  # outermost first
        t = core.src(test)
        hit = [x for x in aliases if re.search(r"(?<![\w.])" + re.escape(x) + r"(?![\w])", t)]
        if not hit:
            continue
        for x in hit:
            t = re.sub(r"(?<![\w.])" + re.escape(x) + r"(?![\w])", ref, t)
        if t == f"{ref} is not None":
            return "is not None" if pol else "is None"
        if t == f"{ref} is None":
            return "is None" if pol else "is not None"
        if t == ref:
            return "truthy" if pol else "falsy"
        if t == f"not {ref}":
            return "falsy" if pol else "truthy"
        if t == f"{ref} is True":
            return "is True" if pol else "is not True"
        if t == f"{ref} is False":
            return "is False" if pol else "is not False"
        return "other:" + core.norm(t, 60)
    return "none"


def conf_handlers(rel=SETT):
    """{conf key: [(class, If node)]} from `if conf_key == "k"` / `in (...)` in parse_conf/_parse_conf."""
    tree = core.parse(rel)
    out: dict[str, list] = {}
    for cls in [c for c in ast.walk(tree) if isinstance(c, ast.ClassDef)]:
        for m in cls.body:
            if not (isinstance(m, ast.FunctionDef) and m.name in ("parse_conf", "_parse_conf")):
                continue
            for n in ast.walk(m):
                if not isinstance(n, ast.If):
                    continue
                for cmp_ in ast.walk(n.test):
                    if not (isinstance(cmp_, ast.Compare) and core.src(cmp_.left) == "conf_key"):
                        continue
                    comp = cmp_.comparators[0]
                    keys = []
                    if isinstance(cmp_.ops[0], ast.Eq) and isinstance(comp, ast.Constant):
                        keys = [comp.value]
                    elif isinstance(cmp_.ops[0], ast.In) and isinstance(comp, (ast.Tuple, ast.List)):
                        keys = [e.value for e in comp.elts if isinstance(e, ast.Constant)]
                    for k in keys:
                        out.setdefault(k, []).append((cls.name, n))
    return out


def set_parameter_names(node) -> set:
    out = set()
    for c in ast.walk(node):
        if isinstance(c, ast.Call) and core.src(c.func) == "self.set_parameter" and c.args and isinstance(c.args[0], ast.Constant):
            out.add(c.args[0].value)
    return out


def settings_consumers(rel=SETT):
    """{param name: [setter method names called in the guarded block]} from set_settings/_set_settings.
    A name counts as consumed when it is tested (`"name" in params`) or read (`params["name"]`)."""
    tree = core.parse(rel)
    out: dict[str, list] = {}
    for cls in [c for c in ast.walk(tree) if isinstance(c, ast.ClassDef)]:
        for m in cls.body:
            if not (isinstance(m, ast.FunctionDef) and m.name in ("set_settings", "_set_settings")):
                continue
            for n in ast.walk(m):
                if isinstance(n, ast.If):
                    names = []
                    for c in ast.walk(n.test):
                        if isinstance(c, ast.Compare) and isinstance(c.ops[0], ast.In) and isinstance(c.left, ast.Constant) and core.src(c.comparators[0]) == "params":
                            names.append(c.left.value)
                    if not names:
                        continue
                    setters = [c.func.attr for c in ast.walk(n) if isinstance(c, ast.Call) and isinstance(c.func, ast.Attribute) and core.src(c.func.value) == "self._settings"]
                    for name in names:
                        out.setdefault(name, []).extend(setters)
                if isinstance(n, ast.Subscript) and core.src(n.value) == "params" and isinstance(n.slice, ast.Constant):
                    out.setdefault(n.slice.value, [])
    return out


def settings_attrs(rel=SETT):
    """Attributes available on Settings / PhonopySettings: keys of _default dicts; and setter names."""
    tree = core.parse(rel)
    attrs, setters = {}, {}
    for cls in [c for c in ast.walk(tree) if isinstance(c, ast.ClassDef) and c.name.endswith("Settings")]:
        for s in cls.body:
            if isinstance(s, ast.Assign) and core.src(s.targets[0]) == "_default" and isinstance(s.value, ast.Dict):
                attrs[cls.name] = {k.value: core.src(v) for k, v in zip(s.value.keys, s.value.values)}
            if isinstance(s, ast.FunctionDef) and s.name.startswith("set_"):
                # which key does it store?
                keys = [t.slice.value for a in ast.walk(s) if isinstance(a, ast.Assign) for t in a.targets if isinstance(t, ast.Subscript) and core.src(t.value) == "self._v" and isinstance(t.slice, ast.Constant)]
                setters.setdefault(cls.name, {})[s.name] = keys
    return attrs, setters


def documented_tags(rel="doc/setting-tags.md") -> dict[str, int]:
    """Tag names from markdown headings like '### `DIM`' or '(dim-tag)=' anchors with back-ticked names."""
    text = core.read(rel)
    out = {}
    for i, line in enumerate(text.split("\n"), 1):
        m = re.match(r"^#{2,5}\s+(.*)$", line)
        if not m:
            continue
        for t in re.findall(r"`([A-Z][A-Z0-9_]+)`", m.group(1)):
            out.setdefault(t, i)
    return out
