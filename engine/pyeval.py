"""Evaluation of small pure Python functions over a finite domain of inputs (no execution of the repository).

Selection and conversion helpers -- "which primitive matrix does load() use", "which factor converts force constants
from unit u for calculator c" -- are decision tables written as code.  Over a finite domain of inputs the table can be
read off the syntax tree: constants, names, dict / list / tuple literals, subscripts, ``in`` / ``is`` / ``==`` tests,
Boolean operators, arithmetic on numbers, ``if`` / ``elif`` / ``else``, assignments, ``return`` and ``raise``, calls to
functions of the same module (evaluated the same way) and to a few string / dict methods.  Everything else is either
supplied by the caller (``hooks``: callables for named functions / attributes) or *opaque*: a call the evaluator does not
know becomes ``Opaque(name, args)``, a structural value that can be compared but not branched on.  A branch on an
opaque or unknown value raises ``Unknown``: the client reports that it cannot evaluate, never a guess.
"""

from __future__ import annotations

import ast

from engine import core


class Unknown(Exception):
    pass


class Raised(Exception):
    """the evaluated function raises (value: the exception class name)"""


class Opaque:
    __slots__ = ("name", "args")

    def __init__(self, name, args=()):
        self.name, self.args = name, tuple(args)

    def __eq__(self, other):
        return isinstance(other, Opaque) and (self.name, self.args) == (other.name, other.args)

    def __hash__(self):
        return hash((self.name, self.args))

    def __repr__(self):
        return f"{self.name}({', '.join(map(repr, self.args))})"


class _Return(Exception):
    def __init__(self, v):
        self.v = v


def _freeze(v):
    if isinstance(v, list):
        return tuple(_freeze(x) for x in v)
    if isinstance(v, dict):
        return tuple(sorted((k, _freeze(x)) for k, x in v.items()))
    return v


class Evaluator:
    def __init__(self, module_tree: ast.Module | None = None, hooks: dict | None = None, consts: dict | None = None, where: str = "", depth: int = 0):
        self.fns = {n.name: n for n in (module_tree.body if module_tree else []) if isinstance(n, ast.FunctionDef)}
        self.hooks = hooks or {}
        self.consts = consts or {}
        self.where = where
        self.depth = depth

    # ------------------------------------------------------------------------------------------------------------
    def call(self, fn: ast.FunctionDef, args: list, kwargs: dict | None = None):
        kwargs = dict(kwargs or {})
        env = {}
        params = fn.args.posonlyargs + fn.args.args
        defaults = [None] * (len(params) - len(fn.args.defaults)) + list(fn.args.defaults)
        for i, (p, d) in enumerate(zip(params, defaults)):
            if i < len(args):
                env[p.arg] = args[i]
            elif p.arg in kwargs:
                env[p.arg] = kwargs.pop(p.arg)
            elif d is not None:
                env[p.arg] = self.ev(d, {})
            else:
                raise Unknown(f"argument '{p.arg}' of {fn.name} not supplied")
        for p, d in zip(fn.args.kwonlyargs, fn.args.kw_defaults):
            if p.arg in kwargs:
                env[p.arg] = kwargs.pop(p.arg)
            elif d is not None:
                env[p.arg] = self.ev(d, {})
        try:
            self.block(fn.body, env)
        except _Return as r:
            return r.v
        return None

    def block(self, stmts, env):
        for st in stmts:
            if isinstance(st, ast.Expr):
                if isinstance(st.value, ast.Constant):
                    continue
                try:
                    self.ev(st.value, env)
                except Unknown:
                    pass  # a statement evaluated for its effect (print, warnings): not part of the table
                continue
            if isinstance(st, ast.Assign):
                v = self.ev(st.value, env)
                for t in st.targets:
                    self.bind(t, v, env)
                continue
            if isinstance(st, ast.AnnAssign) and st.value is not None:
                self.bind(st.target, self.ev(st.value, env), env)
                continue
            if isinstance(st, ast.AugAssign) and isinstance(st.target, ast.Name):
                env[st.target.id] = self.ev(ast.BinOp(left=ast.Name(id=st.target.id, ctx=ast.Load()), op=st.op, right=st.value), env)
                continue
            if isinstance(st, ast.If):
                t = self.truth(self.ev(st.test, env), st.test)
                self.block(st.body if t else st.orelse, env)
                continue
            if isinstance(st, ast.Return):
                raise _Return(self.ev(st.value, env) if st.value is not None else None)
            if isinstance(st, ast.Raise):
                name = "Exception"
                if st.exc is not None:
                    f = st.exc.func if isinstance(st.exc, ast.Call) else st.exc
                    name = core.src(f)
                raise Raised(name)
            if isinstance(st, ast.Pass):
                continue
            if isinstance(st, (ast.Import, ast.ImportFrom)):
                continue
            if isinstance(st, ast.For) and isinstance(st.target, ast.Name):
                it = self.ev(st.iter, env)
                if not isinstance(it, (list, tuple, dict)):
                    raise Unknown(f"loop over '{core.norm(core.src(st.iter), 40)}'")
                for x in it:
                    env[st.target.id] = x
                    self.block(st.body, env)
                continue
            raise Unknown(f"statement '{core.norm(core.src(st), 50)}'")

    def bind(self, t, v, env):
        if isinstance(t, ast.Name):
            env[t.id] = v
        elif isinstance(t, (ast.Tuple, ast.List)) and isinstance(v, (list, tuple)) and len(v) == len(t.elts):
            for x, y in zip(t.elts, v):
                self.bind(x, y, env)
        elif isinstance(t, ast.Subscript) and isinstance(t.value, ast.Name) and isinstance(env.get(t.value.id), dict):
            env[t.value.id][self.ev(t.slice, env)] = v
        elif isinstance(t, ast.Attribute):
            env[core.src(t)] = v
        else:
            raise Unknown(f"assignment target '{core.norm(core.src(t), 40)}'")

    def truth(self, v, node):
        if isinstance(v, Opaque):
            raise Unknown(f"branch on '{core.norm(core.src(node), 50)}' (value {v!r})")
        return bool(v)

    # ------------------------------------------------------------------------------------------------------------
    def ev(self, e, env):
        if isinstance(e, ast.Constant):
            return e.value
        if isinstance(e, ast.Name):
            if e.id in env:
                return env[e.id]
            if e.id in self.consts:
                return self.consts[e.id]
            if e.id in ("True", "False", "None"):
                return {"True": True, "False": False, "None": None}[e.id]
            if e.id in ("np", "numpy", "os", "sys", "math", "warnings", "pathlib"):
                return Opaque("module:" + e.id)
            if getattr(self, "lenient_names", False):
                return Opaque("name:" + e.id)
            raise Unknown(f"name '{e.id}'")
        if isinstance(e, ast.JoinedStr):
            return Opaque("fstring", ())
        if isinstance(e, ast.Dict):
            return {self.ev(k, env): self.ev(v, env) for k, v in zip(e.keys, e.values)}
        if isinstance(e, (ast.List, ast.Tuple)):
            return [self.ev(x, env) for x in e.elts]
        if isinstance(e, ast.Attribute):
            key = core.src(e)
            if key in self.hooks:
                h = self.hooks[key]
                return h(env) if callable(h) else h
            if key in self.consts:
                return self.consts[key]
            base = self.ev(e.value, env)
            if isinstance(base, dict) and e.attr in base:
                return base[e.attr]
            if isinstance(base, Opaque) and ("attr:" + e.attr) in self.hooks:
                h = self.hooks["attr:" + e.attr]
                return h(base) if callable(h) else h
            return Opaque("attr:" + e.attr, (_freeze(base),))
        if isinstance(e, ast.Slice):
            lo = self.ev(e.lower, env) if e.lower is not None else None
            hi = self.ev(e.upper, env) if e.upper is not None else None
            st_ = self.ev(e.step, env) if e.step is not None else None
            return ("slice", lo, hi, st_)
        if isinstance(e, ast.Subscript):
            base = self.ev(e.value, env)
            k = self.ev(e.slice, env)
            if isinstance(k, tuple) and len(k) == 4 and k[0] == "slice" and isinstance(base, (list, tuple, str)) and all(x is None or isinstance(x, int) for x in k[1:]):
                return base[slice(k[1], k[2], k[3])]
            if isinstance(base, dict):
                if k in base:
                    return base[k]
                raise Raised("KeyError")
            if isinstance(base, (list, tuple, str)) and isinstance(k, int):
                return base[k]
            return Opaque("item", (_freeze(base), _freeze(k)))
        if isinstance(e, ast.UnaryOp):
            v = self.ev(e.operand, env)
            if isinstance(e.op, ast.Not):
                return not self.truth(v, e.operand)
            if isinstance(e.op, ast.USub) and isinstance(v, (int, float)):
                return -v
            return Opaque("unary", (_freeze(v),))
        if isinstance(e, ast.BoolOp):
            last = None
            for x in e.values:
                last = self.ev(x, env)
                t = self.truth(last, x)
                if isinstance(e.op, ast.And) and not t:
                    return last
                if isinstance(e.op, ast.Or) and t:
                    return last
            return last
        if isinstance(e, ast.IfExp):
            return self.ev(e.body if self.truth(self.ev(e.test, env), e.test) else e.orelse, env)
        if isinstance(e, ast.Compare):
            left = self.ev(e.left, env)
            for op, c in zip(e.ops, e.comparators):
                right = self.ev(c, env)
                if isinstance(op, (ast.Is, ast.IsNot)):
                    r = (left is right) if (left is None or right is None or isinstance(left, bool) or isinstance(right, bool)) else (_freeze(left) == _freeze(right))
                    r = r if isinstance(op, ast.Is) else not r
                elif isinstance(op, (ast.Eq, ast.NotEq)):
                    r = _freeze(left) == _freeze(right)
                    r = r if isinstance(op, ast.Eq) else not r
                elif isinstance(op, (ast.In, ast.NotIn)):
                    if isinstance(right, Opaque):
                        raise Unknown(f"membership in '{core.norm(core.src(c), 40)}'")
                    r = left in right
                    r = r if isinstance(op, ast.In) else not r
                elif isinstance(left, (int, float)) and isinstance(right, (int, float)):
                    r = {ast.Lt: left < right, ast.LtE: left <= right, ast.Gt: left > right, ast.GtE: left >= right}[type(op)]
                else:
                    raise Unknown(f"comparison '{core.norm(core.src(e), 50)}'")
                if not r:
                    return False
                left = right
            return True
        if isinstance(e, ast.BinOp):
            a, b = self.ev(e.left, env), self.ev(e.right, env)
            if isinstance(a, (int, float)) and isinstance(b, (int, float)) and not isinstance(a, bool) and not isinstance(b, bool):
                try:
                    if isinstance(e.op, ast.Add):
                        return a + b
                    if isinstance(e.op, ast.Sub):
                        return a - b
                    if isinstance(e.op, ast.Mult):
                        return a * b
                    if isinstance(e.op, ast.Div):
                        return a / b
                    if isinstance(e.op, ast.Pow):
                        return a**b
                    if isinstance(e.op, ast.FloorDiv):
                        return a // b
                    if isinstance(e.op, ast.Mod):
                        return a % b
                except ZeroDivisionError:
                    raise Raised("ZeroDivisionError")
            if isinstance(a, str) and isinstance(e.op, (ast.Add, ast.Mod)):
                return Opaque("str", ())
            return Opaque("binop:" + type(e.op).__name__, (_freeze(a), _freeze(b)))
        if isinstance(e, (ast.ListComp, ast.GeneratorExp)) and all(isinstance(g.target, ast.Name) for g in e.generators):
            out = []

            def rec(k, env_):
                if k == len(e.generators):
                    out.append(self.ev(e.elt, env_))
                    return
                g = e.generators[k]
                it = self.ev(g.iter, env_)
                if not isinstance(it, (list, tuple, dict)):
                    raise Unknown(f"comprehension over '{core.norm(core.src(g.iter), 40)}'")
                for x in it:
                    env2 = dict(env_)
                    env2[g.target.id] = x
                    if all(self.truth(self.ev(c, env2), c) for c in g.ifs):
                        rec(k + 1, env2)

            rec(0, env)
            return out
        if isinstance(e, ast.Call) and isinstance(e.func, ast.Name) and e.func.id in ("any", "all") and e.func.id not in self.hooks and len(e.args) == 1:
            v = self.ev(e.args[0], env)
            if isinstance(v, (list, tuple)):
                return (any if e.func.id == "any" else all)(self.truth(x, e.args[0]) for x in v)
        if isinstance(e, ast.Call) and isinstance(e.func, ast.Attribute) and e.func.attr == "append" and isinstance(e.func.value, ast.Name) and isinstance(env.get(e.func.value.id), list) and len(e.args) == 1:
            env[e.func.value.id].append(self.ev(e.args[0], env))
            return None
        if isinstance(e, ast.Call) and isinstance(e.func, ast.Name) and e.func.id == "range" and "range" not in self.hooks:
            a = [self.ev(x, env) for x in e.args]
            if all(isinstance(x, int) for x in a):
                return list(range(*a))
        if isinstance(e, ast.Call):
            f = core.src(e.func)
            if f in self.hooks:
                args = [self.ev(a, env) for a in e.args]
                kw = {k.arg: self.ev(k.value, env) for k in e.keywords if k.arg}
                return self.hooks[f](*args, **kw)
            if isinstance(e.func, ast.Attribute) and ("call:" + e.func.attr) in self.hooks:
                args = [self.ev(a, env) for a in e.args]
                kw = {k.arg: self.ev(k.value, env) for k in e.keywords if k.arg}
                return self.hooks["call:" + e.func.attr](*args, **kw)
            if isinstance(e.func, ast.Attribute) and e.func.attr in ("replace", "lower", "upper", "strip", "get", "copy", "keys", "values", "items"):
                base = self.ev(e.func.value, env)
                args = [self.ev(a, env) for a in e.args]
                if isinstance(base, str) and e.func.attr in ("replace", "lower", "upper", "strip"):
                    return getattr(base, e.func.attr)(*args)
                if isinstance(base, dict):
                    if e.func.attr == "get":
                        return base.get(args[0], args[1] if len(args) > 1 else None)
                    if e.func.attr == "copy":
                        return dict(base)
                    return list(getattr(base, e.func.attr)())
            if isinstance(e.func, ast.Name) and e.func.id in self.fns and self.depth < 6:
                args = [self.ev(a, env) for a in e.args]
                kw = {k.arg: self.ev(k.value, env) for k in e.keywords if k.arg}
                sub = Evaluator(None, self.hooks, self.consts, self.where, self.depth + 1)
                sub.fns = self.fns
                sub.lenient_names = getattr(self, "lenient_names", False)
                return sub.call(self.fns[e.func.id], args, kw)
            if f in ("float", "int") and len(e.args) == 1:
                v = self.ev(e.args[0], env)
                if isinstance(v, (int, float)):
                    return float(v) if f == "float" else int(v)
            if f in ("isinstance", "print", "warnings.warn"):
                raise Unknown(f"call '{f}'")
            args = []
            for a in e.args:
                args.append(_freeze(self.ev(a, env)))
            for k in e.keywords:
                if k.arg:
                    args.append((k.arg, _freeze(self.ev(k.value, env))))
            return Opaque(f, args)
        raise Unknown(f"expression '{core.norm(core.src(e), 50)}'")
