"""E5 — algebraic normal form of straight-line source expressions (sympy).

A function body made of assignments, `if` with returns and one `return` per
branch is turned into a list of (branch-conditions, expression) by def-use
substitution of its locals.  No loop is ever unrolled and no path condition is
solved: the branch conditions are carried as *text* so that the rules can pick
the branch syntactically (e.g. `classical` true/false).  The source language's
typing is honoured: C `int / int` is floor division, Python `/` is true division.
"""

from __future__ import annotations

import ast
from typing import Callable

import sympy as sp

from . import cast, core
from .core import AnalysisError

FUNCS = {
    "exp": sp.exp,
    "log": sp.log,
    "sqrt": sp.sqrt,
    "cosh": sp.cosh,
    "sinh": sp.sinh,
    "tanh": sp.tanh,
    "cos": sp.cos,
    "sin": sp.sin,
    "abs": sp.Abs,
    "fabs": sp.Abs,
    "sign": sp.sign,
    "expm1": lambda x: sp.exp(x) - 1,
    "log1p": lambda x: sp.log(1 + x),
    "coth": sp.coth,
}


class SymAlg:
    """sympy as the value algebra (exact rational arithmetic for short literals)."""

    def const(self, v):
        if isinstance(v, int):
            return sp.Integer(v)
        return sp.nsimplify(sp.Float(repr(v)), rational=True) if _short_float(v) else sp.Float(repr(v), 30)

    def func(self, name, x):
        return FUNCS[name](x)

    def floordiv(self, a, b):
        q = a / b
        return q if q.is_integer else sp.floor(q)

    def pi(self):
        return sp.pi


class Branch:
    def __init__(self, conds, expr, env=None):
        self.conds = tuple(conds)  # ((text, truth), ...)
        self.expr = expr
        self.env = env or {}

    def __repr__(self):
        return f"Branch({self.conds}, {self.expr})"


def select(branches: list[Branch], **want) -> Branch:
    """Pick the unique branch whose conditions match want: {cond_text: truth}."""
    hits = []
    for b in branches:
        d = dict(b.conds)
        # a path that does not test a condition is the path for both of its values
        if all(d.get(k, v) == v for k, v in want.items()):
            hits.append(b)
    if len(hits) != 1:
        raise AnalysisError(f"expected one branch for {want}, found {len(hits)}: {[b.conds for b in branches]}")
    return hits[0]


# ---------------------------------------------------------------------------
# Python
# ---------------------------------------------------------------------------


def local_env(tr, fn: ast.AST) -> dict:
    """Temporaries of a function for a closed-form translator: every local name that is assigned exactly once, by a
    plain assignment whose value the translator can evaluate (in source order, earlier temporaries inlined).  Names
    assigned more than once, loop targets and anything the translator does not understand stay out of the environment,
    so that a rule that meets them ends as before (AnalysisError), never with a guess."""
    count: dict[str, int] = {}
    for n in ast.walk(fn):
        if isinstance(n, ast.Name) and isinstance(n.ctx, ast.Store):
            count[n.id] = count.get(n.id, 0) + 1
    env: dict = {}
    assigns = sorted((n for n in ast.walk(fn) if isinstance(n, ast.Assign) and len(n.targets) == 1 and isinstance(n.targets[0], ast.Name)), key=lambda n: (n.lineno, n.col_offset))
    for a in assigns:
        nm = a.targets[0].id
        if count.get(nm) != 1 or nm in tr.names:
            continue
        try:
            env[nm] = tr.expr(a.value, env)
        except AnalysisError:
            continue
    return env


class PyTranslator:
    """names: mapping of free names (module constants, parameters) to sympy values;
    call_hook(node, args, tr) may return a sympy value for calls the default does not know;
    attr_hook(text) for `self._x`-like attribute reads; sub_hook(text, node, tr) for subscripts."""

    def __init__(
        self,
        names: dict,
        call_hook: Callable | None = None,
        attr_hook: Callable | None = None,
        sub_hook: Callable | None = None,
        where: str = "",
        alg=None,
    ):
        self.alg = alg or SymAlg()
        self.names = dict(names)
        self.call_hook = call_hook
        self.attr_hook = attr_hook
        self.sub_hook = sub_hook
        self.where = where

    # expressions -----------------------------------------------------------
    def expr(self, n: ast.AST, env: dict):
        if isinstance(n, ast.Constant):
            if isinstance(n.value, (int, float)) and not isinstance(n.value, bool):
                return self.alg.const(n.value)
            if isinstance(n.value, complex) and isinstance(self.alg, SymAlg):
                return self.alg.const(n.value.real) + sp.I * self.alg.const(n.value.imag) if n.value.real else sp.I * self.alg.const(n.value.imag)
            if n.value is Ellipsis:
                return sp.Symbol("Ellipsis")
            raise AnalysisError(f"{self.where}: unsupported constant {n.value!r}")
        if isinstance(n, ast.Name):
            if n.id in env:
                return env[n.id]
            if n.id in self.names:
                return self.names[n.id]
            raise AnalysisError(f"{self.where}: free name '{n.id}' has no symbolic meaning")
        if isinstance(n, ast.BinOp):
            a, b = self.expr(n.left, env), self.expr(n.right, env)
            if isinstance(a, sp.Tuple) or isinstance(b, sp.Tuple) or not (hasattr(a, "__add__") and hasattr(b, "__add__")):
                # sequence arithmetic (tuple concatenation, list repetition): an uninterpreted operation
                return sp.Function("seq_" + type(n.op).__name__)(a, b)
            if isinstance(n.op, ast.Add):
                return a + b
            if isinstance(n.op, ast.Sub):
                return a - b
            if isinstance(n.op, ast.Mult):
                return a * b
            if isinstance(n.op, ast.Div):
                return a / b
            if isinstance(n.op, ast.Pow):
                return a**b
            if isinstance(n.op, ast.FloorDiv):
                return self.alg.floordiv(a, b)
            raise AnalysisError(f"{self.where}: unsupported operator {type(n.op).__name__}")
        if isinstance(n, ast.UnaryOp):
            v = self.expr(n.operand, env)
            if isinstance(n.op, ast.USub):
                return -v
            if isinstance(n.op, ast.UAdd):
                return v
            raise AnalysisError(f"{self.where}: unsupported unary {type(n.op).__name__}")
        if isinstance(n, ast.Call):
            fname = core.src(n.func)
            base = fname.split(".")[-1]
            args = None
            if self.call_hook is not None:
                r = self.call_hook(n, self, env)
                if r is not None:
                    return r
            if fname.split(".")[0] in ("np", "numpy", "math") or fname in FUNCS:
                if base in FUNCS and len(n.args) == 1 and not n.keywords:
                    return self.alg.func(base, self.expr(n.args[0], env))
                if base in ("float", "float64", "double") and len(n.args) == 1:
                    return self.expr(n.args[0], env)
            if fname in ("float", "abs") and len(n.args) == 1:
                v = self.expr(n.args[0], env)
                return self.alg.func("abs", v) if fname == "abs" else v
            raise AnalysisError(f"{self.where}: call '{core.src(n)}' has no algebraic meaning")
        if isinstance(n, ast.Attribute):
            t = core.src(n)
            if t in ("np.pi", "numpy.pi", "math.pi"):
                return self.alg.pi()
            if t in self.names:
                return self.names[t]
            if self.attr_hook is not None:
                r = self.attr_hook(t)
                if r is not None:
                    return r
            raise AnalysisError(f"{self.where}: attribute '{t}' has no symbolic meaning")
        if isinstance(n, ast.Subscript):
            t = core.src(n)
            if t in env:
                return env[t]
            if t in self.names:
                return self.names[t]
            if self.sub_hook is not None:
                r = self.sub_hook(t, n, self, env)
                if r is not None:
                    return r
            raise AnalysisError(f"{self.where}: subscript '{t}' has no symbolic meaning")
        if isinstance(n, ast.IfExp):
            raise AnalysisError(f"{self.where}: conditional expression not supported")
        raise AnalysisError(f"{self.where}: unsupported expression {type(n).__name__}: {core.src(n)}")

    # statements --------------------------------------------------------------
    def function(self, fn: ast.FunctionDef, env: dict | None = None) -> list[Branch]:
        out: list[Branch] = []
        self._block(fn.body, dict(env or {}), [], out)
        if not out:
            raise AnalysisError(f"{self.where}: no return found in {fn.name}")
        return out

    def _block(self, stmts, env, conds, out) -> bool:
        """Returns True if every path through stmts returned."""
        for i, s in enumerate(stmts):
            if isinstance(s, ast.Expr) and isinstance(s.value, ast.Constant):
                continue
            if isinstance(s, ast.Pass):
                continue
            if isinstance(s, (ast.Assign, ast.AnnAssign)):
                targets = s.targets if isinstance(s, ast.Assign) else [s.target]
                if s.value is None:
                    continue
                if len(targets) != 1:
                    raise AnalysisError(f"{self.where}: chained assignment")
                t = targets[0]
                if isinstance(t, ast.Name):
                    env[t.id] = self.expr(s.value, env)
                elif isinstance(t, ast.Tuple) and isinstance(s.value, ast.Tuple) and len(t.elts) == len(s.value.elts):
                    vals = [self.expr(v, env) for v in s.value.elts]
                    for tt, v in zip(t.elts, vals):
                        if not isinstance(tt, ast.Name):
                            raise AnalysisError(f"{self.where}: unsupported target {core.src(tt)}")
                        env[tt.id] = v
                elif isinstance(t, ast.Tuple) and isinstance(s.value, (ast.Name, ast.Attribute)) and all(isinstance(tt, ast.Name) for tt in t.elts):
                    # unpacking a sequence: e0, b0, bp, v0 = p   ->   p[0], p[1], ...
                    for k_, tt in enumerate(t.elts):
                        env[tt.id] = self.expr(ast.Subscript(value=s.value, slice=ast.Constant(value=k_), ctx=ast.Load()), env)
                elif isinstance(t, ast.Subscript):
                    env[core.src(t)] = self.expr(s.value, env)
                else:
                    raise AnalysisError(f"{self.where}: unsupported assignment target {core.src(t)}")
                continue
            if isinstance(s, ast.AugAssign) and isinstance(s.target, ast.Name):
                cur = self.expr(s.target, env)
                v = self.expr(s.value, env)
                env[s.target.id] = self.expr(
                    ast.BinOp(left=ast.Name(id="__cur"), op=s.op, right=ast.Name(id="__v")),
                    {**env, "__cur": cur, "__v": v},
                )
                continue
            if isinstance(s, ast.Return):
                if s.value is None:
                    raise AnalysisError(f"{self.where}: bare return")
                out.append(Branch(conds, self.expr(s.value, env), dict(env)))
                return True
            if isinstance(s, ast.If):
                ctext = core.src(s.test)
                env_t, env_f = dict(env), dict(env)
                rt = self._block(s.body, env_t, conds + [(ctext, True)], out)
                rf = self._block(s.orelse, env_f, conds + [(ctext, False)], out) if s.orelse else False
                if rt and rf:
                    return True
                if rt and not rf:
                    env.clear()
                    env.update(env_f)
                    conds = conds + [(ctext, False)]
                    continue
                if rf and not rt:
                    env.clear()
                    env.update(env_t)
                    conds = conds + [(ctext, True)]
                    continue
                # neither branch returned: continue on both paths separately
                rest = stmts[i + 1 :]
                a = self._block(rest, env_t, conds + [(ctext, True)], out)
                b = self._block(rest, env_f, conds + [(ctext, False)], out)
                return a and b
            if isinstance(s, ast.Raise):
                return True
            if isinstance(s, (ast.FunctionDef, ast.Import, ast.ImportFrom)):
                continue
            raise AnalysisError(
                f"{self.where}: statement kind {type(s).__name__} is outside the straight-line fragment: {core.norm(core.src(s), 80)}"
            )
        return False


def _short_float(v: float) -> bool:
    r = repr(v)
    return len(r.replace("-", "").replace(".", "")) <= 8 and "e" not in r


# ---------------------------------------------------------------------------
# C (clang JSON)
# ---------------------------------------------------------------------------


class CTranslator:
    def __init__(self, names: dict, call_hook: Callable | None = None, sub_hook: Callable | None = None, where: str = "", alg=None):
        self.alg = alg or SymAlg()
        self.names = dict(names)
        self.call_hook = call_hook
        self.sub_hook = sub_hook
        self.where = where

    def expr(self, e: dict, env: dict):
        k = e.get("kind")
        ks = cast.kids(e)
        if k in ("ParenExpr", "ConstantExpr"):
            return self.expr(ks[0], env)
        if k == "ImplicitCastExpr" or k == "CStyleCastExpr":
            v = self.expr(ks[0], env)
            ck = e.get("castKind")
            if ck == "FloatingToIntegral":
                raise AnalysisError(f"{self.where}: float->int truncation not modelled: {cast.text(e)}")
            return v
        if k == "IntegerLiteral":
            return self.alg.const(int(e["value"]))
        if k == "FloatingLiteral":
            return self.alg.const(float(e["value"]))
        if k == "DeclRefExpr":
            nm = e.get("referencedDecl", {}).get("name")
            if nm in env:
                return env[nm]
            if nm in self.names:
                return self.names[nm]
            raise AnalysisError(f"{self.where}: free C name '{nm}' has no symbolic meaning")
        if k == "UnaryOperator":
            op = e.get("opcode")
            v = self.expr(ks[0], env)
            if op == "-":
                return -v
            if op == "+":
                return v
            raise AnalysisError(f"{self.where}: unsupported C unary '{op}'")
        if k == "BinaryOperator":
            op = e.get("opcode")
            a, b = self.expr(ks[0], env), self.expr(ks[1], env)
            if op == "+":
                return a + b
            if op == "-":
                return a - b
            if op == "*":
                return a * b
            if op == "/":
                if cast.is_int_type(cast.qtype(ks[0])) and cast.is_int_type(cast.qtype(ks[1])):
                    return self.alg.floordiv(a, b)  # C integer division (operands non-negative here)
                return a / b
            raise AnalysisError(f"{self.where}: unsupported C operator '{op}'")
        if k == "CallExpr":
            nm = cast.callee_name(e)
            if self.call_hook is not None:
                r = self.call_hook(nm, ks[1:], self, env)
                if r is not None:
                    return r
            if nm in FUNCS and len(ks) == 2:
                return self.alg.func(nm, self.expr(ks[1], env))
            if nm == "pow" and len(ks) == 3:
                return self.expr(ks[1], env) ** self.expr(ks[2], env)
            raise AnalysisError(f"{self.where}: C call '{nm}' has no algebraic meaning")
        if k == "ArraySubscriptExpr":
            t = cast.text(e)
            if t in env:
                return env[t]
            if t in self.names:
                return self.names[t]
            if self.sub_hook is not None:
                r = self.sub_hook(t, e, self, env)
                if r is not None:
                    return r
            raise AnalysisError(f"{self.where}: C subscript '{t}' has no symbolic meaning")
        raise AnalysisError(f"{self.where}: unsupported C expression kind {k}: {cast.text(e)}")

    def function(self, fn: dict, env: dict | None = None) -> list[Branch]:
        out: list[Branch] = []
        self._block(cast.kids(cast.body(fn)), dict(env or {}), [], out)
        if not out:
            raise AnalysisError(f"{self.where}: no return in C function {fn.get('name')}")
        return out

    def _block(self, stmts, env, conds, out) -> bool:
        for i, s in enumerate(stmts):
            k = s.get("kind")
            ks = cast.kids(s)
            if k == "DeclStmt":
                for d in ks:
                    if d.get("kind") == "VarDecl" and cast.kids(d):
                        env[d["name"]] = self.expr(cast.kids(d)[0], env)
                continue
            if k == "NullStmt":
                continue
            if k == "BinaryOperator" and s.get("opcode") == "=":
                lhs = cast.strip(ks[0])
                if lhs.get("kind") == "DeclRefExpr":
                    env[lhs["referencedDecl"]["name"]] = self.expr(ks[1], env)
                elif lhs.get("kind") == "ArraySubscriptExpr":
                    env[cast.text(lhs)] = self.expr(ks[1], env)
                else:
                    raise AnalysisError(f"{self.where}: unsupported C lvalue {cast.text(lhs)}")
                continue
            if k == "CompoundAssignOperator":
                lhs = cast.strip(ks[0])
                key = lhs["referencedDecl"]["name"] if lhs.get("kind") == "DeclRefExpr" else cast.text(lhs)
                cur = env[key] if key in env else self.expr(ks[0], env)
                v = self.expr(ks[1], env)
                op = s.get("opcode")
                env[key] = {"+=": cur + v, "-=": cur - v, "*=": cur * v, "/=": cur / v}[op]
                continue
            if k == "ReturnStmt":
                if not ks:
                    out.append(Branch(conds, sp.Integer(0), dict(env)))
                    return True
                out.append(Branch(conds, self.expr(ks[0], env), dict(env)))
                return True
            if k == "CompoundStmt":
                if self._block(ks, env, conds, out):
                    return True
                continue
            if k == "IfStmt":
                ctext = cast.text(ks[0])
                then = ks[1]
                els = ks[2] if len(ks) > 2 else None
                env_t, env_f = dict(env), dict(env)
                rt = self._block([then], env_t, conds + [(ctext, True)], out)
                rf = self._block([els], env_f, conds + [(ctext, False)], out) if els is not None else False
                if rt and rf:
                    return True
                if rt and not rf:
                    env.clear()
                    env.update(env_f)
                    conds = conds + [(ctext, False)]
                    continue
                if rf and not rt:
                    env.clear()
                    env.update(env_t)
                    conds = conds + [(ctext, True)]
                    continue
                rest = stmts[i + 1 :]
                a = self._block(rest, env_t, conds + [(ctext, True)], out)
                b = self._block(rest, env_f, conds + [(ctext, False)], out)
                return a and b
            if k == "ForStmt":
                trip = self._const_trip(s)
                if trip is None:
                    raise AnalysisError(f"{self.where}: C loop without literal bounds is outside the straight-line fragment")
                var, lo, hi = trip
                body = cast.kids(s)[-1]
                for v in range(lo, hi):
                    env[var] = self.alg.const(v)
                    if self._block([body], env, conds, out):
                        return True
                continue
            raise AnalysisError(f"{self.where}: C statement kind {k} is outside the straight-line fragment")
        return False

    @staticmethod
    def _const_trip(s):
        """(var, lo, hi) of `for (v = <int>; v < <int>; v++)`, else None."""
        ks = [x for x in s.get("inner", []) if isinstance(x, dict)]
        real = [x for x in ks if x.get("kind")]
        if len(real) < 4:
            return None
        init, cond, inc = real[0], real[-3], real[-2]
        if not (init.get("kind") == "BinaryOperator" and init.get("opcode") == "="):
            return None

        def unwrap(e):
            while e.get("kind") in ("ImplicitCastExpr", "ParenExpr", "CStyleCastExpr") and cast.kids(e):
                e = cast.kids(e)[0]
            return e

        a, b = (unwrap(x) for x in cast.kids(init))
        if a.get("kind") != "DeclRefExpr" or b.get("kind") != "IntegerLiteral":
            return None
        var, lo = a["referencedDecl"]["name"], int(b["value"])
        cond = unwrap(cond)
        if not (cond.get("kind") == "BinaryOperator" and cond.get("opcode") == "<"):
            return None
        ca, cb = (unwrap(x) for x in cast.kids(cond))
        if ca.get("kind") != "DeclRefExpr" or ca["referencedDecl"]["name"] != var or cb.get("kind") != "IntegerLiteral":
            return None
        hi = int(cb["value"])
        if inc.get("kind") != "UnaryOperator" or inc.get("opcode") != "++":
            return None
        if hi - lo > 32:
            return None
        return var, lo, hi


# ---------------------------------------------------------------------------
# normalisation strategies
# ---------------------------------------------------------------------------


def rational_witness(e):
    """For an expression built from + - * / and integer powers of symbols: a rational point at which it is not zero
    (exact arithmetic), or None if it vanishes at two generic points / is not of that kind.  A witness proves that a
    rational function is not identically zero without expanding it."""
    e = sp.sympify(e)
    if e.atoms(sp.Function) or any(not p.exp.is_Integer for p in e.atoms(sp.Pow)):
        return None
    syms = sorted(e.free_symbols, key=str)
    for primes in ((2, 3, 5, 7, 11, 13, 17, 19, 23, 29, 31, 37, 41, 43), (53, 47, 59, 61, 67, 71, 73, 79, 83, 89, 97, 101, 103, 107)):
        if len(syms) > len(primes):
            return None
        pt = {s_: sp.Rational(p_, 1) + sp.Rational(1, 1 + k_) for k_, (s_, p_) in enumerate(zip(syms, primes))}
        try:
            v = e.subs(pt)
            v = sp.nsimplify(v) if not v.is_Rational else v
        except Exception:
            continue
        if v.is_Rational and v != 0 and v.is_finite:
            return {str(k_): str(x) for k_, x in pt.items()}, v
    return None


def is_zero(e, strategies=("cancel", "simplify", "boltzmann"), boltz=None) -> tuple[bool, str]:
    """Try to show e == 0 identically. Returns (ok, strategy or residual)."""
    e = sp.sympify(e)
    if e == 0:
        return True, "syntactic"
    w = rational_witness(e)
    if w is not None:
        return False, f"non-zero ({w[1]}) at {w[0]}"[:200]
    # rational functions are decided exactly by their numerator: a non-zero polynomial numerator means "not zero"
    # (and saves the slow simplification strategies on unequal closed forms)
    try:
        if not e.atoms(sp.Function) and not e.atoms(sp.Pow) - {p for p in e.atoms(sp.Pow) if p.exp.is_Integer}:
            num = sp.expand(sp.numer(sp.together(e)))
            if num == 0:
                return True, "rational"
            if num.is_polynomial(*num.free_symbols):
                return False, str(sp.factor_terms(num))[:200]
    except Exception:
        pass
    for s in strategies:
        try:
            if s == "cancel":
                r = sp.cancel(sp.together(sp.expand(e)))
            elif s == "simplify":
                r = sp.simplify(e)
            elif s == "rewrite_exp":
                r = sp.simplify(e.rewrite(sp.exp))
            elif s == "boltzmann":
                if boltz is None:
                    continue
                r = boltz(e)
            elif s == "factor":
                r = sp.factor(e)
            else:
                continue
        except Exception as ex:  # sympy internal failure = not discharged
            r = None
        if r is not None and r == 0:
            return True, s
    return False, str(e)[:200]


def fold_constants(rel: str, extra: dict | None = None) -> dict[str, float]:
    """Evaluate module-level constant expressions of a Python module (units.py):
    names assigned from arithmetic over literals, pi, sqrt and earlier names.
    This is constant folding of the syntax tree, not an import."""
    import math

    tree = core.parse(rel)
    env: dict[str, float] = dict(extra or {})

    def ev(n):
        if isinstance(n, ast.Constant) and isinstance(n.value, (int, float)):
            return n.value
        if isinstance(n, ast.Name):
            if n.id == "pi":
                return math.pi
            if n.id in env:
                return env[n.id]
            raise KeyError(n.id)
        if isinstance(n, ast.BinOp):
            a, b = ev(n.left), ev(n.right)
            return {
                ast.Add: lambda: a + b,
                ast.Sub: lambda: a - b,
                ast.Mult: lambda: a * b,
                ast.Div: lambda: a / b,
                ast.Pow: lambda: a**b,
            }[type(n.op)]()
        if isinstance(n, ast.UnaryOp) and isinstance(n.op, ast.USub):
            return -ev(n.operand)
        if isinstance(n, ast.Call) and core.src(n.func) in ("sqrt", "math.sqrt", "np.sqrt") and len(n.args) == 1:
            return math.sqrt(ev(n.args[0]))
        if isinstance(n, ast.Attribute) and core.src(n) in ("np.pi", "math.pi"):
            return math.pi
        raise KeyError(core.src(n))

    for s in tree.body:
        if isinstance(s, ast.Assign) and len(s.targets) == 1 and isinstance(s.targets[0], ast.Name):
            try:
                env[s.targets[0].id] = ev(s.value)
            except (KeyError, ZeroDivisionError, TypeError):
                pass
    return env


# ---------------------------------------------------------------------------
# Open translation: everything that has no algebraic meaning becomes an
# uninterpreted symbol/function, so two source expressions can be compared
# modulo arithmetic identities, renaming of locals (they are substituted by
# their definitions) and reordering of commutative operands.
# ---------------------------------------------------------------------------


class OpenPyTranslator(PyTranslator):
    """Used for *formula sites* inside larger functions.  `summary(fn)` walks the
    statements once in order; a `for` body is analysed once for a generic
    iteration (the loop variable is a symbol — nothing is unrolled), `try` bodies
    are followed, `if` bodies are followed when `follow_if` is set (both arms write
    into the same environment; a name assigned in both arms differently becomes
    ambiguous and is dropped).  Recorded: final definitions of names/attributes,
    and the arguments of every `<x>.append(...)`."""

    def __init__(self, names=None, where="", rename: dict | None = None, follow_if=True):
        super().__init__(names or {}, where=where)
        self.appends: dict[str, list] = {}
        self.assigned: dict[str, list] = {}
        self.rename = rename or {}
        self.follow_if = follow_if

    def sym(self, text: str):
        text = self.rename.get(text, text)
        return sp.Symbol(text)

    def expr(self, n, env):
        # one spelling for the transpose: np.transpose(x) and x.transpose() without axes are x.T
        if isinstance(n, ast.Call) and not n.keywords and ((core.src(n.func) in ("np.transpose", "numpy.transpose") and len(n.args) == 1) or (isinstance(n.func, ast.Attribute) and n.func.attr == "transpose" and not n.args and not (isinstance(n.func.value, ast.Name) and n.func.value.id in ("np", "numpy")))):
            n = ast.Attribute(value=n.args[0] if n.args else n.func.value, attr="T", ctx=ast.Load())
        # ... and for the matrix product of the 1-D / 2-D operands this code base has: a @ b is np.dot(a, b)
        if isinstance(n, ast.BinOp) and isinstance(n.op, ast.MatMult):
            n = ast.Call(func=ast.Attribute(value=ast.Name(id="np", ctx=ast.Load()), attr="dot", ctx=ast.Load()), args=[n.left, n.right], keywords=[])
        if isinstance(n, ast.Name):
            if n.id in env:
                return env[n.id]
            if n.id in self.names:
                return self.names[n.id]
            return self.sym(n.id)
        if isinstance(n, ast.Attribute):
            t = core.src(n)
            if t in env:
                return env[t]
            if t in self.names:
                return self.names[t]
            if t in ("np.pi", "numpy.pi", "math.pi"):
                return sp.pi
            base = self.expr(n.value, env)
            if isinstance(base, sp.Symbol):
                return self.sym(f"{base.name}.{n.attr}")
            return sp.Function(f".{n.attr}")(base)
        if isinstance(n, ast.Subscript):
            t = core.src(n)
            if t in env:
                return env[t]
            base = self.expr(n.value, env)
            idx = n.slice
            elts = idx.elts if isinstance(idx, ast.Tuple) else [idx]
            args = []
            for e in elts:
                if isinstance(e, ast.Slice):
                    parts = [self.expr(p, env) if p is not None else sp.Symbol("_") for p in (e.lower, e.upper, e.step)]
                    args.append(sp.Function("slice")(*parts))
                else:
                    args.append(self.expr(e, env))
            name = base.name if isinstance(base, sp.Symbol) else str(base)
            return sp.Function(f"{name}[]")(*args)
        if isinstance(n, (ast.List, ast.Tuple)):
            return sp.Tuple(*[self.expr(e, env) for e in n.elts])
        if isinstance(n, ast.Constant) and isinstance(n.value, str):
            return sp.Symbol(repr(n.value))
        if isinstance(n, ast.Constant) and n.value is None:
            return sp.Symbol("None")
        if isinstance(n, ast.Constant) and isinstance(n.value, bool):
            return sp.Symbol(str(n.value))
        if isinstance(n, ast.Call):
            fname = core.src(n.func)
            base = fname.split(".")[-1]
            if (fname.split(".")[0] in ("np", "numpy", "math") or fname in FUNCS) and base in FUNCS and len(n.args) == 1 and not n.keywords:
                return self.alg.func(base, self.expr(n.args[0], env))
            if isinstance(n.func, ast.Attribute) and not _is_module_path(n.func.value):
                recv = self.expr(n.func.value, env)
                args = [recv] + [self.expr(a, env) for a in n.args if not isinstance(a, ast.Starred)]
                fn_name = f".{n.func.attr}()"
            else:
                args = [self.expr(a, env) for a in n.args if not isinstance(a, ast.Starred)]
                fn_name = fname
            for kw in n.keywords:
                if kw.arg is not None:
                    args.append(sp.Function(f"kw:{kw.arg}")(self.expr(kw.value, env)))
            return sp.Function(fn_name)(*args)
        if isinstance(n, ast.Compare) and len(n.ops) == 1:
            return sp.Function(f"cmp:{type(n.ops[0]).__name__}")(self.expr(n.left, env), self.expr(n.comparators[0], env))
        if isinstance(n, ast.BoolOp):
            return sp.Function(f"bool:{type(n.op).__name__}")(*[self.expr(v, env) for v in n.values])
        if isinstance(n, ast.UnaryOp) and isinstance(n.op, ast.Not):
            return sp.Function("not")(self.expr(n.operand, env))
        if isinstance(n, ast.IfExp):
            return sp.Function("ifexp")(self.expr(n.test, env), self.expr(n.body, env), self.expr(n.orelse, env))
        if isinstance(n, ast.BinOp) and isinstance(n.op, (ast.Mod, ast.MatMult, ast.BitAnd, ast.BitOr)):
            return sp.Function(f"op:{type(n.op).__name__}")(self.expr(n.left, env), self.expr(n.right, env))
        if isinstance(n, (ast.ListComp, ast.GeneratorExp)) and len(n.generators) == 1 and not n.generators[0].ifs:
            g = n.generators[0]
            env2 = dict(env)
            it = g.iter
            if isinstance(it, ast.Call) and core.src(it.func) == "zip" and isinstance(g.target, ast.Tuple) and len(it.args) == len(g.target.elts):
                for t, a in zip(g.target.elts, it.args):
                    if isinstance(t, ast.Name):
                        env2[t.id] = sp.Function("each")(self.expr(a, env))
            elif isinstance(g.target, ast.Name):
                env2[g.target.id] = sp.Function("each")(self.expr(it, env))
            else:
                return sp.Symbol("<" + core.norm(core.src(n), 80) + ">")
            return sp.Function("listof")(self.expr(n.elt, env2))
        if isinstance(n, (ast.ListComp, ast.GeneratorExp, ast.Lambda, ast.JoinedStr, ast.Dict, ast.Starred, ast.DictComp, ast.SetComp)):
            return sp.Symbol("<" + core.norm(core.src(n), 80) + ">")
        return super().expr(n, env)

    def summary(self, fn_or_stmts, env: dict | None = None) -> dict:
        env = dict(env or {})
        stmts = fn_or_stmts.body if hasattr(fn_or_stmts, "body") else fn_or_stmts
        self._walk(stmts, env)
        return env

    def _walk(self, stmts, env):
        for s in stmts:
            try:
                self._stmt(s, env)
            except AnalysisError:
                continue  # a statement without algebraic meaning defines nothing we rely on

    def _bind(self, target, value, env):
        if isinstance(target, ast.Name):
            env[target.id] = value
            self.assigned.setdefault(target.id, []).append(value)
        elif isinstance(target, (ast.Attribute, ast.Subscript)):
            key = core.src(target)
            env[key] = value
            self.assigned.setdefault(key, []).append(value)
        elif isinstance(target, (ast.Tuple, ast.List)):
            for k, t in enumerate(target.elts):
                if isinstance(value, sp.Tuple) and len(value) == len(target.elts):
                    self._bind(t, value[k], env)
                else:
                    self._bind(t, sp.Function(f"item{k}")(value), env)

    def _stmt(self, s, env):
        if isinstance(s, ast.Assign):
            v = self.expr(s.value, env)
            # 'x = x op e' is the long spelling of 'x op= e': the accumulation is recorded the same way
            if len(s.targets) == 1 and isinstance(s.value, ast.BinOp) and core.src(s.value.left) == core.src(s.targets[0]) and isinstance(s.value.op, (ast.Add, ast.Sub, ast.Mult, ast.Div)):
                self.appends.setdefault("aug:" + core.src(s.targets[0]), []).append((type(s.value.op).__name__, self.expr(s.value.right, env)))
            for t in s.targets:
                self._bind(t, v, env)
        elif isinstance(s, ast.AnnAssign) and s.value is not None:
            self._bind(s.target, self.expr(s.value, env), env)
        elif isinstance(s, ast.AugAssign):
            cur = self.expr(s.target, env)
            v = self.expr(s.value, env)
            new = super().expr(ast.BinOp(left=ast.Name(id="__cur"), op=s.op, right=ast.Name(id="__v")), {"__cur": cur, "__v": v}) if isinstance(s.op, (ast.Add, ast.Sub, ast.Mult, ast.Div, ast.Pow)) else sp.Function(f"aug:{type(s.op).__name__}")(cur, v)
            self._bind(s.target, new, env)
            self.appends.setdefault("aug:" + core.src(s.target), []).append((type(s.op).__name__, v))
        elif isinstance(s, ast.Expr) and isinstance(s.value, ast.Call):
            c = s.value
            if isinstance(c.func, ast.Attribute) and c.func.attr == "append" and len(c.args) == 1:
                self.appends.setdefault(core.src(c.func.value), []).append(self.expr(c.args[0], env))
        elif isinstance(s, ast.For):
            tv = s.target
            if isinstance(tv, ast.Name):
                env[tv.id] = self.sym(tv.id)
            elif isinstance(tv, ast.Tuple):
                for e in tv.elts:
                    if isinstance(e, ast.Name):
                        env[e.id] = self.sym(e.id)
            self._walk(s.body, env)
        elif isinstance(s, ast.If):
            # both arms in source order: a name bound in both keeps the value of the later arm, an accumulation under a
            # condition is recorded as taking place (the rules that need the condition look at the test themselves)
            self._walk(s.body, env)
            self._walk(s.orelse, env)
        elif isinstance(s, ast.While):
            self._walk(s.body, env)
        elif isinstance(s, ast.With):
            self._walk(s.body, env)
        elif isinstance(s, ast.Try):
            self._walk(s.body, env)
            self._walk(s.orelse, env)
            self._walk(s.finalbody, env)
        elif isinstance(s, ast.If):
            if self.follow_if:
                e1, e2 = dict(env), dict(env)
                self._walk(s.body, e1)
                self._walk(s.orelse, e2)
                for k in set(e1) | set(e2):
                    a, b = e1.get(k), e2.get(k)
                    if a is not None and b is not None and a == b:
                        env[k] = a
                    elif k in env and (a != env.get(k)) != (b != env.get(k)):
                        # assigned in exactly one arm: keep the assigned value (the site rules
                        # look at what a formula is *when* it is computed)
                        env[k] = a if a != env.get(k) else b
                    elif k not in env and (a is None) != (b is None):
                        env[k] = a if a is not None else b
                    else:
                        env.pop(k, None)
        elif isinstance(s, ast.Return) and s.value is not None:
            self.appends.setdefault("<return>", []).append(self.expr(s.value, env))


def _is_module_path(n) -> bool:
    """np, np.linalg, math, ... (a dotted path rooted at a well-known module name)"""
    while isinstance(n, ast.Attribute):
        n = n.value
    return isinstance(n, ast.Name) and n.id in ("np", "numpy", "math", "scipy", "sp", "os", "sys", "warnings", "spglib", "phonoc", "h5py", "yaml")


def open_expr(text: str, rename: dict | None = None, names: dict | None = None):
    """Translate expected-formula text with the same open semantics."""
    tr = OpenPyTranslator(names or {}, rename=rename, where="expected")
    return tr.expr(ast.parse(text, mode="eval").body, {})


def same(a, b) -> tuple[bool, str]:
    """Are two open expressions identical modulo arithmetic?"""
    if a == b:
        return True, "syntactic"
    try:
        d = sp.simplify(a - b)
    except Exception as e:
        return False, f"not comparable: {e}"
    if d == 0:
        return True, "simplify"
    try:
        if sp.cancel(sp.together(sp.expand(a - b))) == 0:
            return True, "cancel"
    except Exception:
        pass
    return False, core.norm(str(d), 200)
