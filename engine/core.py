"""E0 — shared plumbing: sources, findings, evidence, known findings, exit codes.

Exit codes of a check:
  0  every rule instance held (known findings are printed, not failed)
  1  at least one finding not listed in known_findings.json  (VIOLATION line)
  2  the analysis itself is broken (anchor vanished, floor not met, translator
     rejected a construct): ANALYSIS-ERROR line, never a silent pass
"""

from __future__ import annotations

import ast
import hashlib
import json
import os
import re
import sys
import time
import traceback
from dataclasses import dataclass, field
from pathlib import Path

VERIF = Path(__file__).resolve().parent.parent
REPO = Path(os.environ.get("VERIF_REPO", "/repo")).resolve()
OUT = Path(os.environ.get("VERIF_OUT", str(VERIF / "out")))
EVIDENCE_DIR = Path(os.environ.get("VERIF_EVIDENCE_DIR", str(VERIF / "evidence")))
KNOWN = VERIF / "known_findings.json"


class AnalysisError(Exception):
    """The analysis cannot be carried out (anchor vanished, unsupported construct)."""


# --------------------------------------------------------------------------
# sources
# --------------------------------------------------------------------------

_src_cache: dict[str, str] = {}
_ast_cache: dict[str, ast.Module] = {}
consulted: set[str] = set()


def repo_path(rel: str) -> Path:
    return REPO / rel


def read(rel: str) -> str:
    if rel not in _src_cache:
        p = REPO / rel
        if not p.is_file():
            raise AnalysisError(f"anchor file vanished: {rel}")
        text = p.read_text()
        if rel.endswith((".c", ".cpp", ".h")):
            from . import calpha

            text = calpha.restore(text, rel)
        _src_cache[rel] = text
    consulted.add(rel)
    return _src_cache[rel]


def parse(rel: str) -> ast.Module:
    if rel not in _ast_cache:
        try:
            tree = ast.parse(read(rel), filename=rel)
        except SyntaxError as e:  # pragma: no cover
            raise AnalysisError(f"{rel} does not parse: {e}") from e
        from . import alpha

        alpha.restore(tree, rel)
        if os.environ.get("VERIF_NO_CANON") != "1":
            from . import canon

            canon.normalise(tree)
        for node in ast.walk(tree):
            for ch in ast.iter_child_nodes(node):
                ch._parent = node  # type: ignore[attr-defined]
        _ast_cache[rel] = tree
    consulted.add(rel)
    return _ast_cache[rel]


def python_files(sub: str = "phonopy") -> list[str]:
    root = REPO / sub
    return sorted(str(p.relative_to(REPO)) for p in root.rglob("*.py"))


def find_def(rel: str, qualname: str) -> ast.AST:
    """Return FunctionDef/ClassDef for 'f', 'Cls', 'Cls.m', 'Cls.m.inner'."""
    node: ast.AST = parse(rel)
    for part in qualname.split("."):
        found = None
        for ch in ast.iter_child_nodes(node):
            if (
                isinstance(ch, (ast.FunctionDef, ast.AsyncFunctionDef, ast.ClassDef))
                and ch.name == part
            ):
                found = ch  # last definition wins (property setter follows getter)
                if not _is_property_setter(ch):
                    break
        if found is None:
            # search inside if/try blocks at this level
            for ch in ast.walk(node):
                if (
                    isinstance(ch, (ast.FunctionDef, ast.ClassDef))
                    and ch.name == part
                    and ch is not node
                ):
                    found = ch
                    break
        if found is None:
            raise AnalysisError(f"anchor vanished: {rel}::{qualname} (no '{part}')")
        node = found
    return node


def _is_property_setter(fn: ast.AST) -> bool:
    for d in getattr(fn, "decorator_list", []):
        if isinstance(d, ast.Attribute) and d.attr in ("setter", "deleter"):
            return True
    return False


def find_method(rel: str, cls: str, name: str, kind: str = "any") -> ast.FunctionDef:
    """kind: 'getter' | 'setter' | 'any' (first non-setter)."""
    c = find_def(rel, cls)
    hits = [
        n for n in c.body if isinstance(n, ast.FunctionDef) and n.name == name  # type: ignore[attr-defined]
    ]
    if kind == "setter":
        hits = [h for h in hits if _is_property_setter(h)]
    elif kind in ("getter", "any"):
        hits = [h for h in hits if not _is_property_setter(h)]
    if not hits:
        raise AnalysisError(f"anchor vanished: {rel}::{cls}.{name} ({kind})")
    return hits[0]


def src(node: ast.AST) -> str:
    """Normalised source text of a node (position/format independent)."""
    try:
        return ast.unparse(node)
    except Exception:  # pragma: no cover
        return ast.dump(node)



def resolve_name(fn: ast.AST, node: ast.AST, depth: int = 0) -> ast.AST:
    """A Name that is bound exactly once in fn, by a plain assignment, stands for the assigned expression
    (temporaries such as `ret = (a, b); return ret`); anything else is returned unchanged."""
    if not isinstance(node, ast.Name) or depth > 3:
        return node
    stores = [n for n in ast.walk(fn) if isinstance(n, ast.Name) and isinstance(n.ctx, ast.Store) and n.id == node.id]
    if len(stores) != 1:
        return node
    par = getattr(stores[0], "_parent", None)
    if isinstance(par, ast.Assign) and len(par.targets) == 1 and par.targets[0] is stores[0]:
        return resolve_name(fn, par.value, depth + 1)
    return node


def norm(text: str, limit: int = 160) -> str:
    t = re.sub(r"\s+", " ", text).strip()
    return t if len(t) <= limit else t[: limit - 3] + "..."


def qualname_of(node: ast.AST) -> str:
    parts = []
    cur = node
    while cur is not None:
        if isinstance(cur, (ast.FunctionDef, ast.AsyncFunctionDef, ast.ClassDef)):
            parts.append(cur.name)
        cur = getattr(cur, "_parent", None)
    return ".".join(reversed(parts)) or "<module>"


def enclosing_function(node: ast.AST):
    cur = getattr(node, "_parent", None)
    while cur is not None and not isinstance(
        cur, (ast.FunctionDef, ast.AsyncFunctionDef)
    ):
        cur = getattr(cur, "_parent", None)
    return cur


# --------------------------------------------------------------------------
# findings / report
# --------------------------------------------------------------------------


@dataclass
class Finding:
    property_id: str
    rule: str
    file: str
    qualname: str
    construct: str  # normalised text, never a line number
    explanation: str
    line: int | None = None  # informational only, not part of the key

    def key(self) -> tuple:
        return (self.property_id, self.rule, self.file, self.qualname, self.construct)

    def as_dict(self) -> dict:
        return {
            "property": self.property_id,
            "rule": self.rule,
            "file": self.file,
            "qualname": self.qualname,
            "construct": self.construct,
            "explanation": self.explanation,
            "line": self.line,
        }


@dataclass
class Report:
    property_id: str
    tier: str
    level: str = "other"
    seed: int = 0
    t0: float = field(default_factory=time.time)
    instances: list[dict] = field(default_factory=list)
    findings: list[Finding] = field(default_factory=list)
    unknowns: list[str] = field(default_factory=list)
    assumptions: list[str] = field(default_factory=list)
    rules: dict[str, str] = field(default_factory=dict)
    floors: dict[str, int] = field(default_factory=dict)
    samples: list = field(default_factory=list)
    notes: list[str] = field(default_factory=list)
    extra: dict = field(default_factory=dict)
    obligations: int = 0
    discharged: int = 0

    # -- recording ---------------------------------------------------------
    def rule(self, rid: str, text: str, floor: int = 1) -> None:
        self.rules[rid] = text
        self.floors[rid] = floor

    def instance(
        self,
        rule: str,
        file: str,
        qualname: str,
        construct: str,
        ok: bool,
        explanation: str = "",
        line: int | None = None,
        nontrivial: bool = True,
        sample=None,
        obligation: bool = False,
    ) -> bool:
        construct = norm(construct)
        self.instances.append(
            {
                "rule": rule,
                "file": file,
                "qualname": qualname,
                "construct": construct,
                "ok": bool(ok),
                "nontrivial": nontrivial,
            }
        )
        if obligation:
            self.obligations += 1
            if ok:
                self.discharged += 1
        if sample is not None and len([s for s in self.samples if s.get("rule") == rule]) < 2:
            self.samples.append(
                {"rule": rule, "at": f"{file}::{qualname}", "construct": construct, "detail": sample}
            )
        if not ok:
            self.findings.append(
                Finding(self.property_id, rule, file, qualname, construct, explanation, line)
            )
        return bool(ok)

    def unknown(self, what: str) -> None:
        if what not in self.unknowns:
            self.unknowns.append(what)

    def assume(self, what: str) -> None:
        if what not in self.assumptions:
            self.assumptions.append(what)

    def note(self, what: str) -> None:
        self.notes.append(what)

    def count(self, rule: str) -> int:
        return sum(1 for i in self.instances if i["rule"] == rule)

    # -- finalisation ------------------------------------------------------
    def finish(self) -> int:
        for rid, floor in self.floors.items():
            n = self.count(rid)
            if n < floor and not self.findings:
                # (with findings in hand the reports are what matters: a rule that reported and then stopped early
                # has not lost its anchors)
                raise AnalysisError(
                    f"rule {rid} matched {n} instance(s), floor is {floor}: the rule "
                    f"lost its anchors ({self.rules.get(rid, '')})"
                )
        known = load_known()
        known_keys = {
            (k["property"], k["rule"], k["file"], k["qualname"], k["construct"]): k
            for k in known.get("findings", [])
        }
        new: list[Finding] = []
        listed: list[Finding] = []
        seen = set()
        for f in self.findings:
            if f.key() in seen:
                continue
            seen.add(f.key())
            (listed if f.key() in known_keys else new).append(f)
        for f in listed:
            what = known_keys[f.key()].get("what", f.explanation)
            print(
                f"KNOWN-FINDING: property={f.property_id} rule={f.rule} "
                f"{f.file}::{f.qualname} :: {what}"
            )
        OUT.mkdir(parents=True, exist_ok=True)
        for f in new:
            h = hashlib.sha1(repr(f.key()).encode()).hexdigest()[:10]
            p = OUT / "violations" / f"{f.property_id}-{f.rule}-{h}.json"
            p.parent.mkdir(parents=True, exist_ok=True)
            p.write_text(json.dumps(f.as_dict(), indent=1))
            where = f"{f.file}:{f.line}" if f.line else f.file
            print(f"  [{f.rule}] {where} {f.qualname}: {f.construct}\n      -> {f.explanation}")
            print(f"VIOLATION property={f.property_id} replay={p}")
        self._write_evidence(len(new), len(listed))
        return 1 if new else 0

    def _write_evidence(self, n_new: int, n_known: int) -> None:
        distinct = {
            (i["rule"], i["file"], i["qualname"], i["construct"])
            for i in self.instances
            if i["nontrivial"]
        }
        per_rule = {}
        for i in self.instances:
            d = per_rule.setdefault(i["rule"], {"instances": 0, "held": 0})
            d["instances"] += 1
            d["held"] += 1 if i["ok"] else 0
        for rid, d in per_rule.items():
            d["rule"] = self.rules.get(rid, "")
            d["floor"] = self.floors.get(rid, 0)
        cov = {
            "explanation": (
                "Static analysis of the current /repo sources (no phonopy code is "
                "imported or executed). Each 'instance' is one application of a rule to "
                "one construct of the source; see per_rule for what each rule states."
            ),
            "evaluations": len(self.instances),
            "distinct_nontrivial": len(distinct),
            "rule": (
                "instances are enumerated from the syntax trees (Python ast / clang "
                "JSON AST) by the rules listed in per_rule; an instance is distinct by "
                "(rule, file, qualified name, normalised construct) and non-trivial "
                "when the rule's premise matched real code (not a vacuous pass)"
            ),
            "samples": self.samples[:12] or [{"note": "no sample recorded"}],
            "per_rule": per_rule,
            "analysed_files": sorted(consulted),
            "unknown": self.unknowns[:60],
            "unknown_count": len(self.unknowns),
            "known_findings_reported": n_known,
            "notes": self.notes,
        }
        from . import alpha

        from . import calpha

        if alpha.restored or calpha.restored:
            cov["locals_renamed_back"] = (alpha.restored + calpha.restored)[:40]
        cov.update(self.extra)
        if self.level == "proof":
            cov["obligations"] = self.obligations
            cov["discharged"] = self.discharged
            cov.setdefault(
                "checker_cmd", f"python3-vt check.py {self.property_id} --tier {self.tier}"
            )
            cov.setdefault(
                "trusted_base",
                [
                    "CPython ast parser",
                    "clang-14 JSON AST dump",
                    "sympy 1.14 (diff, cancel, expand, simplify) used as normaliser",
                    "the translators in /verif/engine/symalg.py",
                ],
            )
        ev = {
            "property_id": self.property_id,
            "tier": self.tier,
            "seed": self.seed,
            "level": self.level,
            "coverage": cov,
            "assumptions": self.assumptions,
            "wall_s": round(time.time() - self.t0, 3),
            "violations": n_new,
        }
        EVIDENCE_DIR.mkdir(parents=True, exist_ok=True)
        (EVIDENCE_DIR / f"{self.property_id}.json").write_text(json.dumps(ev, indent=1))



class KernelView:
    """A view of a Report for re-using another property's rule module under C13: only instances located in the compiled
    sources (c/*.c, c/*.h, c/*.cpp) are forwarded, under the rule id '<prefix>.<original id>'; rule texts are kept and
    registered on first use (floor 1); notes / assumptions / unknowns of the other property are dropped."""

    def __init__(self, rep: Report, prefix: str, only_compiled: bool = True, keep=None):
        self._rep, self._prefix, self._texts, self._only_c, self._keep = rep, prefix, {}, only_compiled, keep
        self.tier, self.property_id = rep.tier, rep.property_id

    def rule(self, rid, text, floor=1):
        self._texts[rid] = text

    def instance(self, rule, file, qualname, construct, ok, explanation="", line=None, nontrivial=True, sample=None, obligation=False):
        if self._only_c and not file.endswith((".c", ".h", ".cpp")):
            return bool(ok)
        if self._keep is not None and not self._keep(file, qualname, construct):
            return bool(ok)
        rid = f"{self._prefix}.{rule}"
        if rid not in self._rep.rules:
            self._rep.rule(rid, self._texts.get(rule, rule), 1)
        return self._rep.instance(rid, file, qualname, construct, ok, explanation, line, nontrivial, sample, False)

    def unknown(self, what):
        pass

    def assume(self, what):
        pass

    def note(self, what):
        pass

    def count(self, rule):
        return self._rep.count(f"{self._prefix}.{rule}")

    def __getattr__(self, name):
        return getattr(self._rep, name)



class Recorder:
    """A stand-in for Report that only records what a rule module produces (used to replay the rules of one property
    under another property, see rules/delegation.py)."""

    def __init__(self, tier: str, property_id: str):
        self.tier, self.property_id = tier, property_id
        self.rules: dict = {}
        self.floors: dict = {}
        self.items: list = []
        self.extra: dict = {}
        self.instances: list = []
        self.findings: list = []
        self.error: str | None = None

    def rule(self, rid, text, floor=1):
        self.rules[rid] = text

    def instance(self, rule, file, qualname, construct, ok, explanation="", line=None, nontrivial=True, sample=None, obligation=False):
        self.items.append({"rule": rule, "text": self.rules.get(rule, rule), "file": file, "qualname": qualname, "construct": norm(construct), "ok": bool(ok), "explanation": explanation if not ok else "", "line": line})
        return bool(ok)

    def count(self, rule):
        return sum(1 for i in self.items if i["rule"] == rule)

    def unknown(self, what):
        pass

    def assume(self, what):
        pass

    def note(self, what):
        pass


def tree_digest() -> str:
    """digest of everything a rule module may read: the repository's sources and the rule / engine code"""
    import hashlib

    h = hashlib.sha1()
    roots = [(REPO, ("phonopy", "c")), (VERIF, ("rules", "engine"))]
    for base, subs in roots:
        for sub in subs:
            for p in sorted((base / sub).rglob("*")):
                if p.is_file() and p.suffix in (".py", ".c", ".h", ".cpp") and "__pycache__" not in p.parts:
                    h.update(str(p.relative_to(base)).encode())
                    h.update(p.read_bytes())
    for extra in (REPO / "CMakeLists.txt", VERIF / "known_findings.json", VERIF / "alpha_table.json", VERIF / "calpha_table.json"):
        if extra.is_file():
            h.update(extra.read_bytes())
    return h.hexdigest()[:20]


def module_items(modname: str, tier: str) -> dict:
    """{'items': [...], 'error': str|None} of the rule module `modname` (e.g. 'c06') on the current tree; computed once
    per tree digest and kept under out/cache/deleg."""
    import importlib

    dig = tree_digest()
    cdir = OUT / "cache" / "deleg"
    f = cdir / f"{modname}.{tier}.{dig}.json"
    if f.is_file():
        try:
            return json.loads(f.read_text())
        except Exception:
            pass
    mod = importlib.import_module(f"rules.{modname}")
    rec = Recorder(tier, modname.upper())
    err = None
    try:
        mod.run(rec)
    except AnalysisError as e:
        err = str(e)
    out = {"items": rec.items, "error": err}
    try:
        cdir.mkdir(parents=True, exist_ok=True)
        for old in cdir.glob(f"{modname}.{tier}.*.json"):
            if old.stat().st_mtime < time.time() - 6 * 3600:
                old.unlink(missing_ok=True)
        tmp = f.with_suffix(f".tmp{os.getpid()}")
        tmp.write_text(json.dumps(out))
        os.replace(tmp, f)
    except OSError:
        pass
    return out


def load_known() -> dict:
    if KNOWN.is_file():
        return json.loads(KNOWN.read_text())
    return {"findings": [], "fixed": []}


def run_check(property_id: str, tier: str, fn, level: str = "other") -> int:
    seed = int(os.environ.get("VERIF_SEED", "0") or 0)
    rep = Report(property_id, tier, level=level, seed=seed)
    try:
        fn(rep)
        code = rep.finish()
    except AnalysisError as e:
        # a later rule lost its anchor after earlier rules had already established violations: the violations stand
        # (each was decided on its own); the run is reported as incomplete, not as clean and not as merely broken
        if rep.findings:
            print(f"ANALYSIS-INCOMPLETE property={property_id} {e} -- the reports established before the analysis stopped follow")
            try:
                code = rep.finish()
            except AnalysisError:
                code = 2
            if code == 1:
                print(f"{property_id} [{tier}] analysis incomplete; {len(rep.findings)} report(s); exit=1")
                return 1
        print(f"ANALYSIS-ERROR property={property_id} {e}")
        return 2
    except Exception:
        traceback.print_exc()
        print(f"ANALYSIS-ERROR property={property_id} internal error in checker (see traceback)")
        return 2
    n = len(rep.instances)
    held = sum(1 for i in rep.instances if i["ok"])
    print(
        f"{property_id} [{tier}] {held}/{n} rule instances held over "
        f"{len(consulted)} files in {time.time() - rep.t0:.1f}s; "
        f"unknown={len(rep.unknowns)}; exit={code}"
    )
    return code


_BUILTIN_NAMES = {"np", "numpy", "self", "len", "abs", "float", "int", "range", "enumerate", "zip", "list", "tuple", "sum", "max", "min", "sorted", "True", "False", "None", "similarity_transformation", "print"}


def names_of_function(fn) -> set:
    """Every identifier a function binds or mentions (parameters, locals, loop variables, free names)."""
    import ast as _ast

    out = {a.arg for a in fn.args.args + fn.args.kwonlyargs + getattr(fn.args, "posonlyargs", [])}
    for n in _ast.walk(fn):
        if isinstance(n, _ast.Name):
            out.add(n.id)
    return out


def require_names(fn, text_or_names, where: str) -> None:
    """A rule that compares a formula written with the local names of `fn` first makes sure those names still exist:
    if a local was renamed the rule has lost its anchor (ANALYSIS-ERROR), it has not found a violation."""
    import ast as _ast

    if isinstance(text_or_names, str):
        try:
            wanted = {n.id for n in _ast.walk(_ast.parse(text_or_names, mode="eval")) if isinstance(n, _ast.Name)}
        except SyntaxError:
            wanted = set()
    else:
        wanted = set(text_or_names)
    have = names_of_function(fn)
    missing = sorted(w for w in wanted - _BUILTIN_NAMES if w not in have)
    if missing:
        raise AnalysisError(f"{where}: the rule refers to local name(s) {missing} that no longer occur in the function (renamed?): re-anchor the rule")
