"""Reductions over the q-point axis of a symmetry-reduced mesh carry the multiplicity of the q-point.

A tiny abstract interpreter for the consumers of a mesh (moments, DOS, thermal sums).  Every value is

    V(axes, w, deg, zero)

axes  tuple of axis labels ('q' = irreducible q-points, anything else = other axes) or None if unknown
w     the value carries, along its q axis (or, inside a loop over q, for the current q), the weight of that q
deg   homogeneity degree in the weights (weights: 1, sum(weights): 1, weights/sum(weights): 0) or None
zero  a freshly zero-initialised accumulator

The rule: every construct that sums over 'q' -- sum/mean over that axis, np.dot / einsum contracting it, `+=`
inside a loop over q -- must have w set on its operand; the stored result must have degree 0.  Constructs the
interpreter does not model yield unknown values (never a violation).
"""

from __future__ import annotations

import ast
from dataclasses import dataclass, replace

from engine import core


@dataclass(frozen=True)
class V:
    axes: tuple | None = ()
    w: bool = False
    deg: int | None = 0
    zero: bool = False


SCALAR = V((), False, 0)
QINDEX = "qindex"

ELEMENTWISE = {"np.asarray", "np.array", "np.abs", "abs", "np.real", "np.conj", "np.exp", "np.sqrt", "float", "np.ascontiguousarray", "np.copy", "np.double"}


def merge_returns(rets):
    if not rets:
        return None
    if len(rets) == 1 or all(r == rets[0] for r in rets):
        return rets[0]
    if all(isinstance(r, V) for r in rets):
        return V(rets[0].axes if all(r.axes == rets[0].axes for r in rets) else None, all(r.w for r in rets), rets[0].deg if all(r.deg == rets[0].deg for r in rets) else None)
    return None


@dataclass
class Problem:
    node: ast.AST
    message: str


class QTyper:
    def __init__(self, fn, seeds: dict, methods: dict | None = None, elementwise: set | None = None, depth=0, params: dict | None = None):
        self.fn = fn
        self.seeds = dict(seeds)
        self.env: dict = dict(seeds)
        for a in fn.args.args + fn.args.kwonlyargs:
            if a.arg != "self":
                self.env.setdefault(a.arg, SCALAR)  # plain parameters (orders, temperatures, frequencies) are weight-free scalars
        self.env.update(params or {})
        self.methods = methods or {}
        self.elementwise = set(elementwise or ())
        self.depth = depth
        self.problems: list[Problem] = []
        self.reductions: list[tuple] = []  # (node, description) of weighted q-reductions recognised
        self.unknown: list[str] = []
        self.returns: list = []
        self.qloop = 0
        self.stores: dict = {}
        self.local_names = {x.id for x in ast.walk(fn) if isinstance(x, ast.Name) and isinstance(x.ctx, ast.Store)} | {a.arg for a in fn.args.args + fn.args.kwonlyargs}

    # ------------------------------------------------------------------
    def run(self):
        self.block(self.fn.body)
        return self.problems

    def block(self, stmts):
        for s in stmts:
            self.stmt(s)

    def bind(self, tgt, val):
        if isinstance(tgt, (ast.Name, ast.Attribute)):
            k = core.src(tgt)
            if val is None:
                self.env.pop(k, None)
            else:
                self.env[k] = val
            if isinstance(tgt, ast.Attribute):
                self.stores[k] = val
        elif isinstance(tgt, (ast.Tuple, ast.List)):
            if isinstance(val, list) and len(val) == len(tgt.elts):
                for t, v in zip(tgt.elts, val):
                    self.bind(t, v)
            else:
                for t in tgt.elts:
                    self.bind(t, None)
        elif isinstance(tgt, ast.Subscript):
            k = core.src(tgt.value)
            old = self.env.get(k)
            if isinstance(old, V) and isinstance(val, V):
                if old.zero:
                    new = V(old.axes, val.w, val.deg, False)
                else:
                    new = V(old.axes, old.w and val.w, old.deg if old.deg == val.deg else None, False)
                self.env[k] = new
                if isinstance(tgt.value, ast.Attribute):
                    self.stores[k] = new
            elif isinstance(old, V):
                self.env[k] = V(old.axes, False, None, False)

    def accumulate(self, s: ast.AugAssign):
        v = self.expr(s.value)
        k = core.src(s.target.value if isinstance(s.target, ast.Subscript) else s.target)
        old = self.env.get(k)
        if isinstance(s.op, (ast.Add, ast.Sub)):
            if self.qloop:
                if isinstance(v, V):
                    if not v.w:
                        self.problems.append(Problem(s, f"'{core.norm(core.src(s), 70)}' adds the contribution of a q-point without its weight"))
                    else:
                        self.reductions.append((s, "+= inside a loop over q"))
                else:
                    self.unknown.append(f"{core.norm(core.src(s), 60)}: value not modelled")
            if isinstance(v, V):
                if isinstance(old, V) and not old.zero:
                    deg = old.deg if old.deg == v.deg else None
                else:
                    deg = v.deg
                axes = old.axes if isinstance(old, V) else v.axes
                # after the loop the accumulator is a finished q-sum: no q axis, no per-q weight
                new = V(axes, False if self.qloop else v.w, deg, False)
                self.env[k] = new
                if "." in k:
                    self.stores[k] = new
            else:
                self.env.pop(k, None)
        elif isinstance(s.op, (ast.Mult, ast.Div)) and isinstance(old, V):
            if isinstance(v, V) and old.deg is not None and v.deg is not None:
                new = replace(old, deg=old.deg + (v.deg if isinstance(s.op, ast.Mult) else -v.deg), zero=False)
            else:
                new = replace(old, deg=None, zero=False)
            self.env[k] = new
            if "." in k:
                self.stores[k] = new

    def stmt(self, s):
        if isinstance(s, ast.Assign):
            v = self.expr(s.value)
            for t in s.targets:
                self.bind(t, v)
        elif isinstance(s, ast.AnnAssign) and s.value is not None:
            self.bind(s.target, self.expr(s.value))
        elif isinstance(s, ast.AugAssign):
            self.accumulate(s)
        elif isinstance(s, ast.Expr):
            self.expr(s.value)
        elif isinstance(s, ast.Return):
            if s.value is not None:
                self.returns.append(self.expr(s.value))
        elif isinstance(s, ast.If):
            self.expr(s.test)
            before = dict(self.env)
            self.block(s.body)
            e1 = self.env
            self.env = dict(before)
            self.block(s.orelse)
            e2 = self.env
            self.env = {}
            for k in e1:
                if k in e2:
                    a, b = e1[k], e2[k]
                    if a == b:
                        self.env[k] = a
                    elif isinstance(a, V) and isinstance(b, V) and (a.zero or b.zero):
                        self.env[k] = b if a.zero else a  # an accumulator touched on one arm only
            for k in set(e1) ^ set(e2):
                if k not in before:
                    self.env[k] = e1.get(k, e2.get(k))
        elif isinstance(s, ast.For):
            self.loop(s)
        elif isinstance(s, (ast.With, ast.Try)):
            self.block(s.body)
        elif isinstance(s, ast.While):
            self.block(s.body)

    def loop(self, s: ast.For):
        it = s.iter
        isq = False
        binds = []  # (target, value)
        def row(v):
            if isinstance(v, V) and v.axes:
                return V(tuple(v.axes[1:]), v.w, v.deg, False), v.axes[0] == "q"
            return None, False
        if isinstance(it, ast.Call) and core.src(it.func) in ("enumerate", "zip"):
            fn = core.src(it.func)
            args = it.args
            tgts = s.target.elts if isinstance(s.target, (ast.Tuple, ast.List)) else [s.target]
            if fn == "enumerate" and len(tgts) == 2 and args:
                v, q = row(self.expr(args[0]))
                isq = q
                binds.append((tgts[0], QINDEX if q else SCALAR))
                if isinstance(tgts[1], (ast.Tuple, ast.List)) and isinstance(args[0], ast.Call) and core.src(args[0].func) == "zip":
                    for t, a in zip(tgts[1].elts, args[0].args):
                        vv, qq = row(self.expr(a))
                        isq = isq or qq
                        binds.append((t, vv))
                    if isq:
                        binds[0] = (tgts[0], QINDEX)
                else:
                    binds.append((tgts[1], v))
            elif fn == "zip":
                for t, a in zip(tgts, args):
                    v, q = row(self.expr(a))
                    isq = isq or q
                    binds.append((t, v))
        elif isinstance(it, ast.Call) and core.src(it.func) == "range":
            a = it.args[0] if len(it.args) == 1 else None
            # range(len(X)) / range(X.shape[0]) with X q-leading is a loop over q
            if a is not None:
                t = core.src(a)
                for k, v in self.env.items():
                    if isinstance(v, V) and v.axes and v.axes[0] == "q" and t in (f"len({k})", f"{k}.shape[0]"):
                        isq = True
            binds.append((s.target, QINDEX if isq else SCALAR))
        else:
            v, q = row(self.expr(it))
            isq = q
            binds.append((s.target, v))
        for t, v in binds:
            if v == QINDEX and isinstance(t, ast.Name):
                self.env[t.id] = QINDEX
            else:
                self.bind(t, v)
        if isq:
            self.qloop += 1
        self.block(s.body)
        if isq:
            self.qloop -= 1

    # ------------------------------------------------------------------
    @staticmethod
    def broadcast(a, b):
        if a is None or b is None or a.axes is None or b.axes is None:
            return None
        la, lb = list(a.axes), list(b.axes)
        n = max(len(la), len(lb))
        la = ["1"] * (n - len(la)) + la
        lb = ["1"] * (n - len(lb)) + lb
        return tuple(x if x != "1" else y for x, y in zip(la, lb))

    def reduce(self, x, axis, node, what):
        if not isinstance(x, V):
            return None
        if x.axes is None:
            return V(None if axis is not None else (), x.w, x.deg)
        if axis is None:
            hit = "q" in x.axes
            out = ()
        else:
            if not -len(x.axes) <= axis < len(x.axes):
                return V(None, x.w, x.deg)
            hit = x.axes[axis] == "q"
            out = tuple(a for i, a in enumerate(x.axes) if i != axis % len(x.axes))
        if hit:
            if x.w:
                self.reductions.append((node, what))
            else:
                self.problems.append(Problem(node, f"'{core.norm(core.src(node), 70)}' sums over the irreducible q-points without their weights"))
            return V(out, False, x.deg)
        return V(out, x.w, x.deg)

    def expr(self, e):
        if isinstance(e, ast.Constant):
            return V((), False, 0, True) if e.value in (0, 0.0) and not isinstance(e.value, bool) else SCALAR
        if isinstance(e, (ast.Name, ast.Attribute)):
            k = core.src(e)
            if k in self.env:
                return self.env[k]
            if isinstance(e, ast.Name) and k not in self.local_names:
                return SCALAR  # module-level constant (unit conversion factors)
            if isinstance(e, ast.Attribute):
                b = self.expr(e.value)
                if e.attr == "T" and isinstance(b, V):
                    return replace(b, axes=tuple(reversed(b.axes)) if b.axes is not None else None)
                if e.attr in ("real", "imag") and isinstance(b, V):
                    return b
                if e.attr in ("shape", "size", "ndim"):
                    return None
            return None
        if isinstance(e, ast.UnaryOp):
            return self.expr(e.operand)
        if isinstance(e, ast.BinOp):
            a, b = self.expr(e.left), self.expr(e.right)
            if isinstance(e.op, ast.Pow) and isinstance(a, V) and not isinstance(b, V):
                return V(a.axes, False, 0 if a.deg == 0 else None)
            if not isinstance(a, V) or not isinstance(b, V):
                return None
            axes = self.broadcast(a, b)
            if isinstance(e.op, (ast.Mult, ast.MatMult)):
                if isinstance(e.op, ast.MatMult):
                    return self.contract(a, b, e, "'@'")
                return V(axes, a.w or b.w, None if a.deg is None or b.deg is None else a.deg + b.deg)
            if isinstance(e.op, ast.Div):
                return V(axes, a.w or b.w, None if a.deg is None or b.deg is None else a.deg - b.deg)
            if isinstance(e.op, (ast.Add, ast.Sub)):
                if a.zero:
                    return replace(b, axes=axes)
                if b.zero:
                    return replace(a, axes=axes)
                return V(axes, a.w and b.w, a.deg if a.deg == b.deg else None)
            if isinstance(e.op, ast.Pow):
                if isinstance(e.right, ast.Constant) and isinstance(e.right.value, int) and a.deg is not None:
                    return V(axes, a.w if e.right.value == 1 else False, a.deg * e.right.value)
                return V(axes, False, 0 if a.deg == 0 else None)
            return None
        if isinstance(e, (ast.Compare, ast.BoolOp)):
            vals = [self.expr(x) for x in ([e.left] + e.comparators if isinstance(e, ast.Compare) else e.values)]
            axes = None
            # thresholds that are not modelled (self._fmin, cutoffs) are scalars
            vals = [SCALAR if v is None else v for v in vals]
            if all(isinstance(v, V) for v in vals):
                cur = vals[0]
                for v in vals[1:]:
                    ax = self.broadcast(cur, v)
                    cur = V(ax, False, 0)
                axes = cur.axes
            return V(axes, False, 0)
        if isinstance(e, ast.Subscript):
            return self.subscript(e)
        if isinstance(e, ast.Call):
            return self.call(e)
        if isinstance(e, ast.Tuple):
            return [self.expr(x) for x in e.elts]
        if isinstance(e, ast.IfExp):
            a, b = self.expr(e.body), self.expr(e.orelse)
            return a if a == b else None
        if isinstance(e, (ast.ListComp, ast.GeneratorExp)):
            saved = dict(self.env)
            for g in e.generators:
                it = self.expr(g.iter)
                if isinstance(g.target, ast.Name):
                    if isinstance(it, V) and it.axes:
                        self.env[g.target.id] = V(tuple(it.axes[1:]), it.w, it.deg)
                    elif isinstance(g.iter, ast.Call) and core.src(g.iter.func) == "range":
                        self.env[g.target.id] = SCALAR
                    else:
                        self.env.pop(g.target.id, None)
                else:
                    for x in ast.walk(g.target):
                        if isinstance(x, ast.Name):
                            self.env.pop(x.id, None)
            v = self.expr(e.elt)
            self.env = saved
            return V(None, v.w, v.deg) if isinstance(v, V) else None
        return None

    def subscript(self, e: ast.Subscript):
        x = self.expr(e.value)
        if not isinstance(x, V):
            if not isinstance(e.slice, (ast.Slice, ast.Tuple)):
                self.expr(e.slice)
            return None
        if x.axes is None:
            return x
        idx = e.slice.elts if isinstance(e.slice, ast.Tuple) else [e.slice]
        out = []
        k = 0
        for i in idx:
            if isinstance(i, ast.Constant) and i.value is None:
                out.append("1")
                continue
            if k >= len(x.axes):
                return V(None, x.w, x.deg)
            if isinstance(i, ast.Slice):
                out.append(x.axes[k])
            else:
                iv = self.env.get(core.src(i)) if isinstance(i, (ast.Name, ast.Attribute)) else (SCALAR if isinstance(i, ast.Constant) else self.expr(i))
                if iv == QINDEX:
                    if x.axes[k] != "q":
                        return V(None, x.w, x.deg)
                elif isinstance(iv, V) and iv.axes:
                    return V(None, x.w, x.deg)  # mask / fancy index: shape not modelled
                elif iv is None and not isinstance(i, ast.Name):
                    return V(None, x.w, x.deg)
                # scalar index: the axis is dropped
            k += 1
        out += list(x.axes[k:])
        return V(tuple(out), x.w, x.deg)

    def contract(self, a, b, node, what):
        if not isinstance(a, V) or not isinstance(b, V):
            return None
        deg = None if a.deg is None or b.deg is None else a.deg + b.deg
        if a.axes is None or b.axes is None:
            return V(None, a.w or b.w, deg)
        if a.axes == () or b.axes == ():
            return V(self.broadcast(a, b), a.w or b.w, deg)
        ca = a.axes[-1]
        jb = 0 if len(b.axes) == 1 else len(b.axes) - 2
        cb = b.axes[jb]
        out = tuple(a.axes[:-1]) + tuple(x for i, x in enumerate(b.axes) if i != jb)
        if ca == "q" or cb == "q":
            if a.w or b.w:
                self.reductions.append((node, f"{what} over q"))
            else:
                self.problems.append(Problem(node, f"'{core.norm(core.src(node), 70)}' contracts the q axis without the weights"))
            return V(out, False, deg)
        return V(out, a.w or b.w, deg)

    def call(self, c: ast.Call):
        f = core.src(c.func)
        args = c.args
        kw = {k.arg: k.value for k in c.keywords}
        def axis_of():
            a = kw.get("axis", args[1] if len(args) > 1 and f.startswith("np.") else (args[0] if args and not f.startswith("np.") else None))
            if a is None:
                return None, True
            if isinstance(a, ast.Constant) and isinstance(a.value, int):
                return a.value, True
            if isinstance(a, ast.UnaryOp) and isinstance(a.op, ast.USub) and isinstance(a.operand, ast.Constant):
                return -a.operand.value, True
            return None, False
        if f in ("np.sum", "np.mean", "np.average") and args:
            x = self.expr(args[0])
            ax, ok = axis_of()
            if f == "np.average" and "weights" in kw:
                wv = self.expr(kw["weights"])
                if isinstance(x, V) and isinstance(wv, V):
                    x = V(x.axes, x.w or wv.w, x.deg)
            if not ok:
                return V(None, x.w, x.deg) if isinstance(x, V) else None
            return self.reduce(x, ax, c, f)
        if isinstance(c.func, ast.Attribute) and c.func.attr in ("sum", "mean") and not (isinstance(c.func.value, ast.Name) and c.func.value.id in ("np", "numpy")):
            x = self.expr(c.func.value)
            ax, ok = axis_of()
            if not ok:
                return V(None, x.w, x.deg) if isinstance(x, V) else None
            return self.reduce(x, ax, c, "." + c.func.attr + "()")
        if f in ("np.dot",) and len(args) == 2:
            return self.contract(self.expr(args[0]), self.expr(args[1]), c, "np.dot")
        if f == "np.einsum" and args and isinstance(args[0], ast.Constant) and isinstance(args[0].value, str):
            return self.einsum(c, args[0].value, [self.expr(a) for a in args[1:]])
        if f in ("np.zeros_like", "np.empty_like") and args:
            x = self.expr(args[0])
            return V(x.axes if isinstance(x, V) else None, False, 0, True)
        if f in ("np.zeros", "np.empty"):
            return V(None, False, 0, True)
        if f in ("np.ones_like", "np.ones"):
            return V(None, False, 0, False)
        if f in ("np.logical_and", "np.logical_or", "np.where", "np.minimum", "np.maximum") and args:
            vals = [self.expr(a) for a in args]
            if all(isinstance(v, V) for v in vals):
                cur = vals[0]
                for v in vals[1:]:
                    cur = V(self.broadcast(cur, v), False, 0)
                if f == "np.where" and len(vals) == 3:
                    a, b = vals[1], vals[2]
                    return V(cur.axes, (a.w or a.zero or a.axes == ()) and (b.w or b.zero or b.axes == ()) and (a.w or b.w), a.deg if a.deg == b.deg else (a.deg if b.axes == () else (b.deg if a.axes == () else None)))
                return V(cur.axes, False, 0)
            return None
        if f in ("len", "int"):
            for a in args:
                self.expr(a)
            return SCALAR
        if (f in ELEMENTWISE or f in self.elementwise or (isinstance(c.func, ast.Attribute) and c.func.attr in self.elementwise)) and args:
            vals = [self.expr(a) for a in args]
            arrs = [v for v in vals if isinstance(v, V) and v.axes != ()]
            if any(v is None for v in vals):
                return None
            if not arrs:
                return vals[0]
            cur = arrs[0]
            for v in arrs[1:]:
                cur = V(self.broadcast(cur, v), cur.w or v.w, None if cur.deg is None or v.deg is None else cur.deg + v.deg)
            return cur
        if f == "np.extract" and len(args) == 2:
            self.expr(args[0])
            x = self.expr(args[1])
            return V(None, x.w, x.deg) if isinstance(x, V) else None
        if isinstance(c.func, ast.Attribute) and c.func.attr in ("copy", "astype", "conj", "conjugate") and not (isinstance(c.func.value, ast.Name) and c.func.value.id == "np"):
            return self.expr(c.func.value)
        if isinstance(c.func, ast.Attribute) and c.func.attr in ("reshape", "ravel", "flatten"):
            x = self.expr(c.func.value)
            return V(None, x.w, x.deg) if isinstance(x, V) else None
        if isinstance(c.func, ast.Attribute) and isinstance(c.func.value, ast.Name) and c.func.value.id == "self" and c.func.attr in self.methods and self.depth < 2:
            m = self.methods[c.func.attr]
            ps = [a.arg for a in m.args.args][1:]
            binding = {}
            for pn, a in zip(ps, args):
                binding[pn] = self.expr(a)
            for k, v in kw.items():
                if k in ps:
                    binding[k] = self.expr(v)
            binding = {k: v for k, v in binding.items() if v is not None}
            sub = QTyper(m, {k: v for k, v in self.env.items() if k.startswith("self.")}, self.methods, self.elementwise, self.depth + 1, binding)
            sub.run()
            self.problems += sub.problems
            self.reductions += sub.reductions
            self.unknown += sub.unknown
            for k, v in sub.stores.items():
                self.env[k] = v
                self.stores[k] = v
            return merge_returns(sub.returns)
        for a in args:
            self.expr(a)
        for v in kw.values():
            self.expr(v)
        return None

    def einsum(self, node, spec, ops):
        spec = spec.replace(" ", "")
        if "->" not in spec or "." in spec:
            return None
        ins, out = spec.split("->")
        ins = ins.split(",")
        if len(ins) != len(ops):
            return None
        label: dict = {}
        for sub, v in zip(ins, ops):
            if isinstance(v, V) and v.axes is not None and len(v.axes) == len(sub):
                for ch, ax in zip(sub, v.axes):
                    if ax != "1":
                        label.setdefault(ch, ax)
        degs = [v.deg if isinstance(v, V) else None for v in ops]
        deg = None if any(d is None for d in degs) else sum(degs)
        summed = {ch for sub in ins for ch in sub} - set(out)
        qletters = [ch for ch, ax in label.items() if ax == "q"]
        any_w = False
        for ch in qletters:
            carriers = [v for sub, v in zip(ins, ops) if ch in sub and isinstance(v, V) and v.w]
            unknown_ops = [v for sub, v in zip(ins, ops) if ch in sub and not isinstance(v, V)]
            if ch in summed:
                if carriers:
                    self.reductions.append((node, "einsum over q"))
                elif unknown_ops:
                    self.unknown.append(f"{core.norm(core.src(node), 60)}: an operand on the q axis is not modelled")
                else:
                    self.problems.append(Problem(node, f"'{core.norm(core.src(node), 70)}' sums over the irreducible q-points without their weights"))
            else:
                any_w = any_w or bool(carriers)
        axes = tuple(label.get(ch, "?") for ch in out)
        return V(axes, any_w, deg)
