"""Formula sites: compare the expression a function assigns / accumulates / returns with the documented one as open
terms (arithmetic, order of factors and local temporaries do not matter; both sides are translated in the function's
own environment so that locals are inlined the same way)."""

from __future__ import annotations

import ast

from engine import core, symalg
from engine.core import AnalysisError


def function_env(rel, qualname, setter=False):
    if setter:
        cls_name, meth = qualname.split(".")
        cls = core.find_def(rel, cls_name)
        cands = [m for m in cls.body if isinstance(m, ast.FunctionDef) and m.name == meth and core._is_property_setter(m)]
        if not cands:
            raise AnalysisError(f"anchor vanished: setter {qualname}")
        fn = cands[0]
    else:
        fn = core.find_def(rel, qualname)
    tr = symalg.OpenPyTranslator(where=qualname)
    env = tr.summary(fn)
    return fn, tr, env


def expected(tr, env, text):
    return tr.expr(ast.parse(text, mode="eval").body, env)


def check(rep, rule, rel, qualname, kind, target, text, message, setter=False, arg0=False, raw=False):
    """kind: 'assign' (last value assigned to `target`), 'aug' (values accumulated into `target`: all must equal `text`
    or a list of texts in order), 'ret' (returned value; target = index into a returned tuple or None),
    'iter' (the iterable of the loop whose iterable mentions `target`)."""
    fn, tr, env = function_env(rel, qualname, setter)
    for t_ in (text if isinstance(text, list) else [text]):
        core.require_names(fn, t_, f"{rel}::{qualname}")
    if isinstance(target, str):
        core.require_names(fn, [x for x in [target.split("[")[0].split(".")[0]] if x != "self"], f"{rel}::{qualname}")
    got = None
    if kind == "assign" and raw:
        # the target is rebound from its own previous value: compare the source expressions as they stand
        sts = [st for st in ast.walk(fn) if isinstance(st, ast.Assign) and core.src(st.targets[0]) == target]
        if not sts:
            raise AnalysisError(f"formula site vanished: {rel}::{qualname} assign {target}")
        ok = any(symalg.same(symalg.open_expr(core.src(st.value)), symalg.open_expr(text))[0] for st in sts)
        rep.instance(rule, rel, qualname, f"{target} = {text}", ok, message + f" (found {[core.norm(core.src(st.value), 80) for st in sts]})", line=fn.lineno)
        return ok
    if kind == "assign":
        vals = tr.assigned.get(target, [])
        if arg0:
            vals = [v.args[0] if v.args else v for v in vals]
        want = expected(tr, env, text)
        if vals:
            # a name assigned on several branches: the documented expression must be one of the assigned values
            hit = [v for v in vals if symalg.same(v, want)[0]]
            got = hit[0] if hit else vals[-1]
    elif kind == "aug":
        vals = tr.appends.get("aug:" + target, [])
        if not vals:
            raise AnalysisError(f"formula site vanished: {rel}::{qualname} has no accumulation into {target}")
        texts = text if isinstance(text, list) else [text]
        ok = len(vals) == len(texts) and all(symalg.same(v, expected(tr, env, t))[0] for (op, v), t in zip(vals, texts))
        rep.instance(rule, rel, qualname, f"{target} accumulates {texts}", ok, message, line=fn.lineno)
        return ok
    elif kind == "ret":
        rets = [r.value for r in ast.walk(fn) if isinstance(r, ast.Return) and r.value is not None]
        if rets:
            v = core.resolve_name(fn, rets[-1])
            if target is not None and isinstance(v, ast.Tuple):
                v = v.elts[target]
            got = tr.expr(v, env)
            if arg0 and got.args:
                got = got.args[0]
    elif kind == "iter":
        loops = [lp for lp in ast.walk(fn) if isinstance(lp, ast.For) and target in core.src(lp.iter)]
        if not loops:
            raise AnalysisError(f"formula site vanished: {rel}::{qualname} has no loop over {target}")
        oks = [symalg.same(tr.expr(lp.iter, env), expected(tr, env, text))[0] for lp in loops]
        rep.instance(rule, rel, qualname, f"loop over {text}", bool(loops) and all(oks), message, line=fn.lineno)
        return bool(loops) and all(oks)
    if got is None:
        raise AnalysisError(f"formula site vanished: {rel}::{qualname} {kind} {target}")
    ok = symalg.same(got, expected(tr, env, text))[0]
    rep.instance(rule, rel, qualname, f"{target if target is not None else 'return'} == {text}", ok, message + f" (found {core.norm(str(got), 140)})", line=fn.lineno)
    return ok
