"""Symbolic evaluation of small numpy expressions on arrays of known shape (entries are sympy expressions).

For statements like ``trim_frame = mat / np.array(multi, dtype="double")`` the question is which entry is divided by
which, i.e. how numpy aligns the axes.  The evaluator carries nested lists of sympy expressions and implements the
few operations the analysed fragments use: array literals, integer / slice / None subscripts, ``.T``, element-wise
arithmetic with numpy's broadcasting (trailing axes aligned), ``np.dot`` / ``@`` of vectors and matrices, ``np.diag``,
``np.eye``, ``np.diagonal``, ``float``/``int`` (identity).  Anything else raises AnalysisError: the caller reports an
analysis error, never a guess.
"""

from __future__ import annotations

import ast

import sympy as sp

from engine import core
from engine.core import AnalysisError


def shape(a):
    s = []
    while isinstance(a, list):
        s.append(len(a))
        a = a[0] if a else None
    return tuple(s)


def matrix(name, n, m):
    return [[sp.Symbol(f"{name}{i}{j}") for j in range(m)] for i in range(n)]


def vector(name, n):
    return [sp.Symbol(f"{name}{i}") for i in range(n)]


def _map2(f, a, b):
    """element-wise with broadcasting"""
    sa, sb = shape(a), shape(b)
    if not sa and not sb:
        return f(a, b)
    if len(sa) < len(sb):  # trailing axes are aligned: the shorter operand repeats along the leading axis
        return [_map2(f, a, y) for y in b]
    if len(sa) > len(sb):
        return [_map2(f, x, b) for x in a]
    # same rank
    if sa[0] == sb[0]:
        return [_map2(f, x, y) for x, y in zip(a, b)]
    if sa[0] == 1:
        return [_map2(f, a[0], y) for y in b]
    if sb[0] == 1:
        return [_map2(f, x, b[0]) for x in a]
    raise AnalysisError(f"shapes {sa} and {sb} do not broadcast")


def transpose(a):
    s = shape(a)
    if len(s) == 1:
        return a
    if len(s) != 2:
        raise AnalysisError("transpose of rank > 2")
    return [[a[i][j] for i in range(s[0])] for j in range(s[1])]


def dot(a, b):
    sa, sb = shape(a), shape(b)
    if len(sa) == 1 and len(sb) == 1:
        return sum(x * y for x, y in zip(a, b))
    if len(sa) == 2 and len(sb) == 1:
        return [sum(a[i][k] * b[k] for k in range(sa[1])) for i in range(sa[0])]
    if len(sa) == 1 and len(sb) == 2:
        return [sum(a[k] * b[k][j] for k in range(sa[0])) for j in range(sb[1])]
    if len(sa) == 2 and len(sb) == 2 and sa[1] == sb[0]:
        return [[sum(a[i][k] * b[k][j] for k in range(sa[1])) for j in range(sb[1])] for i in range(sa[0])]
    if len(sa) >= 3 and len(sb) in (1, 2):
        return [dot(x, b) for x in a]  # np.dot contracts the last axis of a: the leading axes are carried
    raise AnalysisError(f"dot of shapes {sa}, {sb}")


def permute(a, axes):
    """np.transpose(a, axes) for nested lists"""
    sh = shape(a)
    if sorted(axes) != list(range(len(sh))):
        raise AnalysisError(f"transpose axes {axes} for rank {len(sh)}")
    import itertools

    def get(ix):
        x = a
        for i in ix:
            x = x[i]
        return x

    new_sh = [sh[ax] for ax in axes]

    def build(prefix):
        if len(prefix) == len(new_sh):
            src = [0] * len(sh)
            for pos, ax in enumerate(axes):
                src[ax] = prefix[pos]
            return get(src)
        return [build(prefix + [i]) for i in range(new_sh[len(prefix)])]

    return build([])


def matmul(a, b):
    """np.matmul: the last two axes are multiplied, leading axes broadcast"""
    sa, sb = shape(a), shape(b)
    if len(sa) <= 2 and len(sb) <= 2:
        return dot(a, b)
    if len(sa) > len(sb):
        return [matmul(x, b) for x in a]
    if len(sb) > len(sa):
        return [matmul(a, y) for y in b]
    if sa[0] == sb[0]:
        return [matmul(x, y) for x, y in zip(a, b)]
    if sa[0] == 1:
        return [matmul(a[0], y) for y in b]
    if sb[0] == 1:
        return [matmul(x, b[0]) for x in a]
    raise AnalysisError(f"matmul of shapes {sa}, {sb}")


def einsum(spec, ops):
    import itertools

    spec = spec.replace(" ", "")
    if "->" not in spec or "." in spec:
        raise AnalysisError(f"einsum '{spec}' without explicit output / with ellipsis")
    ins, out = spec.split("->")
    ins = ins.split(",")
    if len(ins) != len(ops):
        raise AnalysisError(f"einsum '{spec}' with {len(ops)} operands")
    ext = {}
    for sub, op in zip(ins, ops):
        sh = shape(op)
        if len(sh) != len(sub):
            raise AnalysisError(f"einsum '{spec}': operand of rank {len(sh)} for '{sub}'")
        for ch, n in zip(sub, sh):
            if ext.setdefault(ch, n) != n:
                raise AnalysisError(f"einsum '{spec}': extents of '{ch}' differ")
    summed = [ch for ch in ext if ch not in out]

    def get(op, ix):
        for i in ix:
            op = op[i]
        return op

    def build(prefix):
        if len(prefix) == len(out):
            asg = dict(zip(out, prefix))
            tot = sp.Integer(0)
            for combo in itertools.product(*[range(ext[ch]) for ch in summed]):
                asg.update(zip(summed, combo))
                term = sp.Integer(1)
                for sub, op in zip(ins, ops):
                    term = term * get(op, [asg[ch] for ch in sub])
                tot = tot + term
            return tot
        return [build(prefix + [i]) for i in range(ext[out[len(prefix)]])]

    return build([])


def _index(a, idx):
    """idx: list of int | slice(None) | None"""
    if not idx:
        return a
    h, rest = idx[0], idx[1:]
    if h is None:
        return [_index(a, rest)]
    if not isinstance(a, list):
        raise AnalysisError("too many indices")
    if isinstance(h, int):
        return _index(a[h], rest)
    if isinstance(h, slice):
        return [_index(x, rest) for x in a[h]]
    if isinstance(h, list):  # one integer index array: the axis is gathered in place
        return [_index(a[int(k)], rest) for k in h]
    raise AnalysisError("index kind")


class Evaluator:
    def __init__(self, env: dict, where: str = "", call_hook=None):
        self.env, self.where, self.call_hook = dict(env), where, call_hook

    def ev(self, e):
        if isinstance(e, ast.Constant) and isinstance(e.value, (int, float)) and not isinstance(e.value, bool):
            return sp.nsimplify(e.value) if isinstance(e.value, float) else sp.Integer(e.value)
        if isinstance(e, ast.Constant) and e.value is None:
            return None
        if isinstance(e, ast.Name):
            if e.id in self.env:
                return self.env[e.id]
            raise AnalysisError(f"{self.where}: '{e.id}' has no symbolic array value")
        if isinstance(e, (ast.List, ast.Tuple)):
            return [self.ev(x) for x in e.elts]
        if isinstance(e, ast.Constant) and isinstance(e.value, bool):
            return sp.true if e.value else sp.false
        if isinstance(e, ast.Compare) and len(e.ops) == 1 and isinstance(e.ops[0], (ast.Eq, ast.NotEq)):
            a, b = self.ev(e.left), self.ev(e.comparators[0])
            mk = (lambda x, y: sp.Eq(x, y, evaluate=None)) if isinstance(e.ops[0], ast.Eq) else (lambda x, y: sp.Ne(x, y, evaluate=None))
            return _map2(mk, a, b)
        if isinstance(e, ast.BoolOp):
            vals = [self.ev(v) for v in e.values]
            if any(isinstance(v, list) for v in vals):
                raise AnalysisError(f"{self.where}: truth value of an array")
            return sp.And(*vals) if isinstance(e.op, ast.And) else sp.Or(*vals)
        if isinstance(e, ast.UnaryOp) and isinstance(e.op, ast.Not):
            v = self.ev(e.operand)
            if isinstance(v, list):
                raise AnalysisError(f"{self.where}: truth value of an array")
            return sp.Not(v)
        if isinstance(e, ast.UnaryOp) and isinstance(e.op, ast.USub):
            return _map2(lambda x, _: -x, self.ev(e.operand), sp.Integer(0))
        if isinstance(e, ast.BinOp):
            a, b = self.ev(e.left), self.ev(e.right)
            if isinstance(e.op, ast.MatMult):
                return matmul(a, b)
            ops = {ast.Add: lambda x, y: x + y, ast.Sub: lambda x, y: x - y, ast.Mult: lambda x, y: x * y, ast.Div: lambda x, y: x / y, ast.Pow: lambda x, y: x**y}
            f = ops.get(type(e.op))
            if f is None and isinstance(e.op, (ast.FloorDiv, ast.Mod)):
                def f(x, y, _op=e.op):
                    if getattr(x, "is_Integer", False) and getattr(y, "is_Integer", False) and y != 0:
                        return sp.Integer(int(x) // int(y)) if isinstance(_op, ast.FloorDiv) else sp.Integer(int(x) % int(y))
                    raise AnalysisError(f"{self.where}: '{core.src(e)}' on symbolic operands")
            if f is None:
                raise AnalysisError(f"{self.where}: operator {type(e.op).__name__}")
            return _map2(f, a, b)
        if isinstance(e, ast.Attribute) and e.attr == "T":
            return transpose(self.ev(e.value))
        if isinstance(e, ast.Attribute) and core.src(e) in self.env:
            return self.env[core.src(e)]
        if isinstance(e, ast.Attribute) and e.attr == "ndim":
            return sp.Integer(len(shape(self.ev(e.value))))
        if isinstance(e, ast.Attribute) and e.attr == "shape":
            return [sp.Integer(n_) for n_ in shape(self.ev(e.value))]
        if isinstance(e, ast.Attribute) and e.attr in ("real", "imag"):
            g_ = sp.re if e.attr == "real" else sp.im
            return _map2(lambda x, _: g_(x), self.ev(e.value), sp.Integer(0))
        if isinstance(e, ast.Subscript) and core.src(e.value) in ("np.c_", "np.column_stack") and isinstance(e.slice, ast.Tuple):
            cols = [self.ev(x) for x in e.slice.elts]
            if not all(len(shape(c)) == 1 and shape(c) == shape(cols[0]) for c in cols):
                raise AnalysisError(f"{self.where}: np.c_ of shapes {[shape(c) for c in cols]}")
            return [[c[i] for c in cols] for i in range(len(cols[0]))]
        if isinstance(e, ast.Subscript) and core.src(e) in self.env:
            return self.env[core.src(e)]  # a named source such as tags["scale"]
        if isinstance(e, ast.Subscript):
            a = self.ev(e.value)
            sl = e.slice
            parts = sl.elts if isinstance(sl, ast.Tuple) else [sl]
            idx = []
            for p in parts:
                if isinstance(p, ast.Constant) and p.value is None:
                    idx.append(None)
                elif isinstance(p, ast.Attribute) and core.src(p) == "np.newaxis":
                    idx.append(None)
                elif isinstance(p, ast.Constant) and isinstance(p.value, int):
                    idx.append(p.value)
                elif isinstance(p, ast.UnaryOp) and isinstance(p.op, ast.USub) and isinstance(p.operand, ast.Constant):
                    idx.append(-p.operand.value)
                elif isinstance(p, ast.Slice) and p.lower is None and p.upper is None and p.step is None:
                    idx.append(slice(None))
                elif isinstance(p, ast.Name) and isinstance(self.env.get(p.id), (int, sp.Integer)):
                    idx.append(int(self.env[p.id]))
                elif isinstance(p, ast.Name) and isinstance(self.env.get(p.id), list) and self.env[p.id] and all(getattr(x, "is_Integer", False) for x in self.env[p.id]):
                    if any(isinstance(x, list) for x in idx):
                        raise AnalysisError(f"{self.where}: two index arrays in '{core.src(e)}'")
                    idx.append([int(x) for x in self.env[p.id]])
                else:
                    raise AnalysisError(f"{self.where}: subscript '{core.src(p)}'")
            return _index(a, idx)
        if isinstance(e, ast.ListComp) and len(e.generators) > 1 and all(not g.ifs and isinstance(g.target, ast.Name) for g in e.generators):
            # nested generators over literal sequences: the Cartesian product in source order
            import itertools

            seqs = []
            for g in e.generators:
                v = self.ev(g.iter)
                if not isinstance(v, list):
                    raise AnalysisError(f"{self.where}: comprehension over a scalar")
                seqs.append(v)
            out = []
            saved = {g.target.id: self.env.get(g.target.id) for g in e.generators}
            for combo in itertools.product(*seqs):
                for g, val in zip(e.generators, combo):
                    self.env[g.target.id] = val
                out.append(self.ev(e.elt))
            for k_, v_ in saved.items():
                if v_ is None:
                    self.env.pop(k_, None)
                else:
                    self.env[k_] = v_
            return out
        if isinstance(e, ast.ListComp) and len(e.generators) == 1 and not e.generators[0].ifs and isinstance(e.generators[0].target, ast.Tuple) and all(isinstance(x, ast.Name) for x in e.generators[0].target.elts):
            it = self.ev(e.generators[0].iter)
            names = [x.id for x in e.generators[0].target.elts]
            saved = {k_: self.env.get(k_) for k_ in names}
            out = []
            for row in it:
                if not isinstance(row, list) or len(row) != len(names):
                    raise AnalysisError(f"{self.where}: cannot unpack in '{core.norm(core.src(e), 60)}'")
                self.env.update(zip(names, row))
                out.append(self.ev(e.elt))
            for k_, v_ in saved.items():
                if v_ is None:
                    self.env.pop(k_, None)
                else:
                    self.env[k_] = v_
            return out
        if isinstance(e, ast.ListComp) and len(e.generators) == 1 and not e.generators[0].ifs and isinstance(e.generators[0].target, ast.Name):
            # iterating an array yields its rows
            it = self.ev(e.generators[0].iter)
            if not isinstance(it, list):
                raise AnalysisError(f"{self.where}: comprehension over a scalar")
            out = []
            saved = self.env.get(e.generators[0].target.id)
            for row in it:
                self.env[e.generators[0].target.id] = row
                out.append(self.ev(e.elt))
            if saved is None:
                self.env.pop(e.generators[0].target.id, None)
            else:
                self.env[e.generators[0].target.id] = saved
            return out
        if isinstance(e, ast.Call):
            f = core.src(e.func)
            if self.call_hook is not None:
                r = self.call_hook(e, self)
                if r is not None:
                    return r
            if f in ("np.array", "np.asarray", "np.ascontiguousarray", "float", "int", "np.double", "list", "tuple") and e.args:
                return self.ev(e.args[0])
            if f in ("np.abs", "abs", "np.absolute") and len(e.args) == 1:
                return _map2(lambda x, _: sp.Abs(x), self.ev(e.args[0]), sp.Integer(0))
            if f == "np.roll" and len(e.args) >= 2:
                a = self.ev(e.args[0])
                sh_ = e.args[1]
                k_ = sh_.value if isinstance(sh_, ast.Constant) else (-sh_.operand.value if isinstance(sh_, ast.UnaryOp) and isinstance(sh_.op, ast.USub) and isinstance(sh_.operand, ast.Constant) else None)
                ax_ = [k.value.value for k in e.keywords if k.arg == "axis" and isinstance(k.value, ast.Constant)]
                if not isinstance(k_, int) or not isinstance(a, list) or (len(shape(a)) > 1 and ax_ != [0]):
                    raise AnalysisError(f"{self.where}: '{core.norm(core.src(e), 50)}' (np.roll along the first axis by a literal shift is modelled)")
                n_ = len(a)
                return [a[(i - k_) % n_] for i in range(n_)]
            if isinstance(e.func, ast.Attribute) and e.func.attr in ("all", "any") and not e.args and len(e.keywords) == 1 and e.keywords[0].arg == "axis" and isinstance(e.keywords[0].value, ast.Constant) and e.keywords[0].value.value in (1, -1):
                v = self.ev(e.func.value)
                if len(shape(v)) != 2:
                    raise AnalysisError(f"{self.where}: .{e.func.attr}(axis=1) of shape {shape(v)}")
                return [(sp.And(*row) if e.func.attr == "all" else sp.Or(*row)) for row in v]
            if isinstance(e.func, ast.Attribute) and e.func.attr in ("all", "any") and not e.args and not e.keywords:
                v = self.ev(e.func.value)
                flat = []

                def fl(x):
                    if isinstance(x, list):
                        for y in x:
                            fl(y)
                    else:
                        flat.append(x)

                fl(v)
                return sp.And(*flat) if e.func.attr == "all" else sp.Or(*flat)
            if f == "np.linalg.norm" and e.args:
                a = self.ev(e.args[0])
                axis = [k.value for k in e.keywords if k.arg == "axis"]
                sh = shape(a)
                if len(sh) == 1 and not axis:
                    return sp.sqrt(sum(x**2 for x in a))
                if len(sh) == 2 and axis and isinstance(axis[0], ast.Constant) and axis[0].value in (0, 1, -1):
                    if axis[0].value == 0:
                        return [sp.sqrt(sum(a[i][j] ** 2 for i in range(sh[0]))) for j in range(sh[1])]
                    return [sp.sqrt(sum(a[i][j] ** 2 for j in range(sh[1]))) for i in range(sh[0])]
                raise AnalysisError(f"{self.where}: np.linalg.norm of shape {sh} with axis {core.src(axis[0]) if axis else None}")
            if f == "np.dot" and len(e.args) == 2:
                return dot(self.ev(e.args[0]), self.ev(e.args[1]))
            if f == "np.matmul" and len(e.args) == 2:
                return matmul(self.ev(e.args[0]), self.ev(e.args[1]))
            if f == "np.einsum" and len(e.args) >= 2 and isinstance(e.args[0], ast.Constant) and isinstance(e.args[0].value, str):
                return einsum(e.args[0].value, [self.ev(a_) for a_ in e.args[1:]])
            if f == "np.transpose" and len(e.args) == 1:
                return transpose(self.ev(e.args[0]))
            if f in ("np.conj", "np.conjugate") and len(e.args) == 1:
                return _map2(lambda x, _: sp.conjugate(x), self.ev(e.args[0]), sp.Integer(0))
            if isinstance(e.func, ast.Attribute) and e.func.attr in ("conj", "conjugate") and not e.args:
                return _map2(lambda x, _: sp.conjugate(x), self.ev(e.func.value), sp.Integer(0))
            if (isinstance(e.func, ast.Attribute) and e.func.attr == "transpose" and e.args) or (f == "np.transpose" and len(e.args) == 2):
                base = self.ev(e.func.value) if f != "np.transpose" else self.ev(e.args[0])
                ax = e.args if f != "np.transpose" else [e.args[1]]
                if len(ax) == 1 and isinstance(ax[0], (ast.Tuple, ast.List)):
                    ax = ax[0].elts
                if not all(isinstance(x, ast.Constant) and isinstance(x.value, int) for x in ax):
                    raise AnalysisError(f"{self.where}: transpose axes '{core.src(e)}'")
                return permute(base, [x.value for x in ax])
            if (isinstance(e.func, ast.Attribute) and e.func.attr == "swapaxes" and len(e.args) == 2) or (f == "np.swapaxes" and len(e.args) == 3):
                base = self.ev(e.func.value) if f != "np.swapaxes" else self.ev(e.args[0])
                a1, a2 = (e.args if f != "np.swapaxes" else e.args[1:])
                nd = len(shape(base))
                vals = []
                for x in (a1, a2):
                    v_ = x.value if isinstance(x, ast.Constant) else (-x.operand.value if isinstance(x, ast.UnaryOp) and isinstance(x.op, ast.USub) and isinstance(x.operand, ast.Constant) else None)
                    if not isinstance(v_, int):
                        raise AnalysisError(f"{self.where}: swapaxes '{core.src(e)}'")
                    vals.append(v_ % nd)
                axes = list(range(nd))
                axes[vals[0]], axes[vals[1]] = axes[vals[1]], axes[vals[0]]
                return permute(base, axes)
            if f in ("np.zeros", "np.ones") and e.args:
                dims = self.ev(e.args[0])
                dims = dims if isinstance(dims, list) else [dims]
                if not all(getattr(d_, "is_Integer", False) for d_ in dims):
                    raise AnalysisError(f"{self.where}: '{core.norm(core.src(e), 50)}' with a symbolic extent")
                fill = sp.Integer(0 if f == "np.zeros" else 1)

                def mk_(ds):
                    return fill if not ds else [mk_(ds[1:]) for _ in range(int(ds[0]))]

                return mk_(dims)
            if f in ("np.zeros_like", "np.ones_like") and e.args:
                fill = sp.Integer(0 if f == "np.zeros_like" else 1)
                return _map2(lambda x, _: fill, self.ev(e.args[0]), sp.Integer(0))
            if f == "enumerate" and len(e.args) == 1:
                v = self.ev(e.args[0])
                if not isinstance(v, list):
                    raise AnalysisError(f"{self.where}: enumerate over a scalar")
                return [[sp.Integer(i), x] for i, x in enumerate(v)]
            if f in ("np.arange", "range") and len(e.args) == 1 and not isinstance(e.args[0], ast.Constant):
                n_ = self.ev(e.args[0])
                if not getattr(n_, "is_Integer", False):
                    raise AnalysisError(f"{self.where}: '{core.src(e)}' with a symbolic extent")
                return [sp.Integer(i) for i in range(int(n_))]
            if f == "np.arange" and len(e.args) == 1 and isinstance(e.args[0], ast.Constant) and isinstance(e.args[0].value, int):
                return [sp.Integer(i) for i in range(e.args[0].value)]
            if (isinstance(e.func, ast.Attribute) and e.func.attr == "sum" and not e.args and f != "np.sum") or (f == "np.sum" and len(e.args) == 1):
                a = self.ev(e.func.value) if f != "np.sum" else self.ev(e.args[0])
                axis = [k.value for k in e.keywords if k.arg == "axis"]
                nd = len(shape(a))
                if not axis:
                    tot = sp.Integer(0)
                    stack = [a]
                    while stack:
                        x = stack.pop()
                        if isinstance(x, list):
                            stack += x
                        else:
                            tot += x
                    return tot
                axn = axis[0]
                axv = axn.value if isinstance(axn, ast.Constant) else (-axn.operand.value if isinstance(axn, ast.UnaryOp) and isinstance(axn.op, ast.USub) and isinstance(axn.operand, ast.Constant) else None)
                if not isinstance(axv, int) or nd == 0:
                    raise AnalysisError(f"{self.where}: sum over axis '{core.src(axn)}'")
                axv %= nd
                moved = permute(a, [axv] + [i for i in range(nd) if i != axv]) if nd > 1 else a
                acc = moved[0]
                for x in moved[1:]:
                    acc = _map2(lambda p_, q_: p_ + q_, acc, x)
                return acc
            if f == "range" and len(e.args) == 1 and isinstance(e.args[0], ast.Constant) and isinstance(e.args[0].value, int):
                return [sp.Integer(i) for i in range(e.args[0].value)]
            if f == "zip" and e.args:
                seqs = [self.ev(a_) for a_ in e.args]
                if not all(isinstance(x, list) for x in seqs):
                    raise AnalysisError(f"{self.where}: zip over a scalar")
                return [list(t) for t in zip(*seqs)]
            if f in ("np.eye", "np.identity") and e.args and isinstance(e.args[0], ast.Constant):
                n = e.args[0].value
                return [[sp.Integer(1 if i == j else 0) for j in range(n)] for i in range(n)]
            if f == "np.diag" and len(e.args) == 1:
                a = self.ev(e.args[0])
                s = shape(a)
                if len(s) == 1:
                    return [[a[i] if i == j else sp.Integer(0) for j in range(s[0])] for i in range(s[0])]
                if len(s) == 2:
                    return [a[i][i] for i in range(min(s))]
            if f == "np.diagonal" and len(e.args) == 1:
                a = self.ev(e.args[0])
                return [a[i][i] for i in range(min(shape(a)))]
            if isinstance(e.func, ast.Attribute) and e.func.attr in ("copy", "astype") :
                return self.ev(e.func.value)
            if isinstance(e.func, ast.Attribute) and e.func.attr == "reshape" and [core.src(a_) for a_ in e.args] in (["-1", "1"], ["3", "1"]):
                a = self.ev(e.func.value)
                if len(shape(a)) == 1:
                    return [[x] for x in a]
            if (isinstance(e.func, ast.Attribute) and e.func.attr == "reshape" and e.args) or (f == "np.reshape" and len(e.args) == 2):
                a = self.ev(e.func.value) if f != "np.reshape" else self.ev(e.args[0])
                dims_ = e.args if f != "np.reshape" else [e.args[1]]
                if len(dims_) == 1 and isinstance(dims_[0], (ast.Tuple, ast.List)):
                    dims_ = dims_[0].elts
                want = []
                for d_ in dims_:
                    v_ = self.ev(d_)
                    if isinstance(v_, list) or not getattr(v_, "is_Integer", False):
                        raise AnalysisError(f"{self.where}: reshape extent '{core.src(d_)}'")
                    want.append(int(v_))
                flat = []

                def fl_(x):
                    if isinstance(x, list):
                        for y in x:
                            fl_(y)
                    else:
                        flat.append(x)

                fl_(a)
                known = 1
                for w_ in want:
                    if w_ != -1:
                        known *= w_
                if want.count(-1) > 1 or known == 0 or len(flat) % known:
                    raise AnalysisError(f"{self.where}: reshape of {len(flat)} entries to {want}")
                want = [w_ if w_ != -1 else len(flat) // known for w_ in want]

                def build_(items, dims):
                    if len(dims) == 1:
                        return list(items)
                    step = len(items) // dims[0]
                    return [build_(items[i * step:(i + 1) * step], dims[1:]) for i in range(dims[0])]

                return build_(flat, want)
            if f == "len" and len(e.args) == 1:
                a = self.ev(e.args[0])
                if isinstance(a, list):
                    return sp.Integer(len(a))
            raise AnalysisError(f"{self.where}: call '{core.norm(core.src(e), 60)}' has no array meaning here")
        raise AnalysisError(f"{self.where}: expression '{core.norm(core.src(e), 60)}'")


class _Continue(Exception):
    pass


def run_block(evl: Evaluator, stmts) -> None:
    """Straight-line statements and for loops over arrays / zip(...) of arrays (rows are iterated), with
    ``name = expr``, ``self.attr = expr``, ``name.append(expr)``, ``name[k] = expr`` (k an integer literal or an unrolled
    loop index over range(n) with n known) and augmented assignments of names; everything else raises."""
    for st in stmts:
        if isinstance(st, ast.Expr) and isinstance(st.value, ast.Constant):
            continue
        if isinstance(st, ast.Assign) and len(st.targets) == 1 and isinstance(st.targets[0], (ast.Name, ast.Attribute)):
            v = st.value
            evl.env[core.src(st.targets[0])] = [] if isinstance(v, ast.List) and not v.elts else evl.ev(v)
            continue
        if isinstance(st, ast.AugAssign) and isinstance(st.target, (ast.Name, ast.Attribute)):
            evl.env[core.src(st.target)] = evl.ev(ast.BinOp(left=st.target, op=st.op, right=st.value))
            continue
        if isinstance(st, ast.Assign) and len(st.targets) == 1 and isinstance(st.targets[0], (ast.Tuple, ast.List)) and all(isinstance(x, (ast.Name, ast.Attribute)) for x in st.targets[0].elts):
            v = evl.ev(st.value)
            if not isinstance(v, list) or len(v) != len(st.targets[0].elts):
                raise AnalysisError(f"{evl.where}: cannot unpack '{core.norm(core.src(st), 60)}' (value of shape {shape(v)})")
            for x, r_ in zip(st.targets[0].elts, v):
                evl.env[core.src(x)] = r_
            continue
        if isinstance(st, ast.Raise):
            raise AnalysisError(f"{evl.where}: the evaluated path raises ('{core.norm(core.src(st), 50)}')")
        if isinstance(st, ast.Expr) and isinstance(st.value, ast.Call) and isinstance(st.value.func, ast.Attribute) and st.value.func.attr == "append" and len(st.value.args) == 1:
            tgt = core.src(st.value.func.value)
            if not isinstance(evl.env.get(tgt), list):
                raise AnalysisError(f"{evl.where}: append to '{tgt}' which is not a list built here")
            evl.env[tgt] = evl.env[tgt] + [evl.ev(st.value.args[0])]
            continue
        if isinstance(st, (ast.Assign, ast.AugAssign)) and isinstance(st.targets[0] if isinstance(st, ast.Assign) else st.target, ast.Subscript):
            tg = st.targets[0] if isinstance(st, ast.Assign) else st.target
            if len(getattr(st, "targets", [0])) == 1 and isinstance(tg.value, (ast.Name, ast.Attribute)) and isinstance(evl.env.get(core.src(tg.value)), list):
                ix = tg.slice
                k = ix.value if isinstance(ix, ast.Constant) and isinstance(ix.value, int) else (int(evl.env[ix.id]) if isinstance(ix, ast.Name) and isinstance(evl.env.get(ix.id), (int, sp.Integer)) else None)
                if k is not None:
                    val = evl.ev(st.value) if isinstance(st, ast.Assign) else evl.ev(ast.BinOp(left=tg, op=st.op, right=st.value))
                    arr = list(evl.env[core.src(tg.value)])
                    if shape(val) != shape(arr[k]):
                        val = _map2(lambda x, _: x, val, arr[k]) if not shape(val) else val
                    arr[k] = val
                    evl.env[core.src(tg.value)] = arr
                    continue
            raise AnalysisError(f"{evl.where}: store '{core.norm(core.src(st), 60)}' is outside the array fragment")
        if isinstance(st, ast.If) and isinstance(st.test, ast.Compare) and len(st.test.ops) == 1 and isinstance(st.test.ops[0], (ast.Is, ast.IsNot)) and isinstance(st.test.comparators[0], ast.Constant) and st.test.comparators[0].value is None:
            key = core.src(st.test.left)
            if key not in evl.env:
                raise AnalysisError(f"{evl.where}: '{core.src(st.test)}' of a value that is not modelled")
            is_none = evl.env[key] is None
            take = st.body if is_none == isinstance(st.test.ops[0], ast.Is) else st.orelse
            run_block(evl, take)
            continue
        if isinstance(st, ast.For) and not st.orelse:
            it = evl.ev(st.iter)
            if not isinstance(it, list):
                raise AnalysisError(f"{evl.where}: loop over a scalar")
            for row in it:
                if isinstance(st.target, ast.Name):
                    evl.env[st.target.id] = row
                elif isinstance(st.target, ast.Tuple) and all(isinstance(x, ast.Name) for x in st.target.elts) and isinstance(row, list) and len(row) == len(st.target.elts):
                    for x, r_ in zip(st.target.elts, row):
                        evl.env[x.id] = r_
                else:
                    raise AnalysisError(f"{evl.where}: loop target '{core.src(st.target)}'")
                try:
                    run_block(evl, st.body)
                except _Continue:
                    pass
            continue
        if isinstance(st, ast.Continue):
            raise _Continue()
        if isinstance(st, ast.Pass):
            continue
        if isinstance(st, ast.If):
            # a test on modelled values: decided symbolically; an (in)equation between generic symbols that sympy
            # cannot decide holds / fails at a generic point, which is what the evaluator's ``generic`` mode assumes
            c = evl.ev(st.test)
            if isinstance(c, list):
                raise AnalysisError(f"{evl.where}: truth value of an array in '{core.norm(core.src(st.test), 50)}'")
            c = sp.simplify(c) if isinstance(c, sp.Basic) else c
            if c in (sp.true, True):
                take = st.body
            elif c in (sp.false, False):
                take = st.orelse
            elif getattr(evl, "generic", False) and isinstance(c, (sp.Eq, sp.Ne)):
                take = st.orelse if isinstance(c, sp.Eq) else st.body
                evl.generic_used = getattr(evl, "generic_used", []) + [core.norm(core.src(st.test), 50)]
            else:
                raise AnalysisError(f"{evl.where}: test '{core.norm(core.src(st.test), 50)}' is not decided by the modelled values")
            run_block(evl, take)
            continue
        raise AnalysisError(f"{evl.where}: statement '{core.norm(core.src(st), 60)}' is outside the array fragment")


def backward_slice(body, target, opaque=()):
    """the top-level statements of ``body`` (in order) that can influence the expression ``target``: a statement is
    kept when it binds, augments, stores into or calls a method on a name that is needed; the names it reads become
    needed.  Names in ``opaque`` are sources (their assignments are not followed)."""
    needed = {x.id for x in ast.walk(target) if isinstance(x, ast.Name)} - set(opaque)
    keep = []
    for st in reversed(body):
        written = set()
        for x in ast.walk(st):
            if isinstance(x, (ast.Assign, ast.AugAssign, ast.AnnAssign)):
                for t in (x.targets if isinstance(x, ast.Assign) else [x.target]):
                    for y in ast.walk(t):
                        if isinstance(y, ast.Name) and isinstance(y.ctx, ast.Store):
                            written.add(y.id)
                        elif isinstance(y, ast.Subscript) and isinstance(y.value, ast.Name):
                            written.add(y.value.id)
            elif isinstance(x, ast.Expr) and isinstance(x.value, ast.Call) and isinstance(x.value.func, ast.Attribute) and isinstance(x.value.func.value, ast.Name):
                written.add(x.value.func.value.id)
            elif isinstance(x, ast.For):
                for y in ast.walk(x.target):
                    if isinstance(y, ast.Name):
                        written.add(y.id)
        if written & needed:
            keep.append(st)
            needed |= {x.id for x in ast.walk(st) if isinstance(x, ast.Name) and isinstance(x.ctx, ast.Load)} - set(opaque)
    return list(reversed(keep))


def equal(a, b) -> bool:
    sa, sb = shape(a), shape(b)
    if sa != sb:
        return False
    if not sa:
        return sp.simplify(a - b) == 0
    return all(equal(x, y) for x, y in zip(a, b))
