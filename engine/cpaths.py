"""Path enumeration through a (loop-free part of a) C function, with the branch conditions split into atoms.

A path is a list of events in execution order:

    ("cond", atom, truth)     an atomic condition (no &&, ||, !) evaluated with the given outcome
    ("stmt", node, choices)   an expression / declaration statement; ``choices`` maps id(ConditionalOperator) to the
                              arm taken on this path (the conditions of the operator precede the event as "cond" events)
    ("return", node|None)

Short-circuit evaluation is followed (``a && b`` false has the paths a false, and a true then b false).  A path that
assigns both outcomes to the same atom text is infeasible and dropped, as long as nothing the atom reads is written in
between (the enumerator is used on code that tests parameters and once-assigned locals; a write in between raises).
Loops are not unrolled: a loop statement is one "stmt" event (its body is not entered), which is what the clients need
(they look at the calls outside loops); ``resolve`` applies the choices of an event to an expression.
"""

from __future__ import annotations

from engine import cast
from engine.core import AnalysisError

MAX_PATHS = 4096


def _cond_paths(c):
    """[(events, truth)] for a condition expression"""
    c0 = cast.strip(c)
    k = c0.get("kind")
    ks = cast.kids(c0)
    if k == "ImplicitCastExpr" and ks:
        return _cond_paths(ks[0])
    if k == "UnaryOperator" and c0.get("opcode") == "!":
        return [(ev, not t) for ev, t in _cond_paths(ks[0])]
    if k == "BinaryOperator" and c0.get("opcode") in ("&&", "||"):
        is_and = c0.get("opcode") == "&&"
        out = []
        for ev, t in _cond_paths(ks[0]):
            if t != is_and:  # short circuit
                out.append((ev, t))
            else:
                for ev2, t2 in _cond_paths(ks[1]):
                    out.append((ev + ev2, t2))
        return out
    return [([("cond", c0, True)], True), ([("cond", c0, False)], False)]


def _condops(node):
    """outermost-first conditional operators of an expression statement"""
    return [x for x in cast.walk(node) if x.get("kind") == "ConditionalOperator"]


def _stmt_paths(st):
    """[(events, falls_through)]"""
    k = st.get("kind")
    ks = cast.kids(st)
    if k == "CompoundStmt":
        paths = [([], True)]
        for s in ks:
            new = []
            for ev, ft in paths:
                if not ft:
                    new.append((ev, ft))
                    continue
                for ev2, ft2 in _stmt_paths(s):
                    new.append((ev + ev2, ft2))
            paths = new
            if len(paths) > MAX_PATHS:
                raise AnalysisError("cpaths: too many paths")
        return paths
    if k == "IfStmt":
        cond, then = ks[0], ks[1]
        els = ks[2] if len(ks) > 2 else None
        out = []
        for ev, t in _cond_paths(cond):
            if t:
                out += [(ev + e2, ft) for e2, ft in _stmt_paths(then)]
            elif els is not None:
                out += [(ev + e2, ft) for e2, ft in _stmt_paths(els)]
            else:
                out.append((ev, True))
        return out
    if k == "ReturnStmt":
        return [([("return", ks[0] if ks else None)], False)]
    if k in ("NullStmt",):
        return [([], True)]
    if k in ("ForStmt", "WhileStmt", "DoStmt", "SwitchStmt") or k.startswith("OMP"):
        return [([("stmt", st, {})], True)]
    if k in ("BreakStmt", "ContinueStmt", "GotoStmt", "LabelStmt"):
        raise AnalysisError(f"cpaths: {k} outside a loop is not handled")
    # expression or declaration statement: split on its conditional operators
    ops = _condops(st)
    paths = [([], {})]
    for op in ops:
        c, a, b = cast.kids(op)
        new = []
        for ev, ch in paths:
            # an operator nested in an arm that was not chosen is not evaluated
            if any(id(op) in _ids(arm_not) for arm_not in ch.get("_dead", [])):
                new.append((ev, ch))
                continue
            for ev2, t in _cond_paths(c):
                ch2 = dict(ch)
                ch2[id(op)] = a if t else b
                ch2["_dead"] = ch.get("_dead", []) + [b if t else a]
                new.append((ev + ev2, ch2))
        paths = new
    return [(ev + [("stmt", st, {k_: v for k_, v in ch.items() if k_ != "_dead"})], True) for ev, ch in paths]


def _ids(node):
    return {id(x) for x in cast.walk(node)}


def _written(st):
    out = set()
    for x in cast.walk(st):
        k = x.get("kind")
        if k in ("BinaryOperator", "CompoundAssignOperator") and (k == "CompoundAssignOperator" or x.get("opcode") == "="):
            lhs = cast.strip(cast.kids(x)[0])
            while lhs.get("kind") in ("ArraySubscriptExpr", "MemberExpr") and cast.kids(lhs):
                lhs = cast.strip(cast.kids(lhs)[0])
            n = cast.ref_name(lhs)
            if n:
                out.add(n)
        elif k == "UnaryOperator" and x.get("opcode") in ("++", "--"):
            n = cast.ref_name(cast.kids(x)[0])
            if n:
                out.add(n)
        elif k == "VarDecl" and x.get("name"):
            out.add(x["name"])
        elif k == "CallExpr":
            for a in cast.call_args(x):
                a0 = cast.strip(a)
                if a0.get("kind") == "UnaryOperator" and a0.get("opcode") == "&":
                    n = cast.ref_name(cast.kids(a0)[0])
                    if n:
                        out.add(n)
                elif "*" in cast.qtype(a0) or "[" in cast.qtype(a0):
                    n = cast.ref_name(a0)  # an array / pointer argument may be filled by the callee
                    if n and "const" not in cast.qtype(a0).split("*")[0]:
                        out.add(n)
    return out


def _reads(atom):
    return {x.get("referencedDecl", {}).get("name") for x in cast.walk(atom) if x.get("kind") == "DeclRefExpr"}


def paths(fn):
    """feasible paths of the function: lists of events"""
    out = []
    for ev, _ in _stmt_paths(cast.body(fn)):
        seen = {}
        ok = True
        for e in ev:
            if e[0] == "cond":
                key = cast.text(e[1])
                if key in seen and seen[key][0] != e[2]:
                    ok = False
                    break
                seen.setdefault(key, (e[2], _reads(e[1])))
            elif e[0] == "stmt":
                w = _written(e[1])
                for key, (_, rd) in list(seen.items()):
                    if rd & w:
                        del seen[key]  # the atom may change its value: later tests of the same text are independent
        if ok:
            out.append(ev)
    return out


def resolve(node, choices):
    """the expression with the conditional operators replaced by the arms chosen on the path"""
    n = cast.strip(node)
    while n.get("kind") == "ConditionalOperator" and id(n) in choices:
        n = cast.strip(choices[id(n)])
    return n


def calls(event, name=None):
    """CallExpr nodes evaluated by a "stmt" event (arms of conditional operators not taken are skipped)"""
    if event[0] != "stmt":
        return []
    _, st, ch = event
    dead = set()
    for x in cast.walk(st):
        if x.get("kind") == "ConditionalOperator" and id(x) in ch:
            c, a, b = cast.kids(x)
            dead |= _ids(b if ch[id(x)] is a else a)
    return [x for x in cast.walk(st) if x.get("kind") == "CallExpr" and id(x) not in dead and (name is None or cast.callee_name(x) == name)]


def assignment(event):
    """(name, value node) when the event is ``name = value`` / a declaration with initialiser of a scalar or pointer"""
    if event[0] != "stmt":
        return None
    _, st, ch = event
    s0 = cast.strip(st)
    if s0.get("kind") == "BinaryOperator" and s0.get("opcode") == "=":
        lhs, rhs = cast.kids(s0)
        n = cast.ref_name(lhs) if cast.strip(lhs).get("kind") == "DeclRefExpr" else None
        if n:
            return n, resolve(rhs, ch)
    if s0.get("kind") == "DeclStmt":
        for d in cast.kids(s0):
            if d.get("kind") == "VarDecl" and cast.kids(d):
                return d.get("name"), resolve(cast.kids(d)[-1], ch)
    return None
