"""Alpha-normalisation of local variable names (recognition aid, never a deciding step).

Several rules look a construct up through the name of a local variable (``sum_value``, ``band_order`` ...).  A local
name carries no behaviour: a function in which locals were renamed consistently is the same function.  To keep such a
rename from costing the rules their anchors, every function of a parsed file is compared, with its locals replaced by
ordinals (order of first occurrence in a fixed traversal), against the digest recorded for the function of the same
qualified name on the confirmed tree (``alpha_table.json``, written by ``tools/gen_alpha.py``).  When the digests are
equal the function *is* the confirmed function up to a consistent bijective renaming of locals, and the syntax tree the
rules see gets the recorded names back.  When they differ in any other way nothing is done and the rules behave as
without this module (a vanished name ends in ANALYSIS-ERROR).

The table is never consulted to decide a property and cannot produce a report.  Only functions without nested scopes
(def / lambda / class) are treated; parameters, global/nonlocal names, imported names and attribute names are never
touched, so a renamed local that captures a free name changes the digest and is left alone.
"""

from __future__ import annotations

import ast
import hashlib
import json
import os
from pathlib import Path

TABLE = Path(__file__).resolve().parent.parent / "alpha_table.json"
_table: dict | None = None
restored: list[str] = []  # "rel::qualname: a->b, ..." for the evidence


def table() -> dict:
    global _table
    if _table is None:
        _table = json.loads(TABLE.read_text()) if TABLE.is_file() else {}
    return _table


def _local_names(fn: ast.FunctionDef) -> set[str] | None:
    a = fn.args
    params = {x.arg for x in a.args + a.kwonlyargs + a.posonlyargs}
    if a.vararg:
        params.add(a.vararg.arg)
    if a.kwarg:
        params.add(a.kwarg.arg)
    skip: set[str] = set()
    names: set[str] = set()
    for n in ast.walk(fn):
        if n is not fn and isinstance(n, (ast.FunctionDef, ast.AsyncFunctionDef, ast.Lambda, ast.ClassDef)):
            return None
        if isinstance(n, (ast.Global, ast.Nonlocal)):
            skip |= set(n.names)
        elif isinstance(n, (ast.Import, ast.ImportFrom)):
            for al in n.names:
                skip.add((al.asname or al.name).split(".")[0])
        elif isinstance(n, ast.ExceptHandler) and n.name:
            skip.add(n.name)
        elif isinstance(n, ast.Name) and isinstance(n.ctx, (ast.Store, ast.Del)):
            names.add(n.id)
    return names - params - skip


class _Names(ast.NodeVisitor):
    """Name nodes in a fixed (field-order, pre-order) traversal."""

    def __init__(self):
        self.nodes: list[ast.Name] = []

    def visit_Name(self, node):
        self.nodes.append(node)


def signature(fn: ast.FunctionDef):
    """(digest, names in ordinal order, Name nodes of locals) or None when the function is not treated."""
    loc = _local_names(fn)
    if not loc:
        return None
    v = _Names()
    for st in fn.body:
        v.visit(st)
    order: list[str] = []
    nodes = [n for n in v.nodes if n.id in loc]
    for n in nodes:
        if n.id not in order:
            order.append(n.id)
    idx = {nm: k for k, nm in enumerate(order)}
    saved = [n.id for n in nodes]
    for n in nodes:
        n.id = f"_L{idx[n.id]}"
    body = fn.body
    if body and isinstance(body[0], ast.Expr) and isinstance(getattr(body[0], "value", None), ast.Constant) and isinstance(body[0].value.value, str):
        body = body[1:]
    text = ast.dump(fn.args) + "|" + "|".join(ast.dump(s) for s in body)
    for n, old in zip(nodes, saved):
        n.id = old
    return hashlib.sha1(text.encode()).hexdigest(), order, nodes


def functions(tree: ast.Module):
    """(qualname, FunctionDef) for module-level functions and methods of (nested) classes; not nested functions."""

    def rec(node, prefix):
        for ch in ast.iter_child_nodes(node):
            if isinstance(ch, ast.ClassDef):
                yield from rec(ch, prefix + ch.name + ".")
            elif isinstance(ch, ast.FunctionDef):
                yield prefix + ch.name, ch
            elif isinstance(ch, (ast.If, ast.Try)):
                yield from rec(ch, prefix)

    yield from rec(tree, "")


def restore(tree: ast.Module, rel: str) -> None:
    ent = table().get(rel)
    if not ent or os.environ.get("VERIF_NO_ALPHA") == "1":  # the switch is for the surveys of tools/
        return
    seen: dict[str, int] = {}
    for q, fn in functions(tree):
        k = seen.get(q, 0)
        seen[q] = k + 1
        ref = ent.get(f"{q}#{k}")
        if ref is None:
            continue
        sig = signature(fn)
        if sig is None:
            continue
        digest, order, nodes = sig
        if digest != ref["digest"] or order == ref["names"] or len(order) != len(ref["names"]):
            continue
        back = dict(zip(order, ref["names"]))
        for n in nodes:
            n.id = back[n.id]
        restored.append(f"{rel}::{q}: " + ", ".join(f"{a}->{b}" for a, b in back.items() if a != b))


def build(repo: Path, rels: list[str]) -> dict:
    out: dict = {}
    for rel in rels:
        try:
            tree = ast.parse((repo / rel).read_text())
        except (SyntaxError, OSError):
            continue
        ent = {}
        seen: dict[str, int] = {}
        for q, fn in functions(tree):
            k = seen.get(q, 0)
            seen[q] = k + 1
            sig = signature(fn)
            if sig is None:
                continue
            ent[f"{q}#{k}"] = {"digest": sig[0], "names": sig[1]}
        if ent:
            out[rel] = ent
    return out
