"""The C counterpart of engine/alpha: pure renames of variables declared inside a C function are undone in the text
handed to the front end (recognition aid, never a deciding step).

The table (``calpha_table.json``, written by ``tools/gen_alpha.py`` with the help of clang's declarations on the
confirmed tree) records per function definition the number of tokens from its parameter list to its closing brace, the
token positions at which a local variable is named (with the ordinal of the variable), the recorded names and the digest
of the token stream with those positions replaced by ordinals.  On a run the same positions of the current text are
replaced by ordinals — provided they hold identifiers, one name per ordinal and one ordinal per name, and none of these
names occurs anywhere else in the function — and the digests are compared.  Equal digests: the function is the
confirmed one up to a consistent renaming of its locals, and the recorded names are written back (same lines, so
reported line numbers stay right).  Anything else: the text is left alone.
"""

from __future__ import annotations

import hashlib
import json
import os
import re
from pathlib import Path

TABLE = Path(__file__).resolve().parent.parent / "calpha_table.json"
_table: dict | None = None
restored: list[str] = []

_TOK = re.compile(
    r"""(?P<ws>[ \t\r\n]+|\\\n)
      |(?P<com>/\*.*?\*/|//[^\n]*)
      |(?P<pp>^[ \t]*\#[ \t]*(?!pragma)(?:[^\n\\]|\\.|\\\n)*)
      |(?P<str>"(?:[^"\\\n]|\\.)*"|'(?:[^'\\\n]|\\.)*')
      |(?P<id>[A-Za-z_]\w*)
      |(?P<num>\.?\d(?:[\w.]|[eEpP][+-])*)
      |(?P<op>->|.)
    """,
    re.X | re.S | re.M,
)


def table() -> dict:
    global _table
    if _table is None:
        _table = json.loads(TABLE.read_text()) if TABLE.is_file() else {}
    return _table


def tokens(text: str):
    """[(kind, text, start, end)] without white space and comments"""
    out = []
    for m in _TOK.finditer(text):
        k = m.lastgroup
        if k in ("ws", "com"):
            continue
        out.append((k, m.group(0), m.start(), m.end()))
    return out


def functions(toks):
    """(name, index of '(' after the name, index of the closing brace) for every definition at file level"""
    depth = 0
    i, n = 0, len(toks)
    while i < n:
        k, t = toks[i][0], toks[i][1]
        if k == "op" and t == "{":
            depth += 1
        elif k == "op" and t == "}":
            depth -= 1
        elif depth == 0 and k == "id" and i + 1 < n and toks[i + 1][1] == "(":
            j, pd = i + 1, 0
            while j < n:
                if toks[j][1] == "(" and toks[j][0] == "op":
                    pd += 1
                elif toks[j][1] == ")" and toks[j][0] == "op":
                    pd -= 1
                    if pd == 0:
                        break
                j += 1
            if j + 1 < n and toks[j + 1][1] == "{" and toks[j + 1][0] == "op":
                e, bd = j + 1, 0
                while e < n:
                    if toks[e][0] == "op" and toks[e][1] == "{":
                        bd += 1
                    elif toks[e][0] == "op" and toks[e][1] == "}":
                        bd -= 1
                        if bd == 0:
                            break
                    e += 1
                yield t, i + 1, e
                i = e + 1
                continue
        i += 1


def _digest(seq) -> str:
    return hashlib.sha1(" ".join(seq).encode()).hexdigest()


def entry(toks, lo, hi, local_names):
    """table entry of the function whose tokens are toks[lo..hi], given the names clang says are declared inside"""
    order: list[str] = []
    pos, ords, seq = [], [], []
    for p in range(lo, hi + 1):
        k, t = toks[p][0], toks[p][1]
        if k == "id" and t in local_names and not (p > 0 and toks[p - 1][1] in (".", "->")):
            if t not in order:
                order.append(t)
            pos.append(p - lo)
            ords.append(order.index(t))
            seq.append(f"\x00L{order.index(t)}")
        else:
            seq.append(t)
    if not order:
        return None
    return {"ntok": hi - lo + 1, "pos": pos, "ord": ords, "names": order, "digest": _digest(seq)}


def restore(text: str, rel: str) -> str:
    ent = table().get(rel)
    if not ent or os.environ.get("VERIF_NO_ALPHA") == "1":
        return text
    toks = tokens(text)
    seen: dict[str, int] = {}
    edits = []
    for name, lo, hi in functions(toks):
        k = seen.get(name, 0)
        seen[name] = k + 1
        ref = ent.get(f"{name}#{k}")
        if ref is None or ref["ntok"] != hi - lo + 1:
            continue
        names: dict[int, str] = {}
        ok = True
        at = set()
        for p, o in zip(ref["pos"], ref["ord"]):
            kind, t = toks[lo + p][0], toks[lo + p][1]
            if kind != "id" or names.setdefault(o, t) != t:
                ok = False
                break
            at.add(lo + p)
        if not ok or len(set(names.values())) != len(names):
            continue
        cur = [names[o] for o in range(len(ref["names"]))] if len(names) == len(ref["names"]) else None
        if cur is None or cur == ref["names"]:
            continue
        new_names = set(cur)
        for p in range(lo, hi + 1):
            kind, t = toks[p][0], toks[p][1]
            if p not in at and kind == "id" and t in new_names and not (p > 0 and toks[p - 1][1] in (".", "->")):
                ok = False  # the new name is also used for something else in the function: not a pure rename
                break
        if not ok:
            continue
        omap = dict(zip(ref["pos"], ref["ord"]))
        seq = [f"\x00L{omap[p - lo]}" if p in at else toks[p][1] for p in range(lo, hi + 1)]
        if _digest(seq) != ref["digest"]:
            continue
        for p in sorted(at):
            edits.append((toks[p][2], toks[p][3], ref["names"][omap[p - lo]]))
        restored.append(f"{rel}::{name}: " + ", ".join(f"{a}->{b}" for a, b in zip(cur, ref["names"]) if a != b))
    for s, e, new in sorted(edits, reverse=True):
        text = text[:s] + new + text[e:]
    return text


def build(read, load, rels) -> dict:
    """read(rel) -> text, load(rel) -> cast.TU; the table for the given C sources"""
    from . import cast

    out = {}
    for rel in rels:
        text = read(rel)
        toks = tokens(text)
        tu = load(rel)
        ent = {}
        defs = list(functions(toks))
        count: dict[str, int] = {}
        for name, _, _ in defs:
            count[name] = count.get(name, 0) + 1
        for name, lo, hi in defs:
            fn = tu.functions.get(name)
            if count[name] != 1 or fn is None:
                continue
            try:
                b = cast.body(fn)
            except Exception:
                continue
            loc = {x.get("name") for x in cast.walk(b) if x.get("kind") == "VarDecl" and x.get("name")}
            e = entry(toks, lo, hi, loc)
            if e:
                ent[f"{name}#0"] = e
        if ent:
            out[rel] = ent
    return out
