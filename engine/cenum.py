"""Concrete enumeration of the integer control flow of a C statement (clang JSON AST).

Some clauses are about *which index tuples* a loop nest visits -- "the block of every ordered atom pair is computed",
"the parallel and the serial arm call the kernel for the same (i, j)" -- and the nests are written in several
equivalent ways (a flattened ``ij`` loop with ``i = ij / n``, a triangular bound, a ``continue`` under ``j < i``).
For small concrete extents the iteration space is finite: this module walks the statement with concrete values for
the integer scalars it is given, follows ``for`` / ``while`` / ``if`` / ``continue`` / ``break`` and the integer
assignments, and reports every call (callee, integer values of the arguments that are integers) and every store to
an array cell whose subscripts are integers.  Nothing is executed: floating-point data, array contents and callees
are not modelled (their value is *unknown*), and a branch on an unknown value ends the enumeration with an
AnalysisError instead of a guess.
"""

from __future__ import annotations

from engine import cast
from engine.core import AnalysisError

MAX_STEPS = 200000


class _Continue(Exception):
    pass


class _Break(Exception):
    pass


class _Return(Exception):
    pass


class Enum:
    def __init__(self, env: dict, where: str = ""):
        self.env = dict(env)
        self.where = where
        self.calls = []  # (callee, tuple of int | None)
        self.stores = []  # (array name, tuple of subscripts int | None, compound?)
        self.steps = 0

    # ---- expressions ---------------------------------------------------------------------------------------------
    def ev(self, e):
        if e is None or not isinstance(e, dict) or not e:
            return None
        k = e.get("kind")
        ks = cast.kids(e)
        if k == "IntegerLiteral":
            try:
                return int(e.get("value"))
            except (TypeError, ValueError):
                return None
        if k in ("ImplicitCastExpr", "ParenExpr", "CStyleCastExpr", "ConstantExpr") and ks:
            v = self.ev(ks[-1])
            return v
        if k == "DeclRefExpr":
            return self.env.get(cast.ref_name(e))
        if k == "UnaryOperator":
            op = e.get("opcode")
            if op in ("++", "--"):
                nm = cast.ref_name(ks[0]) if cast.strip(ks[0]).get("kind") == "DeclRefExpr" else None
                old = self.env.get(nm) if nm else None
                if nm is not None:
                    self.env[nm] = None if old is None else old + (1 if op == "++" else -1)
                if e.get("isPostfix"):
                    return old
                return self.env.get(nm) if nm else None
            v = self.ev(ks[0])
            if v is None:
                return None
            if op == "-":
                return -v
            if op == "+":
                return v
            if op == "!":
                return int(not v)
            return None
        if k in ("BinaryOperator", "CompoundAssignOperator"):
            op = e.get("opcode")
            if op == "=" or k == "CompoundAssignOperator":
                lhs = cast.strip(ks[0])
                rv = self.ev(ks[1])
                if lhs.get("kind") == "DeclRefExpr":
                    nm = cast.ref_name(lhs)
                    if op == "=":
                        self.env[nm] = rv
                    else:
                        cur = self.env.get(nm)
                        self.env[nm] = self._bin(op[:-1], cur, rv)
                    return self.env[nm]
                # a store to an array cell
                base, subs = lhs, []
                while base.get("kind") == "ArraySubscriptExpr":
                    kk = cast.kids(base)
                    subs.append(self.ev(kk[1]))
                    base = cast.strip(kk[0])
                nm = cast.ref_name(base) if base.get("kind") == "DeclRefExpr" else None
                if nm is not None:
                    self.stores.append((nm, tuple(reversed(subs)), op != "="))
                return None
            if op == "&&":
                a = self.ev(ks[0])
                if a is not None and not a:
                    return 0
                b = self.ev(ks[1])
                if a is None or b is None:
                    return 0 if (b is not None and not b) else None
                return int(bool(a) and bool(b))
            if op == "||":
                a = self.ev(ks[0])
                if a is not None and a:
                    return 1
                b = self.ev(ks[1])
                if a is None or b is None:
                    return 1 if (b is not None and b) else None
                return int(bool(a) or bool(b))
            if op == ",":
                self.ev(ks[0])
                return self.ev(ks[1])
            return self._bin(op, self.ev(ks[0]), self.ev(ks[1]))
        if k == "ConditionalOperator":
            c = self.ev(ks[0])
            if c is None:
                return None
            return self.ev(ks[1] if c else ks[2])
        if k == "CallExpr":
            args = tuple(self.ev(a) for a in cast.call_args(e))
            self.calls.append((cast.callee_name(e), args))
            return None
        if k == "ArraySubscriptExpr":
            for x in ks:
                self.ev(x)
            return None
        return None

    @staticmethod
    def _bin(op, a, b):
        if a is None or b is None:
            return None
        try:
            if op == "+":
                return a + b
            if op == "-":
                return a - b
            if op == "*":
                return a * b
            if op == "/":
                if b == 0:
                    return None
                q = abs(a) // abs(b)
                return q if (a >= 0) == (b >= 0) else -q
            if op == "%":
                if b == 0:
                    return None
                q = abs(a) // abs(b)
                q = q if (a >= 0) == (b >= 0) else -q
                return a - q * b
            if op == "<":
                return int(a < b)
            if op == "<=":
                return int(a <= b)
            if op == ">":
                return int(a > b)
            if op == ">=":
                return int(a >= b)
            if op == "==":
                return int(a == b)
            if op == "!=":
                return int(a != b)
        except TypeError:
            return None
        return None

    # ---- statements ----------------------------------------------------------------------------------------------
    def cond(self, e, what):
        v = self.ev(e)
        if v is None:
            raise AnalysisError(f"{self.where}: {what} '{cast.text(e)[:60]}' depends on values that are not integers known here")
        return bool(v)

    def run(self, st):
        self.steps += 1
        if self.steps > MAX_STEPS:
            raise AnalysisError(f"{self.where}: enumeration exceeds {MAX_STEPS} steps")
        if st is None or not isinstance(st, dict) or not st:
            return
        k = st.get("kind", "")
        if k == "CompoundStmt":
            for s in cast.kids(st):
                self.run(s)
            return
        if k == "DeclStmt":
            for d in cast.kids(st):
                if d.get("kind") == "VarDecl":
                    init = cast.kids(d)
                    self.env[d.get("name")] = self.ev(init[-1]) if init else None
            return
        if k == "IfStmt":
            ks = cast.kids(st)
            if self.cond(ks[0], "condition"):
                self.run(ks[1])
            elif len(ks) > 2:
                self.run(ks[2])
            return
        if k == "ForStmt":
            inner = st.get("inner", [])
            if len(inner) != 5:
                raise AnalysisError(f"{self.where}: for statement of unexpected form")
            init, _, cnd, inc, body = inner
            if init:
                self.run(init) if init.get("kind") == "DeclStmt" else self.ev(init)
            while True:
                if cnd and not self.cond(cnd, "loop condition"):
                    break
                try:
                    self.run(body)
                except _Continue:
                    pass
                except _Break:
                    break
                if inc:
                    self.ev(inc)
                self.steps += 1
                if self.steps > MAX_STEPS:
                    raise AnalysisError(f"{self.where}: enumeration exceeds {MAX_STEPS} steps")
            return
        if k == "WhileStmt":
            ks = cast.kids(st)
            while self.cond(ks[0], "loop condition"):
                try:
                    self.run(ks[1])
                except _Continue:
                    continue
                except _Break:
                    break
                self.steps += 1
                if self.steps > MAX_STEPS:
                    raise AnalysisError(f"{self.where}: enumeration exceeds {MAX_STEPS} steps")
            return
        if k == "ContinueStmt":
            raise _Continue()
        if k == "BreakStmt":
            raise _Break()
        if k == "ReturnStmt":
            for x in cast.kids(st):
                self.ev(x)
            raise _Return()
        if k == "NullStmt":
            return
        if k.startswith("OMP") or k in ("CapturedStmt", "CapturedDecl"):
            for x in cast.kids(st):
                if x.get("kind") in ("CapturedStmt", "CapturedDecl", "ForStmt", "CompoundStmt") or x.get("kind", "").startswith("OMP"):
                    self.run(x)
                    return
            return
        # an expression statement
        self.ev(st)

    def run_function_body(self, body):
        try:
            self.run(body)
        except _Return:
            pass
        return self


def enumerate_stmt(stmt, env: dict, where: str = "") -> Enum:
    e = Enum(env, where)
    try:
        e.run(stmt)
    except _Return:
        pass
    except (_Continue, _Break):
        raise AnalysisError(f"{where}: continue / break outside a loop")
    return e
