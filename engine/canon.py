"""Canonical spelling of a few behaviour-preserving statement shapes, applied to every parsed Python file before any rule
looks at it, so that the rules see one spelling whichever the source uses.

  range(0, n)                      ->  range(n)
  np.transpose(x), x.transpose()   ->  x.T
  <constant> == x  /  != x         ->  x == <constant>  /  x != <constant>
  b == a  (no constant, no call)   ->  a == b   with the textually smaller side first
  if not c: A else: B              ->  if c: B else: A            (plain if/else; elif chains are left alone)
  x[i] = x[i] op e                 ->  x[i] op= e                 (subscript targets without calls; same __setitem__)
  t = e ; return t                 ->  return e                   (t bound once, read once, statements adjacent)
  t = a ; y = t op b               ->  y = a op b                 (t bound once, read once, adjacent statements, and t is
                                                                   the first operand evaluated in the second statement,
                                                                   so the order of evaluation is unchanged)

Each rewrite keeps the order in which sub-expressions are evaluated and the objects they are applied to; none of them
touches a name that is read anywhere else.  The pass changes what the rules *see*, never what they decide: a spelling
it does not know stays as it is.
"""

from __future__ import annotations

import ast

_BLOCKS = ("body", "orelse", "finalbody")


def _has_call(e) -> bool:
    return any(isinstance(x, (ast.Call, ast.Await, ast.Yield, ast.YieldFrom, ast.NamedExpr)) for x in ast.walk(e))


def _leftmost(e):
    """the sub-expression evaluated first"""
    while True:
        if isinstance(e, ast.BinOp):
            e = e.left
        elif isinstance(e, ast.Compare):
            e = e.left
        elif isinstance(e, (ast.Subscript, ast.Attribute)):
            e = e.value
        elif isinstance(e, ast.Call):
            f = e.func
            while isinstance(f, ast.Attribute):
                f = f.value
            if isinstance(f, ast.Name) and f is not e.func or isinstance(e.func, ast.Name):
                # looking a plain (dotted) name up has no effect: the first argument is evaluated first
                if isinstance(e.func, ast.Attribute) and not _is_module_like(e.func):
                    e = e.func  # a method of an object expression: the object comes first
                elif e.args and not isinstance(e.args[0], ast.Starred):
                    e = e.args[0]
                else:
                    return e
            else:
                e = e.func
        elif isinstance(e, ast.UnaryOp):
            e = e.operand
        elif isinstance(e, ast.BoolOp):
            e = e.values[0]
        elif isinstance(e, ast.Tuple) and e.elts:
            e = e.elts[0]
        else:
            return e


def _is_module_like(f) -> bool:
    """np.sqrt, np.linalg.inv, math.sqrt: attribute chains on the usual module aliases"""
    while isinstance(f, ast.Attribute):
        f = f.value
    return isinstance(f, ast.Name) and f.id in ("np", "numpy", "math", "sp", "scipy", "warnings", "os", "sys")


class _Exprs(ast.NodeTransformer):
    def visit_Call(self, node):
        self.generic_visit(node)
        # np.transpose(x) / x.transpose() without axes  ->  x.T
        if not node.keywords and ((ast.unparse(node.func) in ("np.transpose", "numpy.transpose") and len(node.args) == 1) or (isinstance(node.func, ast.Attribute) and node.func.attr == "transpose" and not node.args and not (isinstance(node.func.value, ast.Name) and node.func.value.id in ("np", "numpy")))):
            inner = node.args[0] if node.args else node.func.value
            return ast.copy_location(ast.Attribute(value=inner, attr="T", ctx=ast.Load()), node)
        if isinstance(node.func, ast.Name) and node.func.id == "range" and len(node.args) == 2 and not node.keywords and isinstance(node.args[0], ast.Constant) and node.args[0].value == 0 and type(node.args[0].value) is int:
            node.args = [node.args[1]]
        return node

    def visit_Compare(self, node):
        self.generic_visit(node)
        if len(node.ops) == 1 and isinstance(node.ops[0], (ast.Eq, ast.NotEq)) and isinstance(node.left, ast.Constant) and not isinstance(node.comparators[0], ast.Constant):
            node.left, node.comparators = node.comparators[0], [node.left]
        elif len(node.ops) == 1 and isinstance(node.ops[0], (ast.Eq, ast.NotEq)) and not isinstance(node.left, ast.Constant) and not isinstance(node.comparators[0], ast.Constant) and not _has_call(node):
            # two non-constant sides: the textually smaller one first (== and != of names, attributes and subscripts
            # are symmetric for the scalars and arrays compared in this code base)
            if ast.unparse(node.comparators[0]) < ast.unparse(node.left):
                node.left, node.comparators = node.comparators[0], [node.left]
        return node

    def visit_If(self, node):
        self.generic_visit(node)
        if isinstance(node.test, ast.UnaryOp) and isinstance(node.test.op, ast.Not) and node.orelse and not (len(node.orelse) == 1 and isinstance(node.orelse[0], ast.If)):
            node.test = node.test.operand
            node.body, node.orelse = node.orelse, node.body
        return node

    def visit_Assign(self, node):
        self.generic_visit(node)
        if len(node.targets) == 1 and isinstance(node.targets[0], ast.Subscript) and isinstance(node.value, ast.BinOp) and isinstance(node.value.op, (ast.Add, ast.Sub, ast.Mult, ast.Div)) and not _has_call(node.targets[0]):
            t = node.targets[0]
            if ast.dump(node.value.left).replace("Load()", "X").replace("Store()", "X") == ast.dump(t).replace("Load()", "X").replace("Store()", "X"):
                return ast.copy_location(ast.AugAssign(target=t, op=node.value.op, value=node.value.right), node)
        return node


def _name_counts(fn):
    stores, loads = {}, {}
    nested = False
    for n in ast.walk(fn):
        if n is not fn and isinstance(n, (ast.FunctionDef, ast.AsyncFunctionDef, ast.Lambda, ast.ClassDef)):
            nested = True
        if isinstance(n, ast.Name):
            d = stores if isinstance(n.ctx, (ast.Store, ast.Del)) else loads
            d[n.id] = d.get(n.id, 0) + 1
        elif isinstance(n, (ast.Global, ast.Nonlocal)):
            for x in n.names:
                stores[x] = stores.get(x, 0) + 2
    return stores, loads, nested


def _inline_temps(fn):
    changed = True
    while changed:
        changed = False
        stores, loads, nested = _name_counts(fn)
        if nested:
            return
        params = {a.arg for a in fn.args.args + fn.args.kwonlyargs + fn.args.posonlyargs}
        for node in ast.walk(fn):
            for field in _BLOCKS:
                body = getattr(node, field, None)
                if not isinstance(body, list):
                    continue
                for k in range(len(body) - 1):
                    a, b = body[k], body[k + 1]
                    if not (isinstance(a, ast.Assign) and len(a.targets) == 1 and isinstance(a.targets[0], ast.Name)):
                        continue
                    t = a.targets[0].id
                    if t in params or stores.get(t) != 1 or loads.get(t) != 1:
                        continue
                    if isinstance(b, ast.Return) and isinstance(b.value, ast.Name) and b.value.id == t and not isinstance(a.value, ast.Name):
                        b.value = a.value
                    elif isinstance(a.value, ast.Attribute):
                        continue  # obj.attr aliases (dm1 = dynmat.dynamical_matrix) are snapshots, not temporaries
                    elif isinstance(b, (ast.Assign, ast.AugAssign, ast.Return, ast.Expr)) and b.value is not None:
                        lm = _leftmost(b.value)
                        if not (isinstance(lm, ast.Name) and lm.id == t):
                            continue
                        if isinstance(b, ast.AugAssign):
                            continue  # the target is read before the value is evaluated

                        class _Sub(ast.NodeTransformer):
                            def visit_Name(self, n):
                                return a.value if n is lm else n

                        b.value = _Sub().visit(b.value)
                    else:
                        continue
                    del body[k]
                    changed = True
                    break
                if changed:
                    break
            if changed:
                break


def normalise(tree: ast.Module) -> None:
    _Exprs().visit(tree)
    for fn in [n for n in ast.walk(tree) if isinstance(n, ast.FunctionDef)]:
        _inline_temps(fn)
    ast.fix_missing_locations(tree)
