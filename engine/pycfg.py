"""E1 — path-sensitive definite-assignment analysis for Python functions.

A structured forward dataflow over the statement kinds the repository uses.  The
abstract state is a set of *worlds*; a world is (set of definitely-bound local
names, set of guard facts).  Guard facts are (text of a pure guard expression,
truth value): when the same guard is tested again and none of the names it reads
was rebound in between, only the consistent arm is followed — this is what
recognises the repo's idiom

    if self._with_eigenvectors: eigenvectors = ...
    ...
    if self._with_eigenvectors: self._eigenvectors = eigenvectors

as safe, and `return frequencies, eigenvectors` after a one-armed
`if self._with_eigenvectors:` as possibly unbound.
"""

from __future__ import annotations

import ast
import builtins
from dataclasses import dataclass

from . import core

MAX_WORLDS = 128
BUILTINS = set(dir(builtins))


@dataclass(frozen=True)
class World:
    defined: frozenset
    facts: frozenset  # of (text, bool)

    def with_def(self, names):
        if not names:
            return self
        names = set(names)
        facts = frozenset(f for f in self.facts if not (_reads(f[0]) & names))
        return World(self.defined | names, facts)

    def without(self, names):
        return World(self.defined - set(names), self.facts)


_reads_cache: dict = {}


def _reads(text: str) -> set:
    if text not in _reads_cache:
        try:
            t = ast.parse(text, mode="eval")
            names = {n.id for n in ast.walk(t) if isinstance(n, ast.Name)}
            names |= {core.src(n) for n in ast.walk(t) if isinstance(n, ast.Attribute)}
        except SyntaxError:
            names = set()
        _reads_cache[text] = names
    return _reads_cache[text]


def is_pure_guard(e: ast.AST) -> bool:
    if isinstance(e, ast.Name):
        return True
    if isinstance(e, ast.Attribute):
        return is_pure_guard(e.value)
    if isinstance(e, ast.Constant):
        return True
    if isinstance(e, ast.UnaryOp) and isinstance(e.op, ast.Not):
        return is_pure_guard(e.operand)
    if isinstance(e, ast.Compare) and len(e.ops) == 1 and isinstance(e.ops[0], (ast.Is, ast.IsNot, ast.Eq, ast.NotEq, ast.Gt, ast.Lt, ast.GtE, ast.LtE, ast.In, ast.NotIn)):
        return is_pure_guard(e.left) and is_pure_guard(e.comparators[0])
    if isinstance(e, ast.Call) and not e.args and not e.keywords and isinstance(e.func, ast.Attribute) and core.src(e.func) in ("phonoc.use_openmp",):
        return True
    if isinstance(e, ast.Call) and isinstance(e.func, ast.Name) and e.func.id in ("isinstance", "len", "hasattr") and all(is_pure_guard(a) or isinstance(a, ast.Tuple) for a in e.args):
        return True
    if isinstance(e, ast.BoolOp):
        return all(is_pure_guard(v) for v in e.values)
    if isinstance(e, (ast.Tuple, ast.List)):
        return all(is_pure_guard(v) for v in e.elts)
    return False


def _norm_guard(e: ast.AST):
    """Return (text, polarity): `not g` -> (g, False); `x is not None` -> ('x is None', False)."""
    pol = True
    while isinstance(e, ast.UnaryOp) and isinstance(e.op, ast.Not):
        e, pol = e.operand, not pol
    if isinstance(e, ast.Compare) and len(e.ops) == 1:
        op = e.ops[0]
        flip = {ast.IsNot: ast.Is, ast.NotEq: ast.Eq, ast.NotIn: ast.In}
        if type(op) in flip:
            e2 = ast.Compare(left=e.left, ops=[flip[type(op)]()], comparators=e.comparators)
            return core.src(e2), not pol
    return core.src(e), pol


class Finding:
    def __init__(self, name, node, world, worlds=()):
        self.name, self.node, self.world = name, node, world
        self.worlds = worlds  # every world reaching the use


def flag_implications(cls: ast.ClassDef) -> list:
    """From __init__: `self._a = a`, `self._b = b`, `if b: self._a = True`  =>  (self._b True) implies (self._a True).
    Returns [((text_b, True), (text_a, True))]."""
    out = []
    init = [m for m in cls.body if isinstance(m, ast.FunctionDef) and m.name == "__init__"]
    if not init:
        return out
    init = init[0]
    stored = {}
    for s in ast.walk(init):
        if isinstance(s, ast.Assign) and len(s.targets) == 1 and isinstance(s.value, ast.Name) and isinstance(s.targets[0], ast.Attribute):
            stored[s.value.id] = core.src(s.targets[0])
    for s in init.body:
        if isinstance(s, ast.If) and isinstance(s.test, ast.Name) and s.test.id in stored and not s.orelse:
            for b in s.body:
                if isinstance(b, ast.Assign) and isinstance(b.value, ast.Constant) and b.value.value is True and isinstance(b.targets[0], ast.Attribute):
                    # the implied attribute must not be reassigned later in __init__
                    tgt = core.src(b.targets[0])
                    later = [x for x in ast.walk(init) if isinstance(x, ast.Assign) and core.src(x.targets[0]) == tgt and x.lineno > b.lineno]
                    if not later:
                        out.append(((stored[s.test.id], True), (tgt, True)))
    return out


class DefiniteAssignment:
    def __init__(self, fn: ast.FunctionDef, implications=()):
        self.fn = fn
        self.implications = list(implications)
        self.findings: list[Finding] = []
        self.locals = self._local_names(fn)
        self.params = {a.arg for a in fn.args.args + fn.args.kwonlyargs + fn.args.posonlyargs}
        if fn.args.vararg:
            self.params.add(fn.args.vararg.arg)
        if fn.args.kwarg:
            self.params.add(fn.args.kwarg.arg)
        self.globals_ = set()
        for n in ast.walk(fn):
            if isinstance(n, (ast.Global, ast.Nonlocal)):
                self.globals_ |= set(n.names)
        self.reported = set()

    @staticmethod
    def _local_names(fn):
        out = set()
        stack = list(fn.body)
        while stack:
            n = stack.pop()
            if isinstance(n, (ast.FunctionDef, ast.AsyncFunctionDef, ast.ClassDef)):
                out.add(n.name)
                continue
            if isinstance(n, ast.Lambda):
                continue
            if isinstance(n, (ast.ListComp, ast.SetComp, ast.DictComp, ast.GeneratorExp)):
                # comprehension targets are scoped to the comprehension; walrus is not used in the repo
                for ch in ast.iter_child_nodes(n):
                    if not isinstance(ch, ast.comprehension):
                        stack.append(ch)
                for g in n.generators:
                    stack.append(g.iter)
                    stack.extend(g.ifs)
                continue
            if isinstance(n, ast.Name) and isinstance(n.ctx, (ast.Store, ast.Del)):
                out.add(n.id)
            elif isinstance(n, (ast.Import, ast.ImportFrom)):
                for a in n.names:
                    out.add((a.asname or a.name).split(".")[0])
            elif isinstance(n, ast.ExceptHandler) and n.name:
                out.add(n.name)
            stack.extend(ast.iter_child_nodes(n))
        return out

    # ------------------------------------------------------------------
    def run(self):
        w0 = World(frozenset(self.params), frozenset())
        self.block(self.fn.body, {w0})
        return self.findings

    def cap(self, worlds: set) -> set:
        if len(worlds) <= MAX_WORLDS:
            return worlds
        # merge: drop facts, intersect nothing (keep distinct defined sets)
        merged = {}
        for w in worlds:
            merged.setdefault(w.defined, set()).add(w)
        return {World(d, frozenset()) for d in merged}

    def uses(self, expr, worlds, bound=frozenset()):
        """Check loads in an expression (not entering lambdas / nested defs)."""
        if expr is None:
            return
        stack = [(expr, bound)]
        while stack:
            n, b = stack.pop()
            if isinstance(n, (ast.Lambda, ast.FunctionDef, ast.AsyncFunctionDef, ast.ClassDef)):
                continue
            if isinstance(n, (ast.ListComp, ast.SetComp, ast.DictComp, ast.GeneratorExp)):
                b2 = set(b)
                first = True
                for g in n.generators:
                    stack.append((g.iter, frozenset(b2) if not first else b))
                    first = False
                    b2 |= {x.id for x in ast.walk(g.target) if isinstance(x, ast.Name)}
                    for i in g.ifs:
                        stack.append((i, frozenset(b2)))
                b2 = frozenset(b2)
                if isinstance(n, ast.DictComp):
                    stack.append((n.key, b2))
                    stack.append((n.value, b2))
                else:
                    stack.append((n.elt, b2))
                continue
            if isinstance(n, ast.Name) and isinstance(n.ctx, ast.Load):
                nm = n.id
                if nm in b or nm not in self.locals or nm in self.globals_ or nm in self.params:
                    continue
                for w in worlds:
                    if nm not in w.defined:
                        key = (nm, getattr(n, "lineno", 0), getattr(n, "col_offset", 0))
                        if key not in self.reported:
                            self.reported.add(key)
                            self.findings.append(Finding(nm, n, w, frozenset(worlds)))
                        break
                continue
            for ch in ast.iter_child_nodes(n):
                stack.append((ch, b))

    @staticmethod
    def targets(t) -> set:
        return {n.id for n in ast.walk(t) if isinstance(n, ast.Name) and isinstance(n.ctx, ast.Store)}

    def define(self, worlds, names):
        return {w.with_def(names) for w in worlds}

    def block(self, stmts, worlds):
        """Returns (worlds falling through). Break/continue worlds are kept on self."""
        for s in stmts:
            if not worlds:
                break
            worlds = self.cap(self.stmt(s, worlds))
        return worlds

    def stmt(self, s, worlds):
        if isinstance(s, ast.Assign):
            self.uses(s.value, worlds)
            for t in s.targets:
                self._uses_in_target(t, worlds)
            names = set()
            attr_targets = set()
            for t in s.targets:
                names |= self.targets(t)
                for n in ast.walk(t):
                    if isinstance(n, ast.Attribute) and isinstance(n.ctx, ast.Store):
                        attr_targets.add(core.src(n))
            return {w.with_def(names | attr_targets).without(attr_targets) if attr_targets else w.with_def(names) for w in worlds}
        if isinstance(s, ast.AnnAssign):
            self.uses(s.value, worlds)
            return self.define(worlds, self.targets(s.target)) if s.value is not None else worlds
        if isinstance(s, ast.AugAssign):
            self.uses(s.value, worlds)
            if isinstance(s.target, ast.Name):
                self.uses(ast.Name(id=s.target.id, ctx=ast.Load(), lineno=s.lineno, col_offset=s.col_offset), worlds)
            else:
                self._uses_in_target(s.target, worlds)
            return self.define(worlds, self.targets(s.target))
        if isinstance(s, ast.Expr):
            self.uses(s.value, worlds)
            if isinstance(s.value, ast.Call) and core.src(s.value.func) in ("sys.exit", "exit", "quit"):
                return set()
            return worlds
        if isinstance(s, ast.Return):
            self.uses(s.value, worlds)
            return set()
        if isinstance(s, ast.Raise):
            self.uses(s.exc, worlds)
            return set()
        if isinstance(s, ast.Delete):
            names = set()
            for t in s.targets:
                if isinstance(t, ast.Name):
                    names.add(t.id)
            return {w.without(names) for w in worlds}
        if isinstance(s, (ast.Import, ast.ImportFrom)):
            return self.define(worlds, {(a.asname or a.name).split(".")[0] for a in s.names})
        if isinstance(s, (ast.FunctionDef, ast.AsyncFunctionDef, ast.ClassDef)):
            for d in s.decorator_list:
                self.uses(d, worlds)
            return self.define(worlds, {s.name})
        if isinstance(s, ast.If):
            return self.if_stmt(s, worlds)
        if isinstance(s, (ast.For, ast.AsyncFor)):
            self.uses(s.iter, worlds)
            return self.loop(s, worlds, self.targets(s.target))
        if isinstance(s, ast.While):
            self.uses(s.test, worlds)
            return self.loop(s, worlds, set())
        if isinstance(s, (ast.With, ast.AsyncWith)):
            names = set()
            for it in s.items:
                self.uses(it.context_expr, worlds)
                if it.optional_vars is not None:
                    names |= self.targets(it.optional_vars)
            return self.block(s.body, self.define(worlds, names))
        if isinstance(s, ast.Try):
            return self.try_stmt(s, worlds)
        if isinstance(s, ast.Assert):
            self.uses(s.test, worlds)
            return worlds
        if isinstance(s, (ast.Pass, ast.Global, ast.Nonlocal)):
            return worlds
        if isinstance(s, ast.Break):
            self._breaks[-1] |= worlds
            return set()
        if isinstance(s, ast.Continue):
            self._continues[-1] |= worlds
            return set()
        if isinstance(s, ast.Match):
            self.uses(s.subject, worlds)
            out = set()
            for c in s.cases:
                names = {n.name for n in ast.walk(c.pattern) if isinstance(n, (ast.MatchAs, ast.MatchStar)) and n.name}
                out |= self.block(c.body, self.define(worlds, names))
            return out | worlds
        # unknown statement kind: be conservative
        for ch in ast.iter_child_nodes(s):
            if isinstance(ch, ast.expr):
                self.uses(ch, worlds)
        return worlds

    def _uses_in_target(self, t, worlds):
        for n in ast.walk(t):
            if isinstance(n, ast.Subscript):
                self.uses(ast.Name(id=n.value.id, ctx=ast.Load(), lineno=n.lineno, col_offset=n.col_offset), worlds) if isinstance(n.value, ast.Name) else None
                self.uses(n.slice, worlds)
            elif isinstance(n, ast.Attribute) and isinstance(n.value, ast.Name):
                self.uses(ast.Name(id=n.value.id, ctx=ast.Load(), lineno=n.lineno, col_offset=n.col_offset), worlds)

    _breaks: list = []
    _continues: list = []

    def split(self, test, worlds):
        """Split worlds on a test: returns (worlds where true, worlds where false)."""
        # conjunctions/disjunctions of pure guards: handle And on the true side, Or on the false side
        if isinstance(test, ast.BoolOp) and all(is_pure_guard(v) for v in test.values):
            if isinstance(test.op, ast.And):
                t = worlds
                f = set()
                for v in test.values:
                    t2, f2 = self.split(v, t)
                    f |= f2
                    t = t2
                return t, f
            else:
                f = worlds
                t = set()
                for v in test.values:
                    t2, f2 = self.split(v, f)
                    t |= t2
                    f = f2
                return t, f
        if not is_pure_guard(test):
            return worlds, worlds
        text, pol = _norm_guard(test)
        if isinstance(test, ast.Constant):
            return (worlds, set()) if bool(test.value) else (set(), worlds)
        t, f = set(), set()
        for w in worlds:
            known = dict(w.facts).get(text)
            if known is None:
                for val, dest in ((pol, t), (not pol, f)):
                    nw = self._assume(w, text, val)
                    if nw is not None:
                        dest.add(nw)
            elif known == pol:
                t.add(w)
            else:
                f.add(w)
        return t, f

    def _assume(self, w, text, val):
        """Add a fact and close under the class's flag implications; None if contradictory."""
        facts = dict(w.facts)
        todo = [(text, val)]
        while todo:
            k, v = todo.pop()
            if k in facts:
                if facts[k] != v:
                    return None
                continue
            facts[k] = v
            # None is falsy:  (x is None) => not x ;  x (truthy) => not (x is None)
            if k.endswith(" is None") and v:
                todo.append((k[: -len(" is None")], False))
            elif v and not k.endswith(" is None") and " " not in k:
                todo.append((k + " is None", False))
            for (a, av), (b, bv) in self.implications:
                if k == a and v == av:
                    todo.append((b, bv))
                if k == b and v != bv:
                    todo.append((a, not av))
        return World(w.defined, frozenset(facts.items()))

    def if_stmt(self, s, worlds):
        self.uses(s.test, worlds)
        t, f = self.split(s.test, worlds)
        out_t = self.block(s.body, t) if t else set()
        out_f = self.block(s.orelse, f) if f else set()
        return out_t | out_f

    def loop(self, s, worlds, target_names):
        self._breaks.append(set())
        self._continues.append(set())
        entry = worlds
        idx = None
        if isinstance(s, ast.For) and isinstance(s.iter, ast.Call) and core.src(s.iter.func) == "enumerate" and isinstance(s.target, ast.Tuple) and isinstance(s.target.elts[0], ast.Name):
            idx = s.target.elts[0].id
        body_in = self.define(entry, target_names)
        if idx:
            body_in = {x for x in (self._assume(w, f"{idx} == 0", True) for w in body_in) if x is not None}
        out1 = self.block(s.body, body_in) | self._continues[-1]
        # second pass from the states after one iteration (names bound in the body are now bound)
        self._continues[-1] = set()
        body_in2 = self.define(out1, target_names)
        if idx:
            body_in2 = {x for x in (self._assume(w, f"{idx} == 0", False) for w in body_in2) if x is not None}
        out2 = self.block(s.body, self.cap(body_in2)) | self._continues[-1] if out1 else set()
        brk = self._breaks.pop()
        self._continues.pop()
        exit_normal = entry | out1 | out2  # zero or more iterations
        if isinstance(s, ast.While) and isinstance(s.test, ast.Constant) and s.test.value:
            exit_normal = set()
        after_else = self.block(s.orelse, exit_normal) if s.orelse else exit_normal
        return self.cap(after_else | brk)

    def try_stmt(self, s, worlds):
        # worlds reaching a handler: any prefix of the try body may have executed
        seen = set(worlds)
        cur = worlds
        for st in s.body:
            if not cur:
                break
            cur = self.cap(self.stmt(st, cur))
            seen |= cur
        body_out = cur
        body_out = self.block(s.orelse, body_out) if s.orelse else body_out
        out = set(body_out)
        for h in s.handlers:
            hw = self.cap(seen)
            if h.type is not None:
                self.uses(h.type, hw)
            if h.name:
                hw = self.define(hw, {h.name})
            out |= self.block(h.body, hw)
        if s.finalbody:
            out = self.block(s.finalbody, self.cap(out | seen)) if out else self.block(s.finalbody, self.cap(seen)) and set()
        return out


def possibly_unbound(fn: ast.FunctionDef, implications=()) -> list[Finding]:
    return DefiniteAssignment(fn, implications).run()


class Typestate(DefiniteAssignment):
    """Two-state typestate over the same worlds: a statement classified 'dirty' clears the
    marker, one classified 'clean' sets it; exits() returns the worlds at every normal exit
    (return statements and falling off the end; raise is not a normal exit)."""

    MARK = "$clean"

    def __init__(self, fn, classify, implications=(), probe=None):
        super().__init__(fn, implications)
        self.classify = classify
        self.probe = probe
        self.probed: list = []  # (stmt, world) for statements selected by probe(stmt), before they execute
        self.exit_worlds: list = []  # (node or None, world)
        self.locals = set()  # no unbound-name reporting in this mode

    def run(self):
        w0 = World(frozenset(self.params) | {self.MARK}, frozenset())
        out = self.block(self.fn.body, {w0})
        for w in out:
            self.exit_worlds.append((None, w))
        return self.exit_worlds

    def stmt(self, s, worlds):
        if self.probe is not None and not isinstance(s, (ast.If, ast.For, ast.While, ast.With, ast.Try)) and self.probe(s):
            for w in worlds:
                self.probed.append((s, w))
        if isinstance(s, ast.Return):
            k = self.classify(s)
            if k == "dirty":
                worlds = {w.without({self.MARK}) for w in worlds}
            elif k == "clean":
                worlds = {World(w.defined | {self.MARK}, w.facts) for w in worlds}
            for w in worlds:
                self.exit_worlds.append((s, w))
            return set()
        simple = isinstance(s, (ast.Assign, ast.AugAssign, ast.AnnAssign, ast.Expr, ast.Delete))
        out = super().stmt(s, worlds)
        if simple:
            k = self.classify(s)
            if k == "dirty":
                out = {w.without({self.MARK}) for w in out}
            elif k == "clean":
                out = {World(w.defined | {self.MARK}, w.facts) for w in out}
        return out
