"""Checker self-test: each rule module lists source variants (one edit each) that
must make a named rule fire ('break') or must leave the check silent ('neutral').
Variants are applied to a scratch copy of the analysed files (never to /repo), the
check is re-run on the copy in a subprocess, and the copy is removed.

A miss (breaking variant not reported / neutral variant reported) is an error of
the *checker* and ends the thorough run with ANALYSIS-ERROR (exit 2).
"""

from __future__ import annotations

import json
import os
import re
import shutil
import subprocess
import sys
import tempfile
from concurrent.futures import ThreadPoolExecutor
from pathlib import Path

from . import core

COPY = ["phonopy", "c", "CMakeLists.txt", "doc/setting-tags.md", "doc/command-options.md", "pyproject.toml"]


def _copy_repo(dst: Path):
    for rel in COPY:
        s = core.REPO / rel
        d = dst / rel
        if s.is_dir():
            shutil.copytree(s, d, ignore=shutil.ignore_patterns("__pycache__", "*.so", "*.pyc"))
        elif s.is_file():
            d.parent.mkdir(parents=True, exist_ok=True)
            shutil.copy2(s, d)


def apply_edit(text: str, v: dict) -> str | None:
    if "regex" in v:
        new, n = re.subn(v["regex"], v["new"], text, count=0, flags=re.M | re.S)
        want = v.get("count", 1)
        return new if n == want else None
    old = v["old"]
    if "nth" in v:  # replace only the nth (0-based) occurrence
        parts = text.split(old)
        if len(parts) - 1 <= v["nth"]:
            return None
        k = v["nth"]
        return old.join(parts[: k + 1]) + v["new"] + old.join(parts[k + 1 :])
    if text.count(old) != v.get("count", 1):
        return None
    return text.replace(old, v["new"])


def run_variant(pid: str, v: dict, base: Path, timeout: int = 900) -> dict:
    tmp = Path(tempfile.mkdtemp(prefix=f"verif-{pid}-", dir=os.environ.get("VERIF_SCRATCH", "/tmp")))
    try:
        repo = tmp / "repo"
        _copy_repo(repo)
        edits = v.get("edits") or [v]
        for e in edits:
            f = repo / e["file"]
            if not f.is_file():
                return {"name": v["name"], "status": "inapplicable", "why": f"{e['file']} missing"}
            new = apply_edit(f.read_text(), e)
            if new is None:
                return {"name": v["name"], "status": "inapplicable", "why": f"edit anchor not found exactly {e.get('count', 1)}x in {e['file']}"}
            f.write_text(new)
            if e["file"].endswith(".py"):
                try:
                    compile(new, e["file"], "exec")
                except SyntaxError as ex:
                    return {"name": v["name"], "status": "inapplicable", "why": f"variant does not compile: {ex}"}
        env = dict(os.environ)
        env.update(VERIF_REPO=str(repo), VERIF_OUT=str(tmp / "out"), VERIF_EVIDENCE_DIR=str(tmp / "ev"), VERIF_NO_SELFTEST="1", VERIF_NO_DELEGATE="1")
        p = subprocess.run([sys.executable, str(core.VERIF / "check.py"), pid, "--tier", "quick"], capture_output=True, text=True, env=env, timeout=timeout)
        out = p.stdout + p.stderr
        fired = []
        for m in re.finditer(r"^\s+\[(R[\w.]+)\] (.*)$", out, re.M):
            fired.append((m.group(1), m.group(2)))
        kind = v["kind"]
        if kind == "neutral":
            ok = p.returncode == 0
            return {"name": v["name"], "status": "ok" if ok else "MISS", "why": "" if ok else f"neutral variant raised exit {p.returncode}: {out[-600:]}"}
        want_rule = v["rule"]
        want_sub = v.get("expect", "")
        hit = [f for f in fired if f[0] == want_rule and want_sub in f[1]]
        if p.returncode == 1 and hit:
            return {"name": v["name"], "status": "ok", "why": hit[0][1][:160]}
        return {"name": v["name"], "status": "MISS", "why": f"exit {p.returncode}; fired {[f[0] for f in fired]}; tail: {out[-500:]}"}
    except subprocess.TimeoutExpired:
        return {"name": v["name"], "status": "MISS", "why": "timeout"}
    finally:
        shutil.rmtree(tmp, ignore_errors=True)


def run(pid: str, mod) -> int:
    variants = mod.selftest()
    if not variants:
        return 0
    with ThreadPoolExecutor(max_workers=min(16, len(variants))) as ex:
        results = list(ex.map(lambda v: run_variant(pid, v, core.REPO), variants))
    # a variant that ran out of wall-clock time on a loaded machine says nothing about the rule: once more, alone
    for i, (v, r) in enumerate(zip(variants, results)):
        if r["status"] == "MISS" and r["why"] == "timeout":
            results[i] = run_variant(pid, v, core.REPO, timeout=3000)
    miss = [r for r in results if r["status"] == "MISS"]
    inapp = [r for r in results if r["status"] == "inapplicable"]
    ok = [r for r in results if r["status"] == "ok"]
    print(f"{pid} self-test: {len(ok)} ok, {len(miss)} missed, {len(inapp)} inapplicable of {len(results)} variants")
    for r in miss + inapp:
        print(f"   {r['status']}: {r['name']}: {r['why'][:300]}")
    # append to the evidence file
    ev = core.EVIDENCE_DIR / f"{pid}.json"
    if ev.is_file():
        d = json.loads(ev.read_text())
        d["coverage"]["checker_selftest"] = {
            "variants": len(results),
            "detected_or_silent_as_expected": len(ok),
            "missed": [r["name"] for r in miss],
            "inapplicable": [r["name"] for r in inapp],
            "examples": [{"variant": r["name"], "report": r["why"]} for r in ok[:6]],
        }
        ev.write_text(json.dumps(d, indent=1))
    if miss:
        print(f"ANALYSIS-ERROR property={pid} checker self-test missed {len(miss)} variant(s)")
        return 2
    if len(inapp) > max(2, len(results) // 3):
        print(f"ANALYSIS-ERROR property={pid} {len(inapp)} self-test variants no longer apply to the tree: refresh the catalogue")
        return 2
    return 0
