"""Index analysis for the C kernels: per-function write summaries with subscripts as
polynomials in loop variables and size parameters, callee summaries substituted
at call sites (context-insensitive in the pointer targets, exact in the scalar
arguments), mixed-radix injectivity and symbolic bound checks.

Nothing is executed; loops are never unrolled: a loop contributes its induction
variable as a symbol with an interval [lo, hi).
"""

from __future__ import annotations

import itertools
import re
from dataclasses import dataclass, field

import sympy as sp

from . import cast, core
from .core import AnalysisError

_pos = {}


def psym(name: str) -> sp.Symbol:
    """size parameters / loop variables: non-negative integers"""
    if name not in _pos:
        _pos[name] = sp.Symbol(name, integer=True, nonnegative=True)
    return _pos[name]


def type_dims(qt: str) -> tuple[str, list[int | None], bool]:
    """('double', [None, 3, 3], is_pointer_like) for 'double (*)[3][3]';
    ('double', [3], False) for 'double[3]'; ('double', [None], True) for 'double *'."""
    t = qt.replace("const ", "").replace("restrict", "").strip()
    m = re.match(r"^([A-Za-z_][A-Za-z_0-9 ]*?)\s*\(\*\)\s*((?:\[\d+\])*)$", t)
    if m:
        dims = [int(x) for x in re.findall(r"\[(\d+)\]", m.group(2))]
        return m.group(1).strip(), [None] + dims, True
    m = re.match(r"^([A-Za-z_][A-Za-z_0-9 ]*?)\s*((?:\[\d+\])+)$", t)
    if m:
        dims = [int(x) for x in re.findall(r"\[(\d+)\]", m.group(2))]
        return m.group(1).strip(), dims, False
    m = re.match(r"^([A-Za-z_][A-Za-z_0-9 ]*?)\s*\*$", t)
    if m:
        return m.group(1).strip(), [None], True
    return t, [], False


@dataclass
class Write:
    base: str  # parameter or local name of the written object
    base_kind: str  # 'param' | 'local_array' | 'local_ptr'
    index: object  # sympy expr: flattened element offset
    vars: dict  # symbol -> (lo, hi) for loop variables that occur
    op: str  # '=', '+=', ...
    line: int
    fn: str
    via: tuple = ()
    sub_checks: list = field(default_factory=list)  # [(subscript expr, dim)] fixed inner dims
    loops: tuple = ()  # loop symbols of the summarised function that enclose the write


@dataclass
class Summary:
    name: str
    writes: list
    scalar_writes: dict  # name -> [line]
    allocs: dict  # local ptr -> element count expr
    frees: dict  # local ptr -> count
    reads_unknown: list
    loops: list  # (var, lo, hi, line)
    calls: list  # (callee, line)
    node: dict


class Analyzer:
    def __init__(self, tus: list[cast.TU]):
        self.tus = tus
        self.fns: dict[str, tuple[cast.TU, dict]] = {}
        for tu in tus:
            for n, f in tu.functions.items():
                self.fns.setdefault(n, (tu, f))
        self.cache: dict[str, Summary] = {}
        self.stack: list[str] = []

    # ------------------------------------------------------------------
    def summary(self, name: str) -> Summary | None:
        if name in self.cache:
            return self.cache[name]
        if name not in self.fns or name in self.stack:
            return None
        tu, fn = self.fns[name]
        self.stack.append(name)
        try:
            s = _FnWalker(self, tu, fn).run()
        finally:
            self.stack.pop()
        self.cache[name] = s
        return s


class _FnWalker:
    def __init__(self, an: Analyzer, tu: cast.TU, fn: dict, region: dict | None = None):
        self.an, self.tu, self.fn = an, tu, fn
        self.name = fn["name"]
        self.params = {p["name"]: cast.qtype(p) for p in cast.params(fn) if "name" in p}
        self.local_types: dict[str, str] = {}
        self.writes: list[Write] = []
        self.scalar_writes: dict[str, list] = {}
        self.allocs: dict[str, object] = {}
        self.frees: dict[str, int] = {}
        self.unknown: list[str] = []
        self.loops: list = []
        self.calls: list = []
        self.loopvars: dict = {}  # sympy symbol -> (lo, hi)
        self.alias: dict[str, tuple[str, object, list]] = {}  # local ptr -> (base, offset, dims)
        self.decl_lines: dict[str, int] = {}
        self.loop_stack: list = []
        self.decl_stack: dict = {}
        self.accesses: list = []  # (base, [subscripts], dims, line, loop bounds snapshot)
        self._read_keys: set = set()
        self.reads: list = []  # Write-like records for loads from pointer parameters / local pointers
        self.scalar_write_ctx: list = []  # (name, line, loop stack)
        self.parallel: dict = {}  # loop symbol -> OMP directive node

    def run(self) -> Summary:
        env: dict[str, object] = {}
        for p, t in self.params.items():
            _, dims, isptr = type_dims(t)
            if not dims:
                env[p] = psym(p)
        self.block(cast.kids(cast.body(self.fn)), env)
        s = Summary(self.name, self.writes, self.scalar_writes, self.allocs, self.frees, self.unknown, self.loops, self.calls, self.fn)
        s.scalar_write_ctx = self.scalar_write_ctx
        s.parallel = self.parallel
        s.local_types = self.local_types
        s.params = self.params
        s.loopvars = self.loopvars
        s.decl_stack = self.decl_stack
        s.accesses = self.accesses
        s.reads = self.reads
        return s

    def _record_read(self, base, idx, qt, node):
        if base in self.alias:
            b0, off0, dims0 = self.alias[base]
            off, rem = _flatten(idx, dims0)
            index, base_name = off0 + off, b0
        else:
            qt2 = self.params.get(base) or self.local_types.get(base) or qt
            _, dims, isptr = type_dims(qt2)
            if not dims:
                return
            off, rem = _flatten(idx, dims)
            index, base_name = off, base
        if base_name in self.params:
            kind = "param"
        elif base_name in self.local_types:
            kind = "local_ptr" if type_dims(self.local_types.get(base_name, ""))[2] else "local_array"
        else:
            return
        try:
            index = sp.expand(index)
        except Exception:
            return
        key = (base_name, str(index))
        if key in self._read_keys:
            return
        self._read_keys.add(key)
        self.reads.append(Write(base_name, kind, index, self.vars_of(index), "read", self.tu.line(node) or 0, self.name, (), [], tuple(self.loop_stack)))

    def _sw(self, nm, line):
        self.scalar_writes.setdefault(nm, []).append(line)
        self.scalar_write_ctx.append((nm, line, tuple(self.loop_stack)))

    # -- expressions -----------------------------------------------------
    def ev(self, e: dict, env: dict):
        """Integer-valued expression -> sympy; opaque function for anything else."""
        k = e.get("kind")
        ks = cast.kids(e)
        if k in ("ParenExpr", "ImplicitCastExpr", "CStyleCastExpr", "ConstantExpr"):
            return self.ev(ks[0], env)
        if k == "IntegerLiteral":
            return sp.Integer(int(e["value"]))
        if k == "DeclRefExpr":
            nm = e["referencedDecl"]["name"]
            if nm in env and env[nm] is not None:
                return env[nm]
            return sp.Symbol(f"?{nm}@{self.name}", integer=True)
        if k == "UnaryOperator" and e.get("opcode") == "-":
            return -self.ev(ks[0], env)
        if k == "BinaryOperator":
            op = e.get("opcode")
            if op in ("+", "-", "*", "/", "%"):
                a, b = self.ev(ks[0], env), self.ev(ks[1], env)
                if op == "+":
                    return a + b
                if op == "-":
                    return a - b
                if op == "*":
                    return sp.expand(a * b)
                if op == "/":
                    q = a / b
                    return q if q.is_integer and not q.has(sp.floor) and sp.denom(sp.together(q)) == 1 else sp.floor(a / b)
                if op == "%":
                    return sp.Mod(a, b)
        if k == "ArraySubscriptExpr":
            base, idx, qt, _ = self.subscript_chain(e, env)
            self._record_read(base, idx, qt, e)
            return sp.Function(f"load:{base}")(*idx)
        if k == "CallExpr":
            return sp.Function(f"call:{cast.callee_name(e)}")(*[self.ev(a, env) if cast.is_int_type(cast.qtype(a)) else sp.Symbol("_") for a in cast.call_args(e)])
        if k == "UnaryExprOrTypeTraitExpr":
            return sp.Symbol(f"sizeof<{e.get('argType', {}).get('qualType', cast.qtype(ks[0]) if ks else '?')}>", positive=True, integer=True)
        if k == "ConditionalOperator":
            return sp.Function("cond")(sp.Symbol(core.norm(cast.text(ks[0]), 60)), self.ev(ks[1], env), self.ev(ks[2], env))
        return sp.Symbol(f"?<{core.norm(cast.text(e), 50)}>")

    def subscript_chain(self, e: dict, env: dict):
        """a[i][j] -> (base name, [i, j], base qualtype, base decl kind)."""
        idx = []
        cur = e
        while True:
            cur = cast.strip(cur)
            if cur.get("kind") == "ArraySubscriptExpr":
                b, i = cast.kids(cur)
                idx.append(self.ev(i, env))
                cur = b
            else:
                break
        idx.reverse()
        cur = cast.strip(cur)
        if cur.get("kind") == "DeclRefExpr":
            nm = cur["referencedDecl"]["name"]
            qt = self.params.get(nm) or self.local_types.get(nm) or cast.qtype(cur)
            _, dims, _ = type_dims(qt)
            if nm in self.alias:
                dims = self.alias[nm][2]
            if dims:
                self.accesses.append((nm, list(idx), list(dims), self.tu.line(e) or 0, dict(self.loopvars)))
            return nm, idx, cast.qtype(cur), cur["referencedDecl"].get("kind")
        if cur.get("kind") == "UnaryOperator" and cur.get("opcode") == "*":
            inner = cast.strip(cast.kids(cur)[0])
            if inner.get("kind") == "DeclRefExpr":
                return inner["referencedDecl"]["name"], [sp.Integer(0)] + idx, cast.qtype(inner), inner["referencedDecl"].get("kind")
        return f"<{core.norm(cast.text(cur), 40)}>", idx, "", None

    def pointer_value(self, e: dict, env: dict):
        """Pointer-typed expression -> (base, element offset, remaining dims) or None."""
        e0 = e
        e = cast.strip(e)
        while e.get("kind") in ("ImplicitCastExpr", "CStyleCastExpr", "ParenExpr"):
            e = cast.strip(cast.kids(e)[0])
        k = e.get("kind")
        if k == "DeclRefExpr":
            nm = e["referencedDecl"]["name"]
            if nm in self.alias:
                return self.alias[nm]
            qt = self.params.get(nm) or self.local_types.get(nm) or cast.qtype(e)
            _, dims, _ = type_dims(qt)
            if not dims:
                return None
            return (nm, sp.Integer(0), dims)
        if k == "ArraySubscriptExpr":
            base, idx, qt, _ = self.subscript_chain(e, env)
            if base in self.alias:
                b0, off0, dims0 = self.alias[base]
                off, rem = _flatten(idx, dims0)
                return (b0, off0 + off, rem)
            qt = self.params.get(base) or self.local_types.get(base) or qt
            _, dims, _ = type_dims(qt)
            if not dims:
                return None
            off, rem = _flatten(idx, dims)
            return (base, off, rem)
        if k == "BinaryOperator" and e.get("opcode") in ("+", "-"):
            a, b = cast.kids(e)
            pa = self.pointer_value(a, env)
            if pa is not None:
                base, off, dims = pa
                stride = _prod(dims[1:])
                delta = self.ev(b, env) * stride
                return (base, off + (delta if e["opcode"] == "+" else -delta), dims)
        if k == "UnaryOperator" and e.get("opcode") == "&":
            inner = cast.strip(cast.kids(e)[0])
            if inner.get("kind") == "ArraySubscriptExpr":
                pv = self.pointer_value(inner, env)
                if pv is not None:
                    return (pv[0], pv[1], pv[2] or [None])
            if inner.get("kind") == "DeclRefExpr":
                return (inner["referencedDecl"]["name"], sp.Integer(0), [1])
        return None

    # -- statements ----------------------------------------------------------
    def block(self, stmts, env):
        for s in stmts:
            self.stmt(s, env)

    def assigned_names(self, node) -> set[str]:
        out = set()
        for x in cast.walk(node):
            k = x.get("kind")
            if k in ("BinaryOperator", "CompoundAssignOperator") and x.get("opcode", "").endswith("=") and x.get("opcode") not in ("==", "!=", "<=", ">="):
                nm = cast.ref_name(cast.kids(x)[0])
                if nm:
                    out.add(nm)
            elif k == "UnaryOperator" and x.get("opcode") in ("++", "--"):
                nm = cast.ref_name(cast.kids(x)[0])
                if nm:
                    out.add(nm)
        return out

    def stmt(self, s, env):
        k = s.get("kind")
        ks = cast.kids(s)
        line = self.tu.line(s) or 0
        if k == "CompoundStmt":
            self.block(ks, env)
        elif k == "DeclStmt":
            for d in ks:
                if d.get("kind") != "VarDecl":
                    continue
                nm, qt = d["name"], cast.qtype(d)
                self.local_types[nm] = qt
                self.decl_lines[nm] = line
                self.decl_stack[nm] = tuple(self.loop_stack)
                _, dims, isptr = type_dims(qt)
                init = [c for c in cast.kids(d) if c.get("kind") not in ("FullComment",)]
                if init:
                    self.assign_name(nm, init[0], env, line, decl=True)
                elif not dims:
                    env[nm] = None
        elif k in ("BinaryOperator", "CompoundAssignOperator") and s.get("opcode", "").endswith("=") and s.get("opcode") not in ("==", "!=", "<=", ">="):
            lhs, rhs = ks
            self.visit_calls(rhs, env)
            l = cast.strip(lhs)
            if l.get("kind") == "ArraySubscriptExpr":
                for sub in cast.kids(l)[1:]:
                    self.scan_reads(sub, env)
                if s.get("kind") == "CompoundAssignOperator":
                    self.scan_reads(l, env)
            if l.get("kind") == "DeclRefExpr":
                nm = l["referencedDecl"]["name"]
                if s["opcode"] == "=":
                    self.assign_name(nm, rhs, env, line)
                else:
                    self._sw(nm, line)
                    cur = env.get(nm)
                    if cur is not None and cast.is_int_type(self.local_types.get(nm, self.params.get(nm, ""))):
                        v = self.ev(rhs, env)
                        op = s["opcode"][0]
                        env[nm] = {"+": cur + v, "-": cur - v, "*": cur * v}.get(op)
                    else:
                        env[nm] = None
            else:
                self.record_write(l, s["opcode"], env, line)
        elif k == "UnaryOperator" and s.get("opcode") in ("++", "--"):
            l = cast.strip(ks[0])
            if l.get("kind") == "DeclRefExpr":
                nm = l["referencedDecl"]["name"]
                self._sw(nm, line)
                env[nm] = None
            else:
                self.record_write(l, s["opcode"], env, line)
        elif k == "ForStmt":
            self.for_stmt(s, env, line)
        elif k in ("WhileStmt", "DoStmt"):
            for nm in self.assigned_names(s):
                env[nm] = None
            body = ks[-1] if k == "WhileStmt" else ks[0]
            self.stmt(body, env)
            for nm in self.assigned_names(s):
                env[nm] = None
        elif k == "IfStmt":
            self.visit_calls(ks[0], env)
            e1, e2 = dict(env), dict(env)
            self.stmt(ks[1], e1)
            if len(ks) > 2:
                self.stmt(ks[2], e2)
            for nm in set(e1) | set(e2):
                a, b = e1.get(nm), e2.get(nm)
                env[nm] = a if (a is not None and b is not None and a == b) else None
        elif k == "SwitchStmt":
            for nm in self.assigned_names(s):
                env[nm] = None
            for c in ks[1:]:
                self.stmt(c, dict(env))
        elif k in ("CaseStmt", "DefaultStmt"):
            for c in ks:
                if c.get("kind") not in ("ConstantExpr", "IntegerLiteral"):
                    self.stmt(c, env)
        elif k == "ReturnStmt":
            for c in ks:
                self.visit_calls(c, env)
        elif k == "CallExpr":
            self.call(s, env, line)
        elif k in ("OMPParallelForDirective",):
            for c in ks:
                if c.get("kind") == "CapturedStmt":
                    for cc in cast.walk(c):
                        if cc.get("kind") == "ForStmt":
                            self.for_stmt(cc, env, self.tu.line(cc) or line, parallel=s)
                            break
                    break
        elif k in ("NullStmt", "BreakStmt", "ContinueStmt", None):
            pass
        else:
            self.visit_calls(s, env)

    def visit_calls(self, e, env):
        self.scan_reads(e, env)
        for x in cast.walk(e):
            if x.get("kind") == "CallExpr":
                self.call(x, env, self.tu.line(x) or 0)

    def scan_reads(self, e, env):
        """Record every array load in an expression tree (outermost subscript chains)."""
        stack = [e]
        while stack:
            x = stack.pop()
            if not isinstance(x, dict):
                continue
            if x.get("kind") == "ArraySubscriptExpr":
                try:
                    base, idx, qt, _ = self.subscript_chain(x, env)
                    self._record_read(base, idx, qt, x)
                except Exception:
                    pass
                # subscripts of the chain may contain further loads
                cur = x
                while cast.strip(cur).get("kind") == "ArraySubscriptExpr":
                    cur = cast.strip(cur)
                    b, i = cast.kids(cur)
                    stack.append(i)
                    cur = b
                continue
            stack.extend(cast.kids(x))

    def assign_name(self, nm, rhs, env, line, decl=False):
        qt = self.local_types.get(nm) or self.params.get(nm, "")
        _, dims, isptr = type_dims(qt)
        if not decl:
            self._sw(nm, line)
        self.visit_calls(rhs, env)
        if isptr or dims:
            # pointer local: malloc or alias
            r = cast.strip(rhs)
            while r.get("kind") in ("CStyleCastExpr", "ImplicitCastExpr", "ParenExpr"):
                r = cast.strip(cast.kids(r)[0])
            if r.get("kind") == "CallExpr" and cast.callee_name(r) in ("malloc", "calloc"):
                size = self.ev(cast.call_args(r)[0], env)
                if cast.callee_name(r) == "calloc":
                    size = size * self.ev(cast.call_args(r)[1], env)
                self.allocs[nm] = (size, qt, line)
                self.alias.pop(nm, None)
                return
            if r.get("kind") in ("IntegerLiteral", "GNUNullExpr") or cast.text(r) in ("0", "NULL", "((void *)0)", "(void *)0"):
                return
            pv = self.pointer_value(rhs, env)
            if pv is not None:
                self.alias[nm] = pv
            return
        if cast.is_int_type(qt):
            env[nm] = self.ev(rhs, env)
        else:
            env[nm] = None

    def for_stmt(self, s, env, line, parallel=None):
        ks = s.get("inner", [])
        # clang: [init, condvar(null), cond, inc, body]
        init, cond, inc, body = ks[0], ks[2], ks[3], ks[4]
        var = lo = hi = None
        if isinstance(init, dict) and init.get("kind") == "BinaryOperator" and init.get("opcode") == "=":
            var = cast.ref_name(cast.kids(init)[0])
            lo = self.ev(cast.kids(init)[1], env)
        elif isinstance(init, dict) and init.get("kind") == "DeclStmt":
            d = cast.kids(init)[0]
            var = d.get("name")
            self.local_types[var] = cast.qtype(d)
            lo = self.ev(cast.kids(d)[0], env) if cast.kids(d) else None
        ok_inc = isinstance(inc, dict) and inc.get("kind") == "UnaryOperator" and inc.get("opcode") == "++" and cast.ref_name(cast.kids(inc)[0]) == var
        if isinstance(cond, dict) and cond.get("kind") == "BinaryOperator" and cond.get("opcode") in ("<", "<=") and cast.ref_name(cast.kids(cond)[0]) == var:
            hi = self.ev(cast.kids(cond)[1], env)
            if cond["opcode"] == "<=":
                hi = hi + 1
        assigned = self.assigned_names(body)
        for nm in assigned:
            env[nm] = None
        if var is not None and lo is not None and hi is not None and ok_inc and var not in assigned:
            sym = psym(f"{var}@{self.name}:{line}")
            self.loopvars[sym] = (lo, hi)
            self.loops.append((var, lo, hi, line, parallel is not None))
            env[var] = sym
            if parallel is not None:
                self.parallel[sym] = parallel
            self.loop_stack.append(sym)
            self._sw(var, line)
            self.stmt(body, env)
            self.loop_stack.pop()
            env[var] = None
        else:
            if var:
                env[var] = None
                self._sw(var, line)
            self.unknown.append(f"{self.name}:{line}: loop not in canonical form 'for (v = lo; v < hi; v++)'")
            self.stmt(body, env)
        for nm in assigned:
            env[nm] = None

    def record_write(self, lhs, op, env, line):
        if lhs.get("kind") == "ArraySubscriptExpr" or (lhs.get("kind") == "UnaryOperator" and lhs.get("opcode") == "*"):
            base, idx, qt, dk = self.subscript_chain(lhs, env)
            sub_checks = []
            if base in self.alias:
                b0, off0, dims0 = self.alias[base]
                off, rem = _flatten(idx, dims0)
                sub_checks = list(zip(idx[1:], dims0[1:]))
                index, base_name = off0 + off, b0
            else:
                qt2 = self.params.get(base) or self.local_types.get(base) or qt
                _, dims, isptr = type_dims(qt2)
                if not dims:
                    self.unknown.append(f"{self.name}:{line}: write through {base} of unknown shape")
                    return
                off, rem = _flatten(idx, dims)
                sub_checks = [(i, d) for i, d in zip(idx, dims) if d is not None]
                index, base_name = off, base
            kind = "param" if base_name in self.params else ("local_ptr" if type_dims(self.local_types.get(base_name, ""))[2] else "local_array")
            self.writes.append(Write(base_name, kind, sp.expand(index), self.vars_of(index), op, line, self.name, (), sub_checks, tuple(self.loop_stack)))
        else:
            self.unknown.append(f"{self.name}:{line}: unsupported lvalue {core.norm(cast.text(lhs), 60)}")

    def vars_of(self, expr):
        return {v: self.loopvars[v] for v in expr.free_symbols if v in self.loopvars}

    def call(self, c, env, line):
        cn = cast.callee_name(c)
        args = cast.call_args(c)
        self.calls.append((cn, line))
        if cn == "free":
            nm = cast.ref_name(args[0]) if args else None
            if nm:
                self.frees[nm] = self.frees.get(nm, 0) + 1
            return
        if cn in ("malloc", "calloc"):
            return
        for a in args:
            self.visit_calls(a, env)
        summ = self.an.summary(cn) if cn else None
        if summ is None:
            # unknown callee (libm, function pointer): only a problem if it receives a non-const pointer
            for a in args:
                qt = cast.qtype(a)
                if ("*" in qt or "[" in qt) and "const" not in qt and cn not in ("fprintf", "printf"):
                    pv = self.pointer_value(a, env)
                    if pv is not None:
                        self.unknown.append(f"{self.name}:{line}: pointer {pv[0]} passed to unknown callee {cn}")
            return
        tu2, fn2 = self.an.fns[cn]
        cps = [p for p in cast.params(fn2)]
        if len(cps) != len(args):
            self.unknown.append(f"{self.name}:{line}: arity mismatch calling {cn}")
            return
        sub = {}
        ptr = {}
        for p, a in zip(cps, args):
            pn = p.get("name")
            _, dims, isptr = type_dims(cast.qtype(p))
            if dims:
                ptr[pn] = self.pointer_value(a, env)
            else:
                if cast.is_int_type(cast.qtype(p)):
                    sub[psym(pn)] = self.ev(a, env)
        for w in summ.writes:
            if w.base_kind != "param":
                continue
            pv = ptr.get(w.base)
            if pv is None:
                self.unknown.append(f"{self.name}:{line}: {cn} writes its parameter {w.base}, bound here to an unresolved pointer")
                continue
            base, off, dims = pv
            idx = sp.expand(off + w.index.subs(sub, simultaneous=True))
            vars_ = dict(w.vars)
            vars_ = {v: (lo.subs(sub, simultaneous=True) if hasattr(lo, "subs") else lo, hi.subs(sub, simultaneous=True) if hasattr(hi, "subs") else hi) for v, (lo, hi) in vars_.items()}
            vars_.update(self.vars_of(idx))
            kind = "param" if base in self.params else ("local_ptr" if type_dims(self.local_types.get(base, ""))[2] else "local_array")
            self.writes.append(Write(base, kind, idx, vars_, w.op, line, self.name, (cn,) + w.via, [], tuple(self.loop_stack)))
        for w in getattr(summ, "reads", []):
            pv = ptr.get(w.base)
            if pv is None:
                continue
            base, off, dims = pv
            if base not in self.params:
                continue
            try:
                idx = sp.expand(off + w.index.subs(sub, simultaneous=True))
            except Exception:
                continue
            vars_ = {v: (lo.subs(sub, simultaneous=True) if hasattr(lo, "subs") else lo, hi.subs(sub, simultaneous=True) if hasattr(hi, "subs") else hi) for v, (lo, hi) in w.vars.items()}
            vars_.update(self.vars_of(idx))
            key = (base, str(idx))
            if key in self._read_keys:
                continue
            self._read_keys.add(key)
            self.reads.append(Write(base, "param", idx, vars_, "read", line, self.name, (cn,) + w.via, [], tuple(self.loop_stack)))
        for u in summ.reads_unknown:
            if u not in self.unknown:
                self.unknown.append(u)


def _prod(dims):
    r = 1
    for d in dims:
        r *= d
    return sp.Integer(r)


def _flatten(idx, dims):
    """Subscripts idx applied to an object of dims (first may be None = unbounded):
    returns (element offset, dims of the sub-object that remains)."""
    off = sp.Integer(0)
    for k, i in enumerate(idx):
        stride = _prod([d for d in dims[k + 1 :]])
        off = off + i * stride
    return off, list(dims[len(idx) :])


# ---------------------------------------------------------------------------
# injectivity and bounds
# ---------------------------------------------------------------------------


def split_divmod(expr, bounds: dict):
    """Replace floor(v/N) and Mod(v, N) for loop variables v by fresh digit symbols
    v// in [0, hi_v/N) and v% in [0, N).  Returns (expr', {digit: (lo, hi)}, {v: [digits]}) or None
    when a variable occurs with two different divisors or also occurs bare."""
    new_bounds = {}
    groups = {}
    e2 = expr
    for v in list(bounds):
        ns = set()
        for f in expr.atoms(sp.floor):
            num, den = sp.fraction(sp.together(f.args[0]))
            if num == v:
                ns.add(den)
        for m in expr.atoms(sp.Mod):
            if m.args[0] == v:
                ns.add(m.args[1])
        if not ns:
            continue
        if len(ns) != 1:
            return None
        n = ns.pop()
        q = sp.Symbol(f"{v.name}//", integer=True, nonnegative=True)
        r = sp.Symbol(f"{v.name}%", integer=True, nonnegative=True)
        e2 = e2.subs({sp.floor(v / n): q, sp.Mod(v, n): r})
        if e2.has(v):
            return None
        hi = bounds[v][1]
        qhi = None
        if hi is not None:
            t = sp.cancel(hi / n)
            if sp.denom(t) == 1:
                qhi = sp.expand(t)
        new_bounds[q] = (sp.Integer(0), qhi)
        new_bounds[r] = (sp.Integer(0), n)
        groups[v] = [q, r]
    return e2, new_bounds, groups


def _is_pos_monomial(c) -> bool:
    """c is a product of non-negative integer symbols and a positive integer coefficient."""
    c = sp.expand(c)
    if c.is_Integer:
        return c > 0
    if c.is_Symbol:
        return bool(c.is_nonnegative)
    if c.is_Mul or c.is_Pow:
        return all(_is_pos_monomial(a) for a in c.args) if c.is_Mul else (_is_pos_monomial(c.base) and c.exp.is_Integer and c.exp > 0)
    return False


def _ge_one_ratio(a, b) -> bool:
    """a / b is a monomial with integer coefficient >= 1 (symbols assumed >= 1)."""
    r = sp.cancel(a / b)
    if r.is_Integer:
        return r >= 1
    num, den = sp.fraction(r)
    return den == 1 and _is_pos_monomial(num)


def mixed_radix(expr, digit_bounds: dict):
    """expr affine in the digits with positive-monomial coefficients; find an order
    d1 > d2 > ... such that coeff(d_k) >= bound(d_{k+1}) * coeff(d_{k+1}).  Returns
    (True, order) or (False, reason).  Digits with no bound may only be the top digit."""
    expr = sp.expand(expr)
    digs = [d for d in digit_bounds if expr.has(d)]
    poly_vars = digs
    try:
        P = sp.Poly(expr, *poly_vars) if poly_vars else None
    except sp.PolynomialError:
        return False, "index is not polynomial in the loop variables"
    if P is None:
        return True, []
    if P.total_degree() > 1:
        return False, "index is not affine in the loop variables"
    coeffs = {}
    for d in digs:
        c = P.coeff_monomial(d)
        if c == 0:
            continue
        if not _is_pos_monomial(c):
            return False, f"coefficient of {d} is {c}, not a positive monomial"
        coeffs[d] = c
    ds = list(coeffs)
    if len(ds) > 7:
        return False, "too many digits"
    for order in itertools.permutations(ds):
        ok = True
        for a, b in zip(order, order[1:]):
            hb = digit_bounds[b][1]
            if hb is None:
                ok = False
                break
            if not _ge_one_ratio(coeffs[a], sp.expand(coeffs[b] * hb)):
                ok = False
                break
        if ok:
            return True, [str(x) for x in order]
    return False, f"no mixed-radix ordering of the digits {[(str(d), str(c)) for d, c in coeffs.items()]} with bounds {[(str(d), str(digit_bounds[d][1])) for d in ds]}"


def max_index(expr, bounds: dict):
    """Upper bound of an affine index with positive coefficients: substitute hi-1."""
    expr = sp.expand(expr)
    sub = {}
    for d, (lo, hi) in bounds.items():
        if expr.has(d):
            if hi is None:
                return None
            sub[d] = hi - 1
    return sp.expand(expr.subs(sub, simultaneous=True))
