#!/usr/bin/env python3
"""Entry point of the static checks.

  python3-vt check.py C10 --tier quick|thorough
  python3-vt check.py --replay out/violations/<file>.json
  python3-vt check.py --all [--tier quick]

Exit 0: property held on every rule instance; 1: VIOLATION; 2: ANALYSIS-ERROR.
"""

from __future__ import annotations

import argparse
import importlib
import json
import os
import sys
from pathlib import Path

HERE = Path(__file__).resolve().parent
sys.path.insert(0, str(HERE))

from engine import core  # noqa: E402

LEVELS = {"C20": "proof"}


def claimed() -> list[str]:
    man = json.loads((HERE / "MANIFEST.json").read_text())
    return [c["property_id"] for c in man["checks"]]


def run_one(pid: str, tier: str) -> int:
    try:
        mod = importlib.import_module(f"rules.{pid.lower()}")
    except ModuleNotFoundError as e:
        print(f"ANALYSIS-ERROR property={pid} no rule module: {e}")
        return 2
    # time budget for the analysis proper (a mutated tree can make a symbolic comparison blow up): the run ends
    # as analysis-broken instead of hanging.  The self-test battery of the thorough tier has its own timeouts.
    budget = int(os.environ.get("VERIF_BUDGET_S", "240"))

    def _over(signum, frame):
        import traceback

        where = [f"{Path(fs.filename).name}:{fs.lineno} {fs.name}" for fs in traceback.extract_stack(frame) if "/verif/rules/" in fs.filename or "/verif/engine/" in fs.filename]
        raise core.AnalysisError(f"CPU-time budget of {budget} s exceeded (a symbolic comparison did not terminate in time) at {' > '.join(where[-3:])}")

    import signal

    # the budget counts CPU time of this process (ITIMER_PROF), so that a loaded machine does not turn a finishing
    # analysis into a broken one; a wall-clock backstop of ten times the budget covers a blocked child process
    old = signal.signal(signal.SIGPROF, _over)
    old_a = signal.signal(signal.SIGALRM, _over)
    signal.setitimer(signal.ITIMER_PROF, budget)
    signal.alarm(10 * budget)
    try:
        def _run(rep):
            mod.run(rep)
            from rules import common, delegation

            common.run(rep, pid)
            delegation.apply(rep, pid)

        code = core.run_check(pid, tier, _run, level=LEVELS.get(pid, "other"))
    finally:
        signal.setitimer(signal.ITIMER_PROF, 0)
        signal.alarm(0)
        signal.signal(signal.SIGPROF, old)
        signal.signal(signal.SIGALRM, old_a)
    if tier == "thorough" and code == 0 and hasattr(mod, "selftest") and os.environ.get("VERIF_NO_SELFTEST") != "1":
        from engine import selftest

        code = selftest.run(pid, mod)
    return code


def replay(path: str) -> int:
    d = json.loads(Path(path).read_text())
    print(json.dumps(d, indent=1))
    pid = d["property"]
    p = core.REPO / d["file"]
    if p.is_file() and d.get("line"):
        lines = p.read_text().split("\n")
        lo, hi = max(0, d["line"] - 4), min(len(lines), d["line"] + 6)
        for i in range(lo, hi):
            print(f"{i + 1:5d}{'>' if i + 1 == d['line'] else ' '} {lines[i]}")
    os.environ["VERIF_EVIDENCE_DIR"] = str(core.OUT / "replay-evidence")
    core.EVIDENCE_DIR = Path(os.environ["VERIF_EVIDENCE_DIR"])
    mod = importlib.import_module(f"rules.{pid.lower()}")
    rep = core.Report(pid, "quick", level=LEVELS.get(pid, "other"))
    try:
        mod.run(rep)
    except core.AnalysisError as e:
        print(f"ANALYSIS-ERROR property={pid} {e}")
        return 2
    key = (d["property"], d["rule"], d["file"], d["qualname"], d["construct"])
    still = [f for f in rep.findings if f.key() == key]
    if still:
        print(f"VIOLATION property={pid} replay={path}")
        return 1
    print(f"finding no longer reproduces on the current tree ({pid} {d['rule']})")
    return 0


def main() -> int:
    ap = argparse.ArgumentParser()
    ap.add_argument("property", nargs="?")
    ap.add_argument("--tier", default=os.environ.get("VERIF_TIER", "quick"), choices=["quick", "thorough"])
    ap.add_argument("--replay")
    ap.add_argument("--all", action="store_true")
    a = ap.parse_args()
    if a.replay:
        return replay(a.replay)
    if a.all:
        worst = 0
        for pid in claimed():
            worst = max(worst, run_one(pid, a.tier))
        return worst
    if not a.property:
        ap.error("property id required")
    return run_one(a.property.upper(), a.tier)


if __name__ == "__main__":
    sys.exit(main())
