"""Shared rule (C02 R02n): a function does not update in place storage that it handed to an object it built and that
the object may keep without a copy.

``dm = DynamicalMatrix(supercell, primitive, fc2)`` followed by ``fc = dm.force_constants; fc *= s**2`` looks like an
update of the object's private array.  ``DynamicalMatrix._set_force_constants`` keeps the caller's array as it is when
it already is a C-contiguous double array, so the update reaches the *caller's* force constants: the first result is
right, every later use of the caller's array is scaled again, and nothing raises.

Class summaries (every class of the scope, inheritance and ``super().__init__`` followed by name):

  * ``keeps[cls]``: constructor parameter -> fields that may hold the argument itself: ``self.F = p`` on some path of
    ``__init__`` or of a method that ``__init__`` hands ``p`` to (depth <= 3); a conversion that may return its
    argument (``np.asarray(p)``, ``np.array(p, copy=False)``, ``np.ascontiguousarray``) counts as keeping it.
  * ``shows[cls]``: attribute -> field, for properties / getters whose body is ``return self.F``, and the field itself.

Per function: the names that may be a parameter of the function itself (the parameter, and ``q = p`` on some path);
objects ``o = Cls(... p ...)`` (``Cls`` a class name or a local bound to class names on every path) with such a name at
a kept position; then every in-place update -- ``o.attr op= ``, ``o.attr[...] = ``, ``v = o.attr`` (no copy) followed
by ``v op= `` / ``v[...] = `` / ``v[...] op= `` -- of an attribute that shows a field keeping that parameter is reported.
Held instances are the constructor calls with a parameter at a kept position.
"""

from __future__ import annotations

import ast

from engine import core
from engine.core import AnalysisError

_MAYBE_SAME = {"np.asarray", "np.ascontiguousarray", "np.asanyarray", "np.asfortranarray", "np.require"}


def _may_be(e, name):
    """the expression may evaluate to the object bound to ``name`` itself"""
    if isinstance(e, ast.Name):
        return e.id == name
    if isinstance(e, ast.IfExp):
        return _may_be(e.body, name) or _may_be(e.orelse, name)
    if isinstance(e, ast.Call):
        f = core.src(e.func)
        if f in _MAYBE_SAME and e.args:
            return _may_be(e.args[0], name)
        if f == "np.array" and e.args and any(k.arg == "copy" and isinstance(k.value, ast.Constant) and k.value.value in (False, None) for k in e.keywords):
            return _may_be(e.args[0], name)
    return False


class _Classes:
    def __init__(self, files):
        self.cls = {}  # name -> ClassDef (first definition wins; clashes dropped)
        clash = set()
        for rel in files:
            for n in ast.walk(core.parse(rel)):
                if isinstance(n, ast.ClassDef):
                    if n.name in self.cls:
                        clash.add(n.name)
                    self.cls.setdefault(n.name, n)
        for c in clash:
            self.cls.pop(c, None)
        self._keeps = {}

    def mro(self, name, depth=0):
        c = self.cls.get(name)
        if c is None or depth > 6:
            return []
        out = [c]
        for b in c.bases:
            bn = b.id if isinstance(b, ast.Name) else (b.attr if isinstance(b, ast.Attribute) else None)
            if bn:
                out += self.mro(bn, depth + 1)
        return out

    def method(self, name, meth):
        for c in self.mro(name):
            for m in c.body:
                if isinstance(m, ast.FunctionDef) and m.name == meth and not any(core.src(d).endswith(".setter") for d in m.decorator_list):
                    return c, m
        return None, None

    def _kept_in(self, clsname, m, pname, depth=0):
        """fields of self that may hold parameter pname of method m"""
        out = set()
        if depth > 3:
            return out
        local = {pname}
        for st in ast.walk(m):
            if isinstance(st, ast.Assign) and len(st.targets) == 1 and isinstance(st.targets[0], ast.Name) and any(_may_be(st.value, q) for q in list(local)):
                local.add(st.targets[0].id)
        for st in ast.walk(m):
            if isinstance(st, ast.Assign):
                for t in st.targets:
                    if isinstance(t, ast.Attribute) and isinstance(t.value, ast.Name) and t.value.id == "self" and any(_may_be(st.value, q) for q in local):
                        out.add(t.attr)
            if isinstance(st, ast.Call) and isinstance(st.func, ast.Attribute):
                tgt = None
                if isinstance(st.func.value, ast.Name) and st.func.value.id == "self":
                    tgt = self.method(clsname, st.func.attr)
                elif core.src(st.func.value) == "super()":
                    bases = self.mro(clsname)
                    own = None
                    for c in bases:
                        if m in c.body:
                            own = c
                    rest = bases[bases.index(own) + 1:] if own in bases else bases[1:]
                    tgt = (None, None)
                    for c in rest:
                        for mm in c.body:
                            if isinstance(mm, ast.FunctionDef) and mm.name == st.func.attr:
                                tgt = (c, mm)
                                break
                        if tgt[1] is not None:
                            break
                if not tgt or tgt[1] is None:
                    continue
                c2, m2 = tgt
                ps = [a.arg for a in m2.args.args][1:]
                for i, a in enumerate(st.args):
                    if i < len(ps) and any(_may_be(a, q) for q in local):
                        out |= self._kept_in(c2.name, m2, ps[i], depth + 1)
                for k in st.keywords:
                    if k.arg in ps + [a.arg for a in m2.args.kwonlyargs] and any(_may_be(k.value, q) for q in local):
                        out |= self._kept_in(c2.name, m2, k.arg, depth + 1)
        return out

    def keeps(self, clsname):
        """(parameter names of the constructor without self, {parameter: fields})"""
        if clsname in self._keeps:
            return self._keeps[clsname]
        c, init = self.method(clsname, "__init__")
        if init is None:
            self._keeps[clsname] = ([], {})
            return self._keeps[clsname]
        ps = [a.arg for a in init.args.args][1:]
        allp = ps + [a.arg for a in init.args.kwonlyargs]
        res = {}
        for p in allp:
            f = self._kept_in(c.name, init, p)
            if f:
                res[p] = f
        self._keeps[clsname] = (ps, res)
        return self._keeps[clsname]

    def shows(self, clsname):
        """attribute -> field"""
        out = {}
        for c in reversed(self.mro(clsname)):
            for m in c.body:
                if isinstance(m, ast.FunctionDef) and len(m.args.args) == 1 and not any(core.src(d).endswith(".setter") for d in m.decorator_list):
                    body = [s for s in m.body if not (isinstance(s, ast.Expr) and isinstance(s.value, ast.Constant))]
                    rets = [s for s in ast.walk(m) if isinstance(s, ast.Return)]
                    if rets and all(isinstance(r.value, ast.Attribute) and isinstance(r.value.value, ast.Name) and r.value.value.id == "self" for r in rets) and len({r.value.attr for r in rets}) == 1 and body:
                        is_prop = any(core.src(d) == "property" for d in m.decorator_list)
                        out[m.name if is_prop else m.name + "()"] = rets[0].value.attr
        return out


def _class_names_of(fn, e, K, depth=0):
    """class names the callee expression may denote (a class name, or a local bound to class names)"""
    if isinstance(e, ast.Name):
        if e.id in K.cls:
            return {e.id}
        if depth > 2:
            return set()
        defs = [s.value for s in ast.walk(fn) if isinstance(s, ast.Assign) and len(s.targets) == 1 and isinstance(s.targets[0], ast.Name) and s.targets[0].id == e.id]
        out = set()
        for d in defs:
            r = _class_names_of(fn, d, K, depth + 1)
            if not r:
                return set()
            out |= r
        return out
    if isinstance(e, ast.IfExp):
        a, b = _class_names_of(fn, e.body, K, depth), _class_names_of(fn, e.orelse, K, depth)
        return a | b if a and b else set()
    return set()


def scan(tree, K):
    """(held [(fn, call, class, param)], found [(fn, node, message)])"""
    held, found = [], []
    for fn in [n for n in ast.walk(tree) if isinstance(n, (ast.FunctionDef, ast.AsyncFunctionDef))]:
        params = [a.arg for a in fn.args.posonlyargs + fn.args.args + fn.args.kwonlyargs if a.arg not in ("self", "cls")]
        if not params:
            continue
        # names that may be a parameter itself
        may = {p: {p} for p in params}  # parameter -> local names
        for _ in range(3):
            for st in ast.walk(fn):
                if isinstance(st, ast.Assign) and len(st.targets) == 1 and isinstance(st.targets[0], ast.Name):
                    for p, names in may.items():
                        if any(_may_be(st.value, q) for q in list(names)):
                            names.add(st.targets[0].id)
        # a parameter that is rebound to a fresh value on every path before use is not tracked further (kept simple:
        # the parameter name itself always counts)
        objs = {}  # local object name -> [(class, {attr: param})]
        for st in ast.walk(fn):
            if not (isinstance(st, ast.Assign) and len(st.targets) == 1 and isinstance(st.targets[0], ast.Name) and isinstance(st.value, ast.Call)):
                continue
            call = st.value
            for cn in sorted(_class_names_of(fn, call.func, K)):
                ps, kept = K.keeps(cn)
                shows = K.shows(cn)
                for i, a in enumerate(call.args):
                    pn = ps[i] if i < len(ps) else None
                    self_hits = [p for p, names in may.items() if any(_may_be(a, q) for q in names)]
                    if pn in kept and self_hits:
                        held.append((fn, call, cn, self_hits[0]))
                        amap = {at: self_hits[0] for at, fld in shows.items() if fld in kept[pn]}
                        amap.update({fld: self_hits[0] for fld in kept[pn]})
                        objs.setdefault(st.targets[0].id, []).append((cn, amap))
                for k in call.keywords:
                    self_hits = [p for p, names in may.items() if any(_may_be(k.value, q) for q in names)]
                    if k.arg in kept and self_hits:
                        held.append((fn, call, cn, self_hits[0]))
                        amap = {at: self_hits[0] for at, fld in shows.items() if fld in kept[k.arg]}
                        amap.update({fld: self_hits[0] for fld in kept[k.arg]})
                        objs.setdefault(st.targets[0].id, []).append((cn, amap))
        if not objs:
            continue

        def shown(e):
            """(object, attribute, parameter) when e is o.attr / o.attr() of a tracked object showing a kept field"""
            if isinstance(e, ast.Call) and not e.args and isinstance(e.func, ast.Attribute):
                a = e.func
                key = a.attr + "()"
            elif isinstance(e, ast.Attribute):
                a, key = e, e.attr
            else:
                return None
            if isinstance(a.value, ast.Name) and a.value.id in objs:
                for cn, amap in objs[a.value.id]:
                    if key in amap:
                        return a.value.id, key, amap[key], cn
            return None

        views = {}  # local name -> shown(...)
        for st in ast.walk(fn):
            if isinstance(st, ast.Assign) and len(st.targets) == 1 and isinstance(st.targets[0], ast.Name):
                v = st.value
                while isinstance(v, ast.Subscript):  # a basic slice of it is still a view; kept simple: any subscript
                    v = v.value
                sh = shown(v)
                if sh and isinstance(st.value, (ast.Attribute, ast.Call)):
                    views[st.targets[0].id] = sh
        for st in ast.walk(fn):
            tgt = None
            if isinstance(st, ast.AugAssign):
                tgt = st.target
            elif isinstance(st, ast.Assign):
                for t in st.targets:
                    if isinstance(t, ast.Subscript):
                        tgt = t
            if tgt is None:
                continue
            base = tgt
            while isinstance(base, ast.Subscript):
                base = base.value
            sh = shown(base)
            if sh is None and isinstance(base, ast.Name) and base.id in views:
                if isinstance(st, ast.AugAssign) or isinstance(tgt, ast.Subscript):
                    sh = views[base.id]
            if sh is None:
                continue
            if isinstance(st, ast.Assign) and not isinstance(tgt, ast.Subscript):
                continue
            o, at, p, cn = sh
            found.append((fn, st, f"'{core.norm(core.src(st), 70)}' updates in place what '{o}.{at}' returns; {cn} may keep its constructor argument without a copy (a C-contiguous double array is taken as it is), and this function handed it its own parameter '{p}': the update reaches the caller's array, so the caller's data change behind its back and every later use of them -- a second object built from the same force constants -- sees the update applied again"))
    return held, found


_CONTROL = '''
import numpy as np
class Box:
    def __init__(self, a, b):
        self._b = np.array(b, dtype="double")
        self._set(a)
    def _set(self, a):
        if isinstance(a, np.ndarray) and a.flags.c_contiguous:
            self._a = a
        else:
            self._a = np.array(a, dtype="double")
    @property
    def a(self):
        return self._a
    @property
    def b(self):
        return self._b
def bad(x, y, s):
    o = Box(x, y)
    v = o.a
    v *= s
    return o
def good(x, y, s):
    o = Box(x * s, y)
    return o
def good2(x, y, s):
    o = Box(x, y)
    v = o.b
    v *= s
    return o
'''


def run(rep: core.Report, rid: str, scope: list[str], class_files: list[str] | None = None, floor: int = 0):
    rep.rule(rid, "no function updates in place (op=, slice assignment) an array it reads back from an object it has just built from its own parameter when the class may keep that constructor argument without a copy (class summaries: constructor parameter -> field through __init__, helper methods and super().__init__; property -> field): such an update reaches the caller's array", floor)

    t = ast.parse(_CONTROL)

    class _K(_Classes):
        def __init__(self, tree):
            self.cls = {n.name: n for n in ast.walk(tree) if isinstance(n, ast.ClassDef)}
            self._keeps = {}

    h, f = scan(t, _K(t))
    if sorted(x[0].name for x in f) != ["bad"] or sorted({x[0].name for x in h}) != ["bad", "good2"]:
        raise AnalysisError(f"{rid}: the rule no longer classifies its own examples (held {[x[0].name for x in h]}, found {[x[0].name for x in f]})")
    K = _Classes(class_files or scope)
    for rel in scope:
        tree = core.parse(rel)
        held, found = scan(tree, K)
        bad_fns = {id(x[0]) for x in found}
        for fn, call, cn, p in held:
            rep.instance(rid, rel, core.qualname_of(fn), f"{cn}(… {p} …) may keep '{p}' as it is", True, "", line=call.lineno, nontrivial=False)
        for fn, st, msg in found:
            rep.instance(rid, rel, core.qualname_of(fn), core.norm(core.src(st), 80), False, msg, line=st.lineno)
