"""C20 — equations of state and QHA: parameter meaning, PV term, per-temperature
electronic energies, finite-difference formulas (DESIGN §3 C20)."""

from __future__ import annotations

import ast
import re

import sympy as sp

from engine import core, symalg
from engine.core import AnalysisError

EOS = "phonopy/qha/eos.py"
QHA = "phonopy/qha/core.py"

V = sp.Symbol("v", positive=True)
E0 = sp.Symbol("E0", real=True)
B0 = sp.Symbol("B0", positive=True)
BP = sp.Symbol("Bp", positive=True)
V0 = sp.Symbol("V0", positive=True)
PARAMS = {"p[0]": E0, "p[1]": B0, "p[2]": BP, "p[3]": V0}


def eos_expr(name: str):
    fn = core.find_def(EOS, f"get_eos.{name}")
    a = fn.args
    if [x.arg for x in a.args] != ["v"] or a.vararg is None or a.vararg.arg != "p":
        raise AnalysisError(f"{EOS}::get_eos.{name}: signature is not (v, *p)")
    tr = symalg.PyTranslator({"v": V, **PARAMS}, where=f"{EOS}::{name}")
    br = tr.function(fn)
    if len(br) != 1:
        raise AnalysisError(f"{name}: expected a single return")
    return br[0].expr, fn


def run(rep: core.Report):
    from rules import shared_freshwrite, shared_readonly

    shared_readonly.run(rep, "R20m", ["phonopy/qha/core.py", "phonopy/qha/eos.py", "phonopy/api_qha.py"], 5)
    _r20n(rep)
    shared_freshwrite.run(rep, "R20l", ["phonopy/qha/core.py"], 0)
    rep.rule("R20a", "E(V0)=E0, E'(V0)=0, V0 E''(V0)=B0, dB/dP|V0=B0' for each EOS as written (differentiation + substitution)", 12)
    rep.rule("R20b", "pressure enters as +P*V/EVAngstromToGPa in both constructors; EVAngstromToGPa = EV*1e21", 3)
    rep.rule("R20c", "electronic (free) energies of shape (T,V) are added row i to temperature i; sign +", 3)
    rep.rule("R20d", "consumers unpack the fit parameters in the documented order (E0, B0, B0', V0)", 6)
    rep.rule("R20e", "get_eos dispatches each name to the function of that name; vinet is the default", 3)
    rep.rule("R20f", "thermal expansion / Cp / Grueneisen formulas are the documented finite differences with consistent indices and units", 5)
    rep.assume("v, V0, B0, B0' positive reals; Murnaghan at B0' = 1 (removable singularity) not claimed")

    for name in ("vinet", "birch_murnaghan", "murnaghan"):
        E, fn = eos_expr(name)
        d1 = sp.diff(E, V)
        d2 = sp.diff(E, V, 2)
        P = -d1
        B = V * d2
        dBdP = sp.diff(B, V) / sp.diff(P, V)
        obligations = [
            ("E(V0) == E0", E.subs(V, V0) - E0),
            ("dE/dV (V0) == 0  (zero pressure at V0)", d1.subs(V, V0)),
            ("V0 * d2E/dV2 (V0) == B0", B.subs(V, V0) - B0),
            ("dB/dP (V0) == B0'", dBdP.subs(V, V0) - BP),
        ]
        for text, ex in obligations:
            ok, how = symalg.is_zero(sp.simplify(ex), ("cancel", "simplify"))
            rep.instance("R20a", EOS, f"get_eos.{name}", f"{name}: {text}", ok,
                         f"obligation not discharged; residual {how}", line=fn.lineno,
                         sample={"obligation": f"{name}: {text}", "closed_by": how} if ok else None, obligation=True)

    _r20b(rep)
    _r20c(rep)
    _r20d(rep)
    _r20e(rep)
    _r20f(rep)
    _r20g(rep)
    _r20h(rep)
    _r20k(rep)
    from rules import shared_bcast

    shared_bcast.run(rep, "R20j", [r for r in ["phonopy/qha/core.py", "phonopy/qha/eos.py", "phonopy/qha/electron.py"] if (core.REPO / r).is_file()])


def _r20b(rep):
    for cls, attr in (("BulkModulus", "self._energies"), ("QHA", "self._electronic_energies")):
        init = core.find_def(QHA, f"{cls}.__init__")
        tr = symalg.OpenPyTranslator(where=f"{cls}.__init__")
        env = tr.summary(init)
        val = env.get(attr)
        if val is None:
            raise AnalysisError(f"{cls}.__init__: {attr} is no longer set")
        P, E = sp.Symbol("pressure"), sp.Symbol("EVAngstromToGPa")
        # the pressure enters linearly with coefficient V / EVAngstromToGPa, V the volumes (in whatever order they are kept)
        try:
            coeff = sp.simplify(sp.diff(val, P) * E)
            lin = sp.simplify(sp.diff(val, P, 2)) == 0
        except Exception:
            coeff, lin = None, False
        ok_pv = lin and coeff is not None and coeff != 0 and not coeff.has(P) and not coeff.has(E) and "volumes" in str(coeff) and not isinstance(coeff, (sp.Add, sp.Pow)) and (not isinstance(coeff, sp.Mul))
        # under 'pressure is not None' (or a zero term otherwise): the term must be guarded, not unconditional
        guarded = any(isinstance(n, ast.If) and "pressure" in core.src(n.test) and "None" in core.src(n.test) for n in ast.walk(init))
        # the array that receives it is a private copy made in this constructor
        rest = sp.simplify(val - sp.diff(val, P) * P) if lin else val
        pnames = {a.arg for a in init.args.args} - {"self", "volumes", "pressure"}
        private = any(m_.group(1) in pnames for m_ in re.finditer(r"np\.(?:array|copy)\((\w+)", str(rest)))
        rep.instance("R20b", QHA, f"{cls}.__init__", f"{attr} = {core.norm(str(val), 90)}", ok_pv and guarded and private,
                     f"the stored energies are not 'private copy of the input + V * pressure / EVAngstromToGPa under pressure is not None' (coefficient of the pressure: {coeff}; guarded: {guarded}; private copy: {private})",
                     line=init.lineno, obligation=True)
    u = symalg.fold_constants("phonopy/units.py")
    ok = "EVAngstromToGPa" in u and abs(u["EVAngstromToGPa"] - u["EV"] * 1e21) <= 1e-12 * u["EV"] * 1e21
    rep.instance("R20b", "phonopy/units.py", "EVAngstromToGPa", "EVAngstromToGPa == EV * 1e21 (eV/A^3 -> GPa)", ok,
                 f"EVAngstromToGPa={u.get('EVAngstromToGPa')} is not EV*1e21={u['EV'] * 1e21}", obligation=True)


def _r20c(rep):
    run = core.find_def(QHA, "QHA.run")
    loops = [s for s in run.body if isinstance(s, ast.For)]
    if not loops:
        raise AnalysisError("QHA.run: temperature loop vanished")
    loop = loops[0]
    lv = core.src(loop.target)
    ifs = [s for s in loop.body if isinstance(s, ast.If) and "ndim" in core.src(s.test)]
    ok = False
    text = "<branch vanished>"
    if ifs:
        i0 = ifs[0]
        text = core.norm(core.src(i0))
        ok = (
            core.src(i0.test) == "self._electronic_energies.ndim == 1"
            and core.src(i0.body[0]) == "el_energy = self._electronic_energies"
            and core.src(i0.orelse[0]) == f"el_energy = self._electronic_energies[{lv}]"
        )
    rep.instance("R20c", QHA, "QHA.run", text, ok, f"(T,V)-shaped electronic energies are not indexed by the temperature loop variable '{lv}'", line=loop.lineno, obligation=True)
    fes = [s for s in loop.body if isinstance(s, ast.Assign) and core.src(s.targets[0]) == "fe"]
    if not fes:
        raise AnalysisError("QHA.run: the total free energy 'fe' vanished")
    want = f"[ph_e + el_e for ph_e, el_e in zip(self._fe_phonon[{lv}], el_energy)]"
    rep.instance("R20c", QHA, "QHA.run", core.src(fes[0]), symalg.same(symalg.open_expr(core.src(fes[0].value)), symalg.open_expr(want))[0],
                 f"total free energy is not phonon[{lv}] + electronic", line=fes[0].lineno if fes else loop.lineno, obligation=True)
    ts = [s for s in ast.walk(loop) if isinstance(s, ast.Assign) and core.src(s.targets[0]) == "t"]
    rep.instance("R20c", QHA, "QHA.run", core.src(ts[0]) if ts else "<t vanished>", bool(ts) and core.src(ts[0].value) == f"self._all_temperatures[{lv}]",
                 "temperature label does not use the same index as the energies", line=ts[0].lineno if ts else loop.lineno, obligation=True)
    init = core.find_def(QHA, "QHA.__init__")
    fp = [s for s in ast.walk(init) if isinstance(s, ast.Assign) and core.src(s.targets[0]) == "self._fe_phonon"]
    ok_fp = False
    if fp:
        e_ = symalg.open_expr(core.src(fp[0].value))
        Ev = sp.Symbol("EvTokJmol")
        r_ = sp.simplify(e_ * Ev)
        # np.array(fe_phonon), possibly with its volume axis permuted, divided by EvTokJmol exactly once
        ok_fp = not r_.has(Ev) and "fe_phonon" in str(r_) and not isinstance(r_, (sp.Add, sp.Mul, sp.Pow))
    rep.instance("R20c", QHA, "QHA.__init__", core.src(fp[0]) if fp else "<vanished>", ok_fp,
                 "phonon free energy (kJ/mol) is not converted to eV by / EvTokJmol before being added to electronic energies (eV)", line=fp[0].lineno if fp else init.lineno, obligation=True)


def _r20d(rep):
    run = core.find_def(QHA, "QHA.run")
    want = {
        "self._equiv_volumes": "np.array(self._equiv_parameters[:, 3])",
        "self._equiv_energies": "np.array(self._equiv_parameters[:, 0])",
        "self._equiv_bulk_modulus": "np.array(self._equiv_parameters[:, 1] * EVAngstromToGPa)",
    }
    for tgt, val in want.items():
        hits = [s for s in ast.walk(run) if isinstance(s, ast.Assign) and core.src(s.targets[0]) == tgt]
        rep.instance("R20d", QHA, "QHA.run", f"{tgt} = {core.src(hits[0].value) if hits else '?'}", bool(hits) and symalg.same(symalg.open_expr(core.src(hits[0].value)), symalg.open_expr(val))[0],
                     f"expected {tgt} = {val} (parameter order E0, B0, B0', V0)", line=hits[0].lineno if hits else run.lineno, obligation=True)
    bm = core.find_def(QHA, "BulkModulus.__init__")
    # which fitted number lands in which attribute, for one curve and for a (temperatures, volumes) array: evaluated with the
    # fit as an uninterpreted function of the curve it is given (whatever the spelling: unpacking, loops, reshapes)
    from engine import symnp

    FIT = [sp.Function(f"fit{k}") for k in range(4)]

    def _hook(call, evl):
        if isinstance(call.func, ast.Attribute) and call.func.attr == "fit_to_eos" and core.src(call.func.value) == "self" and len(call.args) == 1:
            row = evl.ev(call.args[0])
            tag = row[0] if isinstance(row, list) else row
            return [F(tag) for F in FIT]
        if core.src(call.func) == "get_eos":
            return sp.Symbol("eos")
        return None

    names = ["self._energy", "self._bulk_modulus", "self._b_prime", "self._equiv_volume"]
    for label, energies in (("one curve", [sp.Symbol(f"e{v}") for v in range(4)]), ("three temperatures", [[sp.Symbol(f"e{t}_{v}") for v in range(4)] for t in range(3)])):
        E_ = symnp.Evaluator({"volumes": [sp.Symbol(f"v{v}") for v in range(4)], "energies": energies, "pressure": None, "eos": sp.Symbol("eosname")}, where="BulkModulus.__init__", call_hook=_hook)
        symnp.run_block(E_, [st for st in bm.body if not (isinstance(st, ast.Expr) and isinstance(st.value, ast.Constant))])
        got = [E_.env.get(nm) for nm in names]
        if label == "one curve":
            want = [F(energies[0]) for F in FIT]
        else:
            want = [[F(energies[t][0]) for t in range(3)] for F in FIT]
        ok = all(g is not None and symnp.shape(g) == symnp.shape(w) and symnp.equal(g, w) for g, w in zip(got, want))
        rep.instance("R20d", QHA, "BulkModulus.__init__", f"{label}: (energy, bulk modulus, B', volume) <- components 0..3 of the fit of each curve", ok,
                     f"for {label} the attributes (energy, bulk modulus, B', equilibrium volume) receive {core.norm(str(got), 200)} instead of component k of the fit of temperature t at position t of attribute k: fitted numbers land in the wrong quantity / temperature slot", line=bm.lineno, obligation=True)
    f2 = core.find_def(QHA, "BulkModulus.fit_to_eos")
    rets = [core.src(s.value) for s in ast.walk(f2) if isinstance(s, ast.Return)]
    un = [core.src(s.targets[0]) for s in ast.walk(f2) if isinstance(s, ast.Assign) and "fit_to_eos" in core.src(s.value)]
    # name-independent: the tuple unpacked from the fit is returned element by element in the same order
    rep.instance("R20d", QHA, "BulkModulus.fit_to_eos", f"{un} -> {rets}", len(un) == 1 and len(rets) == 1 and un[0] == rets[0] and un[0].count(",") == 3,
                 "BulkModulus.fit_to_eos reorders the parameters", line=f2.lineno, obligation=True)
    fe = core.find_def(EOS, "fit_to_eos")
    calls = [n for n in ast.walk(fe) if isinstance(n, ast.Call) and core.src(n.func) == "fit.fit"]
    ps = [a.arg for a in fe.args.args]
    ok = False
    if calls and isinstance(calls[0].args[0], ast.List) and len(calls[0].args[0].elts) == 4 and len(ps) >= 2:
        e0, b0, bp0, v0 = calls[0].args[0].elts
        # (an energy taken from the energies, a positive number, a positive number, a volume taken from the volumes)
        ok = ps[1] in {x.id for x in ast.walk(e0) if isinstance(x, ast.Name)} and ps[0] in {x.id for x in ast.walk(v0) if isinstance(x, ast.Name)} and isinstance(b0, ast.Constant) and isinstance(bp0, ast.Constant) and b0.value > 0 and bp0.value > 0
    rep.instance("R20d", EOS, "fit_to_eos", core.src(calls[0]) if calls else "<vanished>", ok,
                 "initial guess is not ordered (energy, B0, B0', volume)", line=fe.lineno, obligation=True)
    # documented order in each EOS docstring
    for name in ("vinet", "birch_murnaghan", "murnaghan"):
        fn = core.find_def(EOS, f"get_eos.{name}")
        doc = ast.get_docstring(fn) or ""
        lines = [l.strip() for l in doc.splitlines() if l.strip().startswith("p[")]
        rep.instance("R20d", EOS, f"get_eos.{name}", " ; ".join(lines), lines == ["p[0] = E_0", "p[1] = B_0", "p[2] = B'_0", "p[3] = V_0"],
                     "documented parameter order changed", line=fn.lineno, nontrivial=False)


def _r20e(rep):
    """What get_eos returns for each documented name: the if/elif spelling and the table spelling ({name: f}.get(eos,
    default) / table[eos]) are both read as a map name -> function, evaluated at the three names."""
    ge = core.find_def(EOS, "get_eos")
    par = ge.args.args[0].arg
    table, default = {}, None
    top = [s for s in ge.body if isinstance(s, ast.If)]
    rets = [s for s in ge.body if isinstance(s, ast.Return) and s.value is not None]
    for node in top:
        while isinstance(node, ast.If):
            t = node.test
            if isinstance(t, ast.Compare) and core.src(t.left) == par and isinstance(t.ops[0], ast.Eq) and isinstance(t.comparators[0], ast.Constant) and node.body and isinstance(node.body[0], ast.Return):
                table.setdefault(t.comparators[0].value, core.src(node.body[0].value))
            nxt = node.orelse
            if len(nxt) == 1 and isinstance(nxt[0], ast.If):
                node = nxt[0]
            else:
                if nxt and isinstance(nxt[0], ast.Return):
                    default = core.src(nxt[0].value)
                elif not nxt and rets:
                    default = core.src(rets[-1].value)
                break
    if not top and rets:
        v = core.resolve_name(ge, rets[-1].value)
        d = None
        if isinstance(v, ast.Call) and isinstance(v.func, ast.Attribute) and v.func.attr == "get" and v.args and core.src(v.args[0]) == par:
            d = core.resolve_name(ge, v.func.value)
            default = core.src(v.args[1]) if len(v.args) > 1 else "None"
        elif isinstance(v, ast.Subscript) and core.src(v.slice) == par:
            d = core.resolve_name(ge, v.value)
            default = "<KeyError>"
        if isinstance(d, ast.Dict):
            for k, val in zip(d.keys, d.values):
                if isinstance(k, ast.Constant):
                    table.setdefault(k.value, core.src(val))
    if not table:
        raise AnalysisError("get_eos: dispatch vanished (neither an if/elif chain on the name nor a table lookup)")
    for k, v in (("murnaghan", "murnaghan"), ("birch_murnaghan", "birch_murnaghan"), ("vinet", "vinet")):
        got = table.get(k, default)
        rep.instance("R20e", EOS, "get_eos", f"'{k}' -> {got}", got == v, f"get_eos('{k}') returns {got}, not the function {v}: the fit silently uses another equation of state (every equation of state passes the checks of its own defining meaning)", line=ge.lineno, obligation=True)


def _loopvar(fn, where):
    loops = [x for x in fn.body if isinstance(x, ast.For)]
    if not loops or not isinstance(loops[0].target, ast.Name):
        raise AnalysisError(f"{where}: the loop over temperatures vanished")
    return loops[0].target.id, loops[0]


def _site(rep, rule, qn, fn, desc, got, expected_text, why):
    """Compare an open-translated source formula with the documented one."""
    if got is None:
        raise AnalysisError(f"{QHA}::{qn}: formula site '{desc}' vanished")
    exp = symalg.open_expr(expected_text)
    ok, how = symalg.same(got, exp)
    rep.instance(rule, QHA, qn, desc, ok, f"{why}; source formula differs from the documented one by {how}", line=fn.lineno,
                 sample={"site": desc, "source_formula": core.norm(str(got), 200), "closed_by": how} if ok else None, obligation=True)



class _Elementwise(ast.NodeTransformer):
    """x[l:u] -> x[i + (l - a)] for a store into target[a:...]: element i of the vectorised statement."""

    def __init__(self, ivar, a, env):
        self.ivar, self.a, self.env, self.depth = ivar, a, env, 0

    def visit_Name(self, node):
        if node.id in self.env and self.depth < 6:
            self.depth += 1
            out = self.visit(ast.parse(core.src(self.env[node.id]), mode="eval").body)
            self.depth -= 1
            return out
        return node

    def visit_Subscript(self, node):
        sl = node.slice
        if isinstance(sl, ast.Slice):
            if sl.step is not None:
                raise AnalysisError("strided slice in a vectorised difference")
            lo = 0 if sl.lower is None else (sl.lower.value if isinstance(sl.lower, ast.Constant) and isinstance(sl.lower.value, int) else None)
            if lo is None or lo < 0:
                raise AnalysisError(f"slice bound '{core.src(sl)}' is not a non-negative literal")
            off = lo - self.a
            idx = ast.parse(f"{self.ivar} + {off}" if off > 0 else (f"{self.ivar} - {-off}" if off < 0 else self.ivar), mode="eval").body
            return ast.Subscript(value=node.value, slice=idx, ctx=ast.Load())
        return self.generic_visit(node)


def _vectorised_site(fn, where):
    """(element expression text, index name, store statement) of the single slice store 'x[a:] = expr' of a function
    without a loop, every vector local inlined and every slice turned into the element at index i."""
    stores = [st for st in fn.body if isinstance(st, ast.Assign) and isinstance(st.targets[0], ast.Subscript) and isinstance(st.targets[0].slice, ast.Slice)]
    if len(stores) != 1:
        raise AnalysisError(f"{where}: neither a loop over temperatures nor a single slice store")
    st = stores[0]
    sl = st.targets[0].slice
    a = 0 if sl.lower is None else (sl.lower.value if isinstance(sl.lower, ast.Constant) else None)
    if a is None:
        raise AnalysisError(f"{where}: slice store with a non-literal start")
    env = {x.targets[0].id: x.value for x in fn.body if isinstance(x, ast.Assign) and isinstance(x.targets[0], ast.Name) and x.lineno < st.lineno}
    tgt = core.src(st.targets[0].value)
    env.pop(tgt, None)
    elem = _Elementwise("i", a, env).visit(ast.parse(core.src(st.value), mode="eval").body)
    return core.src(elem), "i", st, a


def _cp_numerical_value(fn, i, loop):
    """Symbolic value of the term appended to cp in the loop body, in terms of T-1, T+0, T+1 (temperatures at
    i-1, i, i+1) and E-1, E+0, E+1 (equilibrium energies); np.polyfit over the three-point slices is interpreted
    as the interpolating quadratic.  Returns (expr | None, reason)."""
    iv = sp.Symbol(i)
    T = {k: sp.Symbol(f"T{k:+d}") for k in (-1, 0, 1)}
    E = {k: sp.Symbol(f"E{k:+d}") for k in (-1, 0, 1)}
    env = {}
    pre = [st for st in fn.body if isinstance(st, ast.Assign) and st.lineno < loop.lineno]

    class Bail(Exception):
        pass

    def offset(e):
        try:
            v = sp.sympify(core.src(e), locals={i: iv}) - iv
        except Exception:
            raise Bail(f"index {core.src(e)}")
        if v not in (-1, 0, 1, 2):
            raise Bail(f"index {core.src(e)}")
        return int(v)

    def ev(e):
        if isinstance(e, ast.Constant) and isinstance(e.value, (int, float)):
            return sp.nsimplify(e.value)
        if isinstance(e, ast.Name):
            if e.id in env:
                return env[e.id]
            if e.id == "EvTokJmol":
                return sp.Symbol("EvTokJmol")
            raise Bail(f"name {e.id}")
        if isinstance(e, ast.Attribute):
            t = core.src(e)
            if t == "self._temperatures":
                return ("arr", T)
            if t == "self._equiv_energies":
                return ("arr", E)
            raise Bail(f"attribute {t}")
        if isinstance(e, ast.UnaryOp) and isinstance(e.op, ast.USub):
            return -ev(e.operand)
        if isinstance(e, ast.BinOp):
            a, b = ev(e.left), ev(e.right)
            if isinstance(a, tuple) or isinstance(b, tuple):
                arr, sc = (a, b) if isinstance(a, tuple) else (b, a)
                if isinstance(sc, tuple) or not isinstance(e.op, (ast.Mult, ast.Div)) or (isinstance(e.op, ast.Div) and arr is b):
                    raise Bail("array arithmetic")
                f = (lambda x: x * sc) if isinstance(e.op, ast.Mult) else (lambda x: x / sc)
                if arr[0] == "arr":
                    return ("arr", {k: f(v) for k, v in arr[1].items()})
                return ("list", [f(v) for v in arr[1]])
            op = {ast.Add: lambda: a + b, ast.Sub: lambda: a - b, ast.Mult: lambda: a * b, ast.Div: lambda: a / b, ast.Pow: lambda: a**b}.get(type(e.op))
            if op is None:
                raise Bail("operator")
            return op()
        if isinstance(e, ast.Call):
            f = core.src(e.func)
            if f in ("np.array", "np.asarray", "float") and e.args:
                return ev(e.args[0])
            if f == "np.polyfit" and len(e.args) == 3 and isinstance(e.args[2], ast.Constant) and e.args[2].value == 2:
                xs, ys = ev(e.args[0]), ev(e.args[1])
                if not (isinstance(xs, tuple) and isinstance(ys, tuple) and xs[0] == ys[0] == "list" and len(xs[1]) == len(ys[1]) == 3):
                    raise Bail("polyfit operands")
                a2, a1, a0 = sp.symbols("_a2 _a1 _a0")
                sol = sp.solve([a2 * x**2 + a1 * x + a0 - y for x, y in zip(xs[1], ys[1])], [a2, a1, a0], dict=True)
                if not sol:
                    raise Bail("polyfit solve")
                return ("list", [sp.simplify(sol[0][a2]), sp.simplify(sol[0][a1]), sp.simplify(sol[0][a0])])
            raise Bail(f"call {f}")
        if isinstance(e, ast.Subscript):
            base = ev(e.value)
            if not isinstance(base, tuple):
                raise Bail("subscript of scalar")
            if isinstance(e.slice, ast.Slice):
                if base[0] != "arr" or e.slice.lower is None or e.slice.upper is None or e.slice.step is not None:
                    raise Bail("slice")
                lo, hi = offset(e.slice.lower), offset(e.slice.upper)
                return ("list", [base[1][k] for k in range(lo, hi)])
            if base[0] == "list":
                if isinstance(e.slice, ast.Constant) and isinstance(e.slice.value, int):
                    return base[1][e.slice.value]
                raise Bail("list index")
            return base[1][offset(e.slice)]
        raise Bail(type(e).__name__)

    try:
        for st in pre:
            if isinstance(st.targets[0], ast.Name):
                try:
                    env[st.targets[0].id] = ev(st.value)
                except Bail:
                    pass
        val = None
        for st in loop.body:
            if isinstance(st, ast.Assign) and isinstance(st.targets[0], ast.Name):
                env[st.targets[0].id] = ev(st.value)
            elif isinstance(st, ast.Expr) and isinstance(st.value, ast.Call) and core.src(st.value.func) == "cp.append":
                val = ev(st.value.args[0])
            else:
                raise Bail(f"statement {type(st).__name__}")
        if val is None or isinstance(val, tuple):
            return None, "no scalar appended to cp in the loop"
        return val, ""
    except Bail as b:
        raise AnalysisError(f"{QHA}::QHA._set_heat_capacity_P_numerical: construct outside the modelled fragment ({b})")


def _r20h(rep):
    """What the least-squares fit minimises: model minus data, paired with (eos, volumes, energies) in that order."""
    rep.rule("R20h", "the least-squares residual is eos(v, *p) - e (or its negative) and leastsq receives (eos, volumes, energies) in the order of the residual's parameters", 2)
    fit = core.find_def(EOS, "EOSFit.fit")
    res = [f for f in ast.walk(fit) if isinstance(f, ast.FunctionDef) and f is not fit]
    if len(res) != 1:
        raise AnalysisError("R20h: the residual function vanished from EOSFit.fit")
    r = res[0]
    ps = [a.arg for a in r.args.args]
    rets = [x.value for x in ast.walk(r) if isinstance(x, ast.Return)]
    ok = False
    if len(rets) == 1 and len(ps) == 4:
        e = symalg.open_expr(core.src(rets[0]))
        want = symalg.open_expr(f"{ps[1]}({ps[2]}, *{ps[0]}) - {ps[3]}")
        ok = symalg.same(e, want)[0] or symalg.same(-e, want)[0]
    rep.instance("R20h", EOS, "EOSFit.fit", f"residuals({', '.join(ps)}) returns {core.src(rets[0]) if rets else '?'}", ok, "the residual is not the difference between the equation of state at the volumes and the energies: the fit minimises something else", line=r.lineno, obligation=True)
    calls = [c for c in ast.walk(fit) if isinstance(c, ast.Call) and core.src(c.func) == "leastsq"]
    ok2 = False
    if len(calls) == 1:
        kw = {k.arg: k.value for k in calls[0].keywords}
        args = kw.get("args")
        ok2 = core.src(calls[0].args[0]) == r.name and isinstance(args, ast.Tuple) and [core.src(x) for x in args.elts] == ["self._eos", "self._volume", "self._energy"] and core.src(calls[0].args[1]) == fit.args.args[1].arg
    rep.instance("R20h", EOS, "EOSFit.fit", core.norm(core.src(calls[0]), 90) if calls else "<no leastsq call>", ok2, "leastsq does not receive the residual with (eos, volumes, energies) and the initial parameters", line=fit.lineno, obligation=True)


def _r20g(rep):
    """Temperature window: which rows are fitted and over which rows the finite differences run."""
    rep.rule("R20g", "temperature window: the number of fitted temperatures is (index of the temperature closest to t_max) + 1, plus one more point for the finite differences (clipped to the number of temperatures given); every finite-difference loop runs over i = 1 .. num_elems - 2 so that i - 1 and i + 1 are fitted rows", 6)
    gn = core.find_def(QHA, "QHA._get_num_elems")
    tr = symalg.OpenPyTranslator(where="QHA._get_num_elems")
    env = tr.summary(gn)
    rets = [r for r in ast.walk(gn) if isinstance(r, ast.Return)]
    tests = [n for n in gn.body if isinstance(n, ast.If)]
    ok_gn = False
    shown = "?"
    if len(tests) == 1 and len(rets) == 2:
        none_first = core.src(tests[0].test).replace(" ", "") == "self._t_maxisNone"
        none_arm, val_arm = (tests[0].body, tests[0].orelse) if none_first else (tests[0].orelse, tests[0].body)
        r_none = [r.value for st in none_arm for r in ast.walk(st) if isinstance(r, ast.Return)]
        r_val = [r.value for st in val_arm for r in ast.walk(st) if isinstance(r, ast.Return)]
        if len(r_none) == 1 and len(r_val) == 1:
            got = tr.expr(r_val[0], env)
            want = tr.expr(ast.parse("np.argmin(np.abs(temperatures - self._t_max)) + 1", mode="eval").body, {})
            shown = f"t_max None: {core.src(r_none[0])}; else: {core.src(r_val[0])}"
            ok_gn = symalg.same(got, want)[0] and core.src(r_none[0]) == "len(temperatures)" and core.src(tests[0].test).replace(" ", "") in ("self._t_maxisNone", "self._t_maxisnotNone")
    rep.instance("R20g", QHA, "QHA._get_num_elems", shown, ok_gn,
                 "the number of temperature points is not (index of the temperature closest to t_max) + 1 (all temperatures without t_max)", line=gn.lineno, obligation=True)
    run = core.find_def(QHA, "QHA.run")
    ne = [st for st in run.body if isinstance(st, ast.Assign) and core.src(st.targets[0]) == "num_elems"]
    ok_ne = len(ne) == 1 and symalg.same(symalg.open_expr(core.src(ne[0].value)), symalg.open_expr("self._get_num_elems(self._all_temperatures) + 1"))[0]
    rep.instance("R20g", QHA, "QHA.run", core.src(ne[0]) if ne else "<vanished>", ok_ne, "one extra temperature beyond t_max is not requested for the finite differences", line=run.lineno, obligation=True)
    clip = [st for st in run.body if isinstance(st, ast.If) and "num_elems" in core.src(st.test)]
    ok_clip = len(clip) == 1 and core.src(clip[0].test).replace(" ", "") in ("num_elems>len(self._all_temperatures)", "len(self._all_temperatures)<num_elems") and [core.src(x) for x in clip[0].body] in (["num_elems -= 1"], ["num_elems = len(self._all_temperatures)"]) and not clip[0].orelse
    rep.instance("R20g", QHA, "QHA.run", core.norm(core.src(clip[0]), 70) if clip else "<no clipping>", ok_clip, "the number of fitted temperatures is not clipped to the temperatures given", line=run.lineno, obligation=True)
    fl = [lp for lp in run.body if isinstance(lp, ast.For)]
    ok_fl = len(fl) == 1 and core.src(fl[0].iter).replace(" ", "") == "range(num_elems)"
    rep.instance("R20g", QHA, "QHA.run", f"fit loop {core.src(fl[0].iter) if fl else '?'}", ok_fl, "the fit does not run over the first num_elems temperatures", line=run.lineno, obligation=True)
    for qn in ("_set_thermal_expansion", "_set_heat_capacity_P_numerical", "_set_heat_capacity_P_polyfit", "_set_gruneisen_parameter"):
        fn = core.find_def(QHA, f"QHA.{qn}")
        if not any(isinstance(x, ast.For) for x in fn.body):
            # vectorised spelling: rows 1 .. n-2 are those of a store into x[1:] of differences of [2:] and [:-2]
            _, _, st_, a_ = _vectorised_site(fn, f"QHA.{qn}")
            rep.instance("R20g", QHA, f"QHA.{qn}", core.norm(core.src(st_), 80), a_ == 1, f"the vectorised differences start at row {a_}, not at row 1", line=st_.lineno, obligation=True)
            continue
        v, loop = _loopvar(fn, f"QHA.{qn}")
        ok, how = symalg.same(symalg.open_expr(core.src(loop.iter)), symalg.open_expr("range(1, self._num_elems - 1)"))
        rep.instance("R20g", QHA, f"QHA.{qn}", core.src(loop.iter), ok, f"loop bounds allow {v}-1 or {v}+1 to leave the fitted rows, or skip rows ({how})", line=loop.lineno, obligation=True)



def _r20i(rep):
    """Result arrays are floating point whatever the dtype of the temperatures the caller supplied."""
    rep.rule("R20i", "arrays that receive thermodynamic results are allocated with a floating dtype: np.zeros_like / empty_like / ones_like / full_like without dtype= takes the dtype of its prototype, so the prototype must be an attribute that is stored with an explicit float dtype (the temperatures are stored as given and may be integers)", 0)
    cls = core.find_def(QHA, "QHA")
    forced: dict[str, list[bool]] = {}
    for a in ast.walk(cls):
        if isinstance(a, ast.Assign) and isinstance(a.targets[0], ast.Attribute) and core.src(a.targets[0].value) == "self" and not (isinstance(a.value, ast.Constant) and a.value.value is None):
            v = a.value
            is_f = isinstance(v, ast.Call) and any(k.arg == "dtype" and core.src(k.value).strip("'\"") in ("double", "float", "float64", "np.float64") for k in v.keywords)
            forced.setdefault(a.targets[0].attr, []).append(is_f)
    for c in ast.walk(cls):
        if isinstance(c, ast.Call) and core.src(c.func) in ("np.zeros_like", "np.empty_like", "np.ones_like", "np.full_like") and c.args and not any(k.arg == "dtype" for k in c.keywords):
            root = c.args[0]
            while isinstance(root, (ast.Subscript, ast.Call)):
                root = root.value if isinstance(root, ast.Subscript) else (root.func.value if isinstance(root.func, ast.Attribute) else root)
                if isinstance(root, ast.Call) and not isinstance(root.func, ast.Attribute):
                    break
            attr = root.attr if isinstance(root, ast.Attribute) and core.src(root.value) == "self" else None
            if attr is None:
                continue
            ok = bool(forced.get(attr)) and all(forced[attr])
            rep.instance("R20i", QHA, core.qualname_of(core.enclosing_function(c)), core.norm(core.src(c), 80), ok,
                         f"the array takes the dtype of self.{attr}, which is stored without an explicit float dtype: with integer input (np.arange(0, 310, 10), a list of ints) every result written into it is truncated to an integer (a thermal expansion of 1e-5 becomes 0) and nothing refuses", line=c.lineno, obligation=True)



def _r20k(rep):
    """Row i of every volume-dependent input belongs to volume i: arrays combined or stored side by side are in one order."""
    rep.rule("R20k", "order of the volume points: in QHA.__init__ and BulkModulus.__init__ every volume-indexed array (volumes, electronic energies, Cv, entropy, phonon free energy, the PV term) that is added to another or stored next to it is in the same order -- all as given by the caller, or all permuted by the same argsort of the volumes", 2)
    VOL = {"volumes", "electronic_energies", "energies", "cv", "entropy", "fe_phonon"}
    for qn in ("QHA.__init__", "BulkModulus.__init__"):
        fn = core.find_def(QHA, qn)
        params = {a.arg for a in fn.args.args}
        env: dict = {}      # name / self attribute -> order domain: 'caller' | ('sorted', key) | None
        perms: dict = {}    # local -> text of the array its argsort was taken of
        problems = []

        def dom(e):
            if isinstance(e, ast.Name):
                if e.id in env:
                    return env[e.id]
                return "caller" if e.id in params & VOL else None
            if isinstance(e, ast.Attribute) and core.src(e) in env:
                return env[core.src(e)]
            if isinstance(e, ast.Call) and core.src(e.func) in ("np.array", "np.asarray", "np.ascontiguousarray") and e.args:
                return dom(e.args[0])
            if isinstance(e, ast.Call) and isinstance(e.func, ast.Attribute) and e.func.attr in ("copy", "astype"):
                return dom(e.func.value)
            if isinstance(e, ast.Subscript):
                parts = e.slice.elts if isinstance(e.slice, ast.Tuple) else [e.slice]
                last = parts[-1]
                base = dom(e.value)
                if isinstance(last, ast.Name) and last.id in perms and base == "caller":
                    return ("sorted", perms[last.id])
                if isinstance(last, ast.Call) and core.src(last.func) == "np.argsort" and base == "caller":
                    return ("sorted", core.src(last.args[0]))
                return base
            if isinstance(e, ast.BinOp):
                a, b = dom(e.left), dom(e.right)
                if a is not None and b is not None and a != b:
                    problems.append((e, a, b))
                return a if a is not None else b
            if isinstance(e, ast.UnaryOp):
                return dom(e.operand)
            if isinstance(e, ast.IfExp):
                a, b = dom(e.body), dom(e.orelse)
                return a if a is not None else b
            return None

        def walk(stmts):
            for st in stmts:
                if isinstance(st, ast.Assign) and len(st.targets) == 1:
                    v = st.value
                    if isinstance(v, ast.Call) and core.src(v.func) == "np.argsort" and v.args and isinstance(st.targets[0], ast.Name) and dom(v.args[0]) == "caller":
                        perms[st.targets[0].id] = "volumes"
                        continue
                    d = dom(v)
                    key = st.targets[0].id if isinstance(st.targets[0], ast.Name) else core.src(st.targets[0])
                    old = env.get(key)
                    env[key] = d if d is not None else (old if isinstance(st.targets[0], ast.Name) and False else d)
                elif isinstance(st, ast.AugAssign):
                    a, b = dom(st.target), dom(st.value)
                    if a is not None and b is not None and a != b:
                        problems.append((st, a, b))
                elif isinstance(st, ast.If):
                    walk(st.body)
                    walk(st.orelse)

        walk(fn.body)
        stored = {k: v for k, v in env.items() if k.startswith("self.") and v is not None}
        kinds = {("sorted" if isinstance(v, tuple) else v) for v in stored.values()}
        show = lambda d: "the order given by the caller" if d == "caller" else "ascending volume (argsort)"
        rep.instance("R20k", QHA, qn, f"element-wise combinations of volume-indexed arrays: {len(problems)} with different orders", not problems,
                     (f"'{core.norm(core.src(problems[0][0]), 70)}' combines an array in {show(problems[0][1])} with one in {show(problems[0][2])}: row j of one is added to row j of the other although they belong to different volumes -- with pressure and volumes not listed in ascending order the PV term lands on the wrong energies and V(T), G(T), B(T) are wrong" if problems else ""), line=(problems[0][0].lineno if problems else fn.lineno), obligation=True)
        rep.instance("R20k", QHA, qn, f"stored volume-indexed attributes {sorted(stored)} share one order", len(kinds) <= 1,
                     f"the stored arrays are in different orders ({ {k: show(v) for k, v in stored.items()} }): volume i no longer goes with row i of the others", line=fn.lineno, obligation=True)


def _r20f(rep):
    te = core.find_def(QHA, "QHA._set_thermal_expansion")
    if any(isinstance(x, ast.For) for x in te.body):
        i, loop = _loopvar(te, "QHA._set_thermal_expansion")
        tr = symalg.OpenPyTranslator(where="QHA._set_thermal_expansion")
        tr.summary(te)
        got = (tr.appends.get("beta") or [None])[-1]
        _site(rep, "R20f", "QHA._set_thermal_expansion", te, "beta_i = (V[i+1]-V[i-1]) / (T[i+1]-T[i-1]) / V[i]", got,
              f"(self._equiv_volumes[{i}+1]-self._equiv_volumes[{i}-1])/(self._temperatures[{i}+1]-self._temperatures[{i}-1])/self._equiv_volumes[{i}]",
              "thermal expansion is not the central difference of the equilibrium volume divided by the volume at the same temperature")
        rng = symalg.open_expr(core.src(loop.iter))
        ok, how = symalg.same(rng, symalg.open_expr("range(1, self._num_elems - 1)"))
        rep.instance("R20f", QHA, "QHA._set_thermal_expansion", core.src(loop.iter), ok,
                     f"loop bounds allow i-1 or i+1 to leave the fitted range ({how})", line=loop.lineno, obligation=True)
    else:
        # vectorised spelling: one slice store; element i of it must be the same central difference
        text, i, st, a = _vectorised_site(te, "QHA._set_thermal_expansion")
        _site(rep, "R20f", "QHA._set_thermal_expansion", te, "beta_i = (V[i+1]-V[i-1]) / (T[i+1]-T[i-1]) / V[i]", symalg.open_expr(text),
              "(self._equiv_volumes[i+1]-self._equiv_volumes[i-1])/(self._temperatures[i+1]-self._temperatures[i-1])/self._equiv_volumes[i]",
              "thermal expansion is not the central difference of the equilibrium volume divided by the volume at the same temperature")
        rep.instance("R20f", QHA, "QHA._set_thermal_expansion", core.norm(core.src(st), 80), a == 1,
                     f"the vectorised differences are stored from row {a}, not from row 1 (row 0 has no left neighbour and stays 0)", line=st.lineno, obligation=True)
    _r20i(rep)

    cp = core.find_def(QHA, "QHA._set_heat_capacity_P_numerical")
    i, loop = _loopvar(cp, "QHA._set_heat_capacity_P_numerical")
    got, how = _cp_numerical_value(cp, i, loop)
    unit = sp.Symbol("EvTokJmol") * 1000
    al, be, ga = sp.symbols("alpha beta gamma")
    T = {k: sp.Symbol(f"T{k:+d}") for k in (-1, 0, 1)}
    ok = False
    if got is not None:
        quad = {sp.Symbol(f"E{k:+d}"): al * T[k] ** 2 + be * T[k] + ga for k in (-1, 0, 1)}
        resid = sp.simplify(got.subs(quad) - (-T[0] * 2 * al * unit))
        ok = resid == 0
        how = f"for G = alpha T^2 + beta T + gamma on three arbitrary temperatures the term is off by {resid}" if not ok else "exact on quadratics for arbitrary (unequal) temperature steps"
    rep.instance("R20f", QHA, "QHA._set_heat_capacity_P_numerical", "Cp_i = -T_i d2G/dT2 from the three points i-1, i, i+1, exact for quadratic G on any temperature grid, G in J/mol", ok,
                 f"Cp is not -T d2G/dT2 of the local quadratic in J/K/mol: {how}", line=cp.lineno, sample={"site": "cp_numerical", "closed_by": how} if ok else None, obligation=True)

    pf = core.find_def(QHA, "QHA._set_heat_capacity_P_polyfit")
    j, loop = _loopvar(pf, "QHA._set_heat_capacity_P_polyfit")
    tr = symalg.OpenPyTranslator(where="cp_polyfit")
    tr.summary(pf)
    got = (tr.appends.get("cp") or [None])[-1]
    x = f"self._equiv_volumes[{j}]"
    t = f"self._temperatures[{j}]"
    fitT = f"np.polyfit(self._temperatures[{j}-1:{j}+2], self._equiv_volumes[{j}-1:{j}+2], 2)"
    n_tfit = sum(1 for c in ast.walk(pf) if isinstance(c, ast.Call) and core.src(c.func) == "np.polyfit" and "temperatures" in core.src(c))
    qcls = core.parse(QHA)
    grad_attrs = {core.src(t) for st_ in ast.walk(qcls) if isinstance(st_, ast.Assign) and isinstance(st_.value, ast.Call) and core.src(st_.value.func) == "np.gradient" and len(st_.value.args) == 2 and "equiv_volumes" in core.src(st_.value.args[0]) and "temperatures" in core.src(st_.value.args[1]) for t in st_.targets}
    uses_grad = any(core.src(x) in grad_attrs for x in ast.walk(pf) if isinstance(x, (ast.Attribute, ast.Name))) or any(isinstance(c, ast.Call) and core.src(c.func) == "np.gradient" and len(c.args) == 2 and "equiv_volumes" in core.src(c.args[0]) and "temperatures" in core.src(c.args[1]) for c in ast.walk(pf))
    if n_tfit == 0 and uses_grad:
        # dV/dT taken another way (np.gradient's interior formula is the derivative of the same three-point parabola):
        # the documented form cannot be compared term by term; what the derivative is, is not decided here
        rep.unknown("R20f: _set_heat_capacity_P_polyfit takes dV/dT from np.gradient(V_eq, T) (interior formula = derivative of the same three-point parabola) instead of np.polyfit; the Cp assembly is not compared term by term")
    else:
        _site(rep, "R20f", "QHA._set_heat_capacity_P_polyfit", pf, "Cp_j = Cv(V_j) + T_j * dV/dT * dS/dV (degree-4 fits in V, quadratic in T)", got,
              f"np.dot(np.polyfit(self._volumes, self._cv[{j}], 4), np.array([{x}**4, {x}**3, {x}**2, {x}, 1]))"
              f" + {t} * ({fitT}[0] * 2 * {t} + {fitT}[1])"
              f" * np.dot(np.polyfit(self._volumes, self._entropy[{j}], 4)[:4], np.array([4*{x}**3, 3*{x}**2, 2*{x}, 1]))",
              "polynomial evaluation / derivative vectors do not match np.polyfit's highest-power-first coefficients")
    a = sp.symbols("a0:5")
    xs = sp.Symbol("x")
    poly = sum(a[k] * xs ** (4 - k) for k in range(5))
    der = sum(a[k] * c for k, c in zip(range(4), [4 * xs**3, 3 * xs**2, 2 * xs, 1]))
    okd, how = symalg.is_zero(sp.diff(poly, xs) - der)
    rep.instance("R20f", QHA, "QHA._set_heat_capacity_P_polyfit", "d/dx polyval(a, x) == dot(a[:4], [4x^3, 3x^2, 2x, 1])", okd, how, line=pf.lineno, obligation=True)

    gr = core.find_def(QHA, "QHA._set_gruneisen_parameter")
    i, loop = _loopvar(gr, "QHA._set_gruneisen_parameter")
    tr = symalg.OpenPyTranslator(where="gruneisen")
    tr.summary(gr)
    got = (tr.appends.get("gamma") or [None])[-1]
    v = f"self._equiv_volumes[{i}]"
    _site(rep, "R20f", "QHA._set_gruneisen_parameter", gr, "gamma_i = beta_i * K_T,i / (Cv(V_i)/V_i in GPa/K)", got,
          f"self._thermal_expansions[{i}] * self._equiv_bulk_modulus[{i}] / (np.dot(np.polyfit(self._volumes, self._cv[{i}], 4), [{v}**4, {v}**3, {v}**2, {v}, 1]) / {v} / 1000 / EvTokJmol * EVAngstromToGPa)",
          "Grueneisen parameter is not beta*K_T*V/Cv with Cv converted J/K/mol -> eV/K -> GPa A^3/K at one index")


def _r20n(rep):
    """The equation of state chosen by name reaches every fit as that name (or as something the receiver understands)."""
    rep.rule("R20n", "EOS wiring: get_eos maps a NAME to a function and falls back to Vinet for anything else, so whatever a caller hands to a constructor that resolves its eos argument by get_eos must be the name: PhonopyQHA passes the user's eos string (not an already resolved function) to BulkModulus and QHA unless the receiving constructor tests callable(eos) itself; otherwise the per-temperature fits silently use Vinet while the static fit uses the requested EOS", 2)
    CORE_ = "phonopy/qha/core.py"
    API_ = "phonopy/api_qha.py"
    accepts = {}
    for cname in ("QHA", "BulkModulus"):
        init = core.find_def(CORE_, f"{cname}.__init__")
        if "eos" not in [a.arg for a in init.args.args + init.args.kwonlyargs]:
            raise AnalysisError(f"R20n: {cname}.__init__ lost its eos parameter")
        resolves = [c for c in ast.walk(init) if isinstance(c, ast.Call) and core.src(c.func).endswith("get_eos")]
        guarded = any(isinstance(c, ast.Call) and core.src(c.func) == "callable" and c.args and core.src(c.args[0]) == "eos" for c in ast.walk(init))
        accepts[cname] = guarded or not resolves
    tree = core.parse(API_)
    n = 0
    for fn in [x for x in ast.walk(tree) if isinstance(x, ast.FunctionDef)]:
        for c in ast.walk(fn):
            if not (isinstance(c, ast.Call) and isinstance(c.func, ast.Name) and c.func.id in accepts):
                continue
            arg = next((k.value for k in c.keywords if k.arg == "eos"), None)
            if arg is None:
                continue
            v = core.resolve_name(fn, arg)
            resolved = any(isinstance(x, ast.Call) and core.src(x.func).endswith("get_eos") for x in ast.walk(v))
            n += 1
            rep.instance("R20n", API_, core.qualname_of(fn), f"{c.func.id}(eos={core.norm(core.src(v), 50)})", (not resolved) or accepts[c.func.id],
                         f"{c.func.id} receives an already resolved EOS function ('{core.norm(core.src(v), 60)}') but resolves its argument with get_eos(), which returns the Vinet function for anything that is not one of the three names: the fits made by {c.func.id} silently use Vinet whatever EOS was requested", line=c.lineno)
    if n < 2:
        raise AnalysisError(f"R20n: only {n} constructions with eos= found in {API_}")


def selftest():
    V = []
    b = lambda name, file, old, new, rule, expect="", **kw: V.append(dict(name=name, kind="break", file=file, old=old, new=new, rule=rule, expect=expect, **kw))
    n = lambda name, file, old, new, **kw: V.append(dict(name=name, kind="neutral", file=file, old=old, new=new, **kw))
    QHA_ = "phonopy/qha/core.py"
    b("per-temperature fits regrouped by reshape instead of transpose", QHA_, "            for i, energies_at_T in enumerate(self._energies):\n                e, b, bp, ev = self.fit_to_eos(energies_at_T)\n                self._energy[i] = e\n                self._bulk_modulus[i] = b\n                self._b_prime[i] = bp\n                self._equiv_volume[i] = ev", "            params = np.array([self.fit_to_eos(e_T) for e_T in self._energies], dtype=\"double\").reshape(4, -1)\n            self._energy, self._bulk_modulus, self._b_prime, self._equiv_volume = params", "R20d", "BulkModulus.__init__")
    n("per-temperature fits regrouped by transpose", QHA_, "            for i, energies_at_T in enumerate(self._energies):\n                e, b, bp, ev = self.fit_to_eos(energies_at_T)\n                self._energy[i] = e\n                self._bulk_modulus[i] = b\n                self._b_prime[i] = bp\n                self._equiv_volume[i] = ev", "            params = np.array([self.fit_to_eos(e_T) for e_T in self._energies], dtype=\"double\").T\n            self._energy, self._bulk_modulus, self._b_prime, self._equiv_volume = params")
    b("PhonopyQHA hands a resolved EOS function to QHA", "phonopy/api_qha.py", "                eos=eos,", "                eos=get_eos(eos),", "R20n", "QHA(")
    b("Birch-Murnaghan coefficient 9/8", EOS, "return p[0] + 9.0 / 16 * p[3] * p[1] * (", "return p[0] + 9.0 / 8 * p[3] * p[1] * (", "R20a", "birch_murnaghan")
    b("Vinet exponent", EOS, "        xi = 3.0 / 2 * (p[2] - 1)", "        xi = 3.0 / 2 * (p[2] + 1)", "R20a", "vinet")
    b("Murnaghan reference term", EOS, "            - p[1] * p[3] / (p[2] - 1)", "            - p[1] * p[3] / p[2]", "R20a", "murnaghan")
    b("pressure subtracted", QHA, "            self._electronic_energies += self._volumes * pressure / EVAngstromToGPa", "            self._electronic_energies -= self._volumes * pressure / EVAngstromToGPa", "R20b", "QHA.__init__")
    b("BulkModulus works on the caller's array", QHA, "        self._energies = np.array(energies)", "        self._energies = np.asarray(energies)", "R20b", "BulkModulus")
    b("electronic free energies indexed by a shifted temperature", QHA, "                el_energy = self._electronic_energies[i]", "                el_energy = self._electronic_energies[i - 1]", "R20c", "electronic")
    b("equilibrium volume taken from the bulk-modulus column", QHA, "self._equiv_volumes = np.array(self._equiv_parameters[:, 3])", "self._equiv_volumes = np.array(self._equiv_parameters[:, 1])", "R20d", "_equiv_volumes")
    b("EOS names swapped", EOS, '    if eos == "murnaghan":\n        return murnaghan', '    if eos == "murnaghan":\n        return birch_murnaghan', "R20e", "murnaghan")
    b("thermal expansion one-sided", QHA, "            dv = self._equiv_volumes[i + 1] - self._equiv_volumes[i - 1]", "            dv = self._equiv_volumes[i + 1] - self._equiv_volumes[i]", "R20f", "beta_i")
    b("Cp from the linear coefficient", QHA, "            cp.append(-(2 * parameters[0]) * t)", "            cp.append(-(2 * parameters[1]) * t)", "R20f", "Cp_i")
    b("Grueneisen: Cv not per volume", QHA, "                / v\n                / 1000\n                / EvTokJmol", "                / 1000\n                / EvTokJmol", "R20f", "gamma_i")
    n("Vinet with a cached ratio", EOS, "        x = (v / p[3]) ** (1.0 / 3)", "        ratio = v / p[3]\n        x = ratio ** (1.0 / 3)")
    n("thermal expansion with renamed locals", QHA, "            dt = self._temperatures[i + 1] - self._temperatures[i - 1]\n            dv = self._equiv_volumes[i + 1] - self._equiv_volumes[i - 1]\n            beta.append(dv / dt / self._equiv_volumes[i])", "            d_temp = self._temperatures[i + 1] - self._temperatures[i - 1]\n            d_vol = self._equiv_volumes[i + 1] - self._equiv_volumes[i - 1]\n            beta.append(d_vol / (d_temp * self._equiv_volumes[i]))")
    b("Cp by a second difference that assumes equal steps", QHA, '            parameters = np.polyfit(\n                self._temperatures[i - 1 : i + 2], g[i - 1 : i + 2], 2\n            )\n            cp.append(-(2 * parameters[0]) * t)\n', '            dt_m = t - self._temperatures[i - 1]\n            dt_p = self._temperatures[i + 1] - t\n            d2g = (g[i + 1] - 2 * g[i] + g[i - 1]) / (dt_m * dt_p)\n            cp.append(-t * d2g)\n', "R20f", "_set_heat_capacity_P_numerical")
    n("Cp by the exact three-point second difference", QHA, '            parameters = np.polyfit(\n                self._temperatures[i - 1 : i + 2], g[i - 1 : i + 2], 2\n            )\n            cp.append(-(2 * parameters[0]) * t)\n', '            dt_m = t - self._temperatures[i - 1]\n            dt_p = self._temperatures[i + 1] - t\n            d2g = 2 * ((g[i + 1] - g[i]) / dt_p - (g[i] - g[i - 1]) / dt_m) / (dt_m + dt_p)\n            cp.append(-t * d2g)\n')
    b("one temperature too few is fitted", QHA, "        num_elems = self._get_num_elems(self._all_temperatures) + 1", "        num_elems = self._get_num_elems(self._all_temperatures) - 1", "R20g", "QHA.run")
    b("heat capacity loop overruns the fitted rows", QHA, "        for i in range(1, self._num_elems - 1):\n            t = self._temperatures[i]\n            parameters = np.polyfit(", "        for i in range(1, self._num_elems + 1):\n            t = self._temperatures[i]\n            parameters = np.polyfit(", "R20g", "_set_heat_capacity_P_numerical")
    b("t_max index off by one", QHA, "            return i + 1", "            return i - 1", "R20g", "_get_num_elems")
    b("residual adds the energies", EOS, "                return eos(v, *p) - e", "                return eos(v, *p) + e", "R20h", "residuals")
    n("residual with the opposite sign", EOS, "                return eos(v, *p) - e", "                return e - eos(v, *p)")
    n("thermal expansion vectorised into a float array", QHA, "        beta = [0.0]\n        for i in range(1, self._num_elems - 1):\n            dt = self._temperatures[i + 1] - self._temperatures[i - 1]\n            dv = self._equiv_volumes[i + 1] - self._equiv_volumes[i - 1]\n            beta.append(dv / dt / self._equiv_volumes[i])\n", "        beta = np.zeros(len(self._temperatures) - 1, dtype=\"double\")\n        dt = self._temperatures[2:] - self._temperatures[:-2]\n        dv = self._equiv_volumes[2:] - self._equiv_volumes[:-2]\n        beta[1:] = dv / dt / self._equiv_volumes[1:-1]\n")
    b("thermal expansion vectorised into an array of the temperatures' dtype", QHA, "        beta = [0.0]\n        for i in range(1, self._num_elems - 1):\n            dt = self._temperatures[i + 1] - self._temperatures[i - 1]\n            dv = self._equiv_volumes[i + 1] - self._equiv_volumes[i - 1]\n            beta.append(dv / dt / self._equiv_volumes[i])\n", "        beta = np.zeros_like(self._temperatures[:-1])\n        dt = self._temperatures[2:] - self._temperatures[:-2]\n        dv = self._equiv_volumes[2:] - self._equiv_volumes[:-2]\n        beta[1:] = dv / dt / self._equiv_volumes[1:-1]\n", "R20i", "zeros_like")
    b("vectorised thermal expansion divides by the volume one row up", QHA, "        beta = [0.0]\n        for i in range(1, self._num_elems - 1):\n            dt = self._temperatures[i + 1] - self._temperatures[i - 1]\n            dv = self._equiv_volumes[i + 1] - self._equiv_volumes[i - 1]\n            beta.append(dv / dt / self._equiv_volumes[i])\n", "        beta = np.zeros(len(self._temperatures) - 1, dtype=\"double\")\n        dt = self._temperatures[2:] - self._temperatures[:-2]\n        dv = self._equiv_volumes[2:] - self._equiv_volumes[:-2]\n        beta[1:] = dv / dt / self._equiv_volumes[2:]\n", "R20f", "beta_i")
    b("EOS table with a misspelt key", EOS, '    if eos == "murnaghan":\n        return murnaghan\n    elif eos == "birch_murnaghan":\n        return birch_murnaghan\n    else:\n        return vinet', '    fs = {"vinet": vinet, "murnaghan": murnaghan, "birch_murnagahan": birch_murnaghan}\n    return fs.get(eos, vinet)', "R20e", "birch_murnaghan")
    n("EOS dispatch as a table", EOS, '    if eos == "murnaghan":\n        return murnaghan\n    elif eos == "birch_murnaghan":\n        return birch_murnaghan\n    else:\n        return vinet', '    fs = {"vinet": vinet, "murnaghan": murnaghan, "birch_murnaghan": birch_murnaghan}\n    return fs.get(eos, vinet)')
    return V
