"""Shared rule (R<XX>y.lazycache): a lazily computed attribute is reset by every writer of what it was computed from.

``if self._k is None: self._k = f(self._s, ...)`` computes once and reuses; a method that later assigns ``self._s``
(a setter, a producer) without assigning ``self._k`` leaves a value computed from the old ``self._s`` in place -- the
object then differs from a fresh one with the same final state.  (The complementary early-return form,
``if unchanged: return``, is R19k.)  ``__init__`` is neither a cache site nor a writer.
"""

from __future__ import annotations

import ast

from engine import core
from engine.core import AnalysisError


def scan(tree):
    """[(class, caching method, key, sources, [(writer, sources written)])]"""
    out = []
    for cls in [c for c in ast.walk(tree) if isinstance(c, ast.ClassDef)]:
        methods = [m for m in cls.body if isinstance(m, ast.FunctionDef)]
        writes_of = {}
        for w in methods:
            ws = set()
            for a in ast.walk(w):
                if isinstance(a, (ast.Assign, ast.AugAssign)):
                    for t in (a.targets if isinstance(a, ast.Assign) else [a.target]):
                        for x in (t.elts if isinstance(t, ast.Tuple) else [t]):
                            base = x
                            while isinstance(base, ast.Subscript):
                                base = base.value
                            if isinstance(base, ast.Attribute) and core.src(base.value) == "self":
                                ws.add(core.src(base))
            writes_of[w.name] = ws
        for m in methods:
            if m.name == "__init__":
                continue
            for st in ast.walk(m):
                if not (isinstance(st, ast.If) and isinstance(st.test, ast.Compare) and len(st.test.ops) == 1 and isinstance(st.test.ops[0], ast.Is) and isinstance(st.test.comparators[0], ast.Constant) and st.test.comparators[0].value is None and isinstance(st.test.left, ast.Attribute) and core.src(st.test.left.value) == "self"):
                    continue
                key = core.src(st.test.left)
                asg = [a for b in st.body for a in ast.walk(b) if isinstance(a, ast.Assign) and core.src(a.targets[0]) == key]
                if not asg:
                    continue
                src = set()
                for a in asg:
                    src |= {core.src(x) for x in ast.walk(a.value) if isinstance(x, ast.Attribute) and core.src(x.value) == "self" and not (isinstance(getattr(x, "_parent", None), ast.Call) and getattr(x, "_parent").func is x)}
                src.discard(key)
                if not src:
                    continue
                stale = [(w, sorted(writes_of[w.name] & src)) for w in methods if w is not m and w.name != "__init__" and writes_of[w.name] & src and key not in writes_of[w.name]]
                out.append((cls, m, key, sorted(src), stale))
    return out


_CONTROL = '''
class K:
    def __init__(self):
        self._fc = None
        self._d = None
    def set_fc(self, fc):
        self._fc = fc
    def cutoff(self, r):
        if self._d is None:
            self._d = distances(self._fc)
        apply(self._fc, self._d, r)
'''


def run(rep: core.Report, rid: str, scope: list[str]):
    rep.rule(rid, "a lazily computed attribute (if self._k is None: self._k = f(self._s ...)) is assigned again or reset by every method that assigns one of the attributes it was computed from; expected count on the tree: none, kept alive by a built-in example", 0)
    t = ast.parse(_CONTROL)
    for n in ast.walk(t):
        for c in ast.iter_child_nodes(n):
            c._parent = n
    ctrl = scan(t)
    if not (len(ctrl) == 1 and ctrl[0][4] and ctrl[0][4][0][0].name == "set_fc"):
        raise AnalysisError(f"{rid}: the rule no longer recognises its own example")
    for rel in scope:
        for cls, m, key, src, stale in scan(core.parse(rel)):
            rep.instance(rid, rel, f"{cls.name}.{m.name}", f"lazy {key} from {src}", not stale,
                         (f"{cls.name}.{stale[0][0].name} assigns {stale[0][1]} but leaves {key} as computed from the earlier value: the next {m.name} reuses it (e.g. pair distances laid out for full force constants applied to compact ones), so the object's behaviour depends on its history" if stale else ""), line=m.lineno)
