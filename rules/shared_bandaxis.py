"""Shared rule (C10 R10k, C09 R09m): band quantities meet the band axis of the eigenvector arrays.

phonopy stores the eigenvector of band b at a q-point in COLUMN b: ``eigvecs[:, b]`` (component, band), stacks over
q-points as (q, component, band).  Frequencies, functions of them, and masks derived from them are indexed by band.
|e|^2 of a unitary matrix is doubly stochastic, so a product over the wrong axis keeps every total (sum over
components = sum over bands = the unprojected value) and only the individual projected values are wrong: nothing a
sum-rule test notices.  The rule types the axes (engine/frames: component axis L(cmp)+, band axis L(bnd)-, band
vectors L(bnd)+) and checks every contraction, every index / mask applied to a typed array and every ``zip`` pairing in
the listed functions.
"""

from __future__ import annotations

from engine import core, frames
from engine.core import AnalysisError
from engine.frames import L, U

CMP, BND = L("cmp", "+"), L("bnd", "-")
FREQ = L("bnd", "+")
SEEDS = {"self._frequencies": (U, FREQ), "self._eigenvectors": (U, CMP, BND), "self._eigvecs2": (U, CMP, BND),
         # the tetrahedron iterator yields, per q-point, integration weights (frequency point, band)
         "self._tetrahedron_mesh": (U, U, FREQ), "self._weights": (U,)}


def run(rep: core.Report, rid: str, scope: list, floor: int = 1):
    """scope: [(file, qualname, {callable parameter name: position of the argument whose axes it keeps})]"""
    rep.rule(rid, "eigenvector axes: band-indexed quantities (frequencies, functions of them, masks over them) are contracted with, applied as index to, and iterated together with the band axis (the second axis, eigvecs[:, band]) of the eigenvector arrays, never the component axis; |e|^2 is doubly stochastic, so the wrong axis keeps all totals", floor)
    for rel, qn, same_as in scope:
        fn = core.find_def(rel, qn)
        ty = frames.Typer(fn, seeds=dict(SEEDS), params={}, call_sigs={k: {"same_as": v} for k, v in same_as.items()}, where=f"{rel}::{qn}")
        problems = ty.run()
        if not problems and ty.n_typed < 1:
            raise AnalysisError(f"{rid}: no product of a band quantity with the eigenvectors could be typed in {qn}")
        if not problems:
            rep.instance(rid, rel, qn, f"{ty.n_typed} product(s) / pairing(s) of band quantities with eigenvectors typed consistently", True, "", line=fn.lineno)
        for p in problems:
            rep.instance(rid, rel, qn, core.norm(core.src(p.node), 90), False,
                         f"{p.message}: the quantity of band b is paired with row b (Cartesian component b) of the eigenvector matrix instead of column b (the eigenvector of band b); the sum over all components is unchanged, each projected value is wrong", line=getattr(p.node, "lineno", fn.lineno))
