"""C16 — saving/reloading and the text file writers/parsers (DESIGN §3 C16)."""

from __future__ import annotations

import ast
import re

from engine import core
from engine.core import AnalysisError

YML = "phonopy/interface/phonopy_yaml.py"
ATOMS = "phonopy/structure/atoms.py"
FIO = "phonopy/file_IO.py"
API = "phonopy/api_phonopy.py"
DATASET = "phonopy/structure/dataset.py"

# keys the property names: both sides must know them
REQUIRED = {
    "lattice", "points", "symbol", "coordinates", "mass",
    "supercell_matrix", "primitive_matrix", "unit_cell", "supercell", "primitive_cell",
    "displacements", "forces", "supercell_energies", "displacement", "atom", "supercell_energy",
    "force_constants", "shape", "elements",
    "nac", "born_effective_charge", "dielectric_constant", "method", "unit_conversion_factor",
    "calculator", "physical_unit",
}
# keys only older phonopy versions wrote; the loader still accepts them (one reason each)
LEGACY = {
    "atoms": "files written before v1.11 call the list of sites 'atoms' instead of 'points'",
    "nac_unit_conversion_factor": "older spelling of nac.unit_conversion_factor kept for old files",
    "force": "per-atom 'force' of the v2.23 type-2 layout is emitted by _displacements_yaml_lines_type2_v223",
    "position": "files written before v1.10.9 give 'position' instead of 'coordinates'",
    "natom": "old type-1 files carry the supercell atom count at top level",
}


def _joined(n: ast.JoinedStr) -> str:
    return "".join(v.value if isinstance(v, ast.Constant) else "{" + core.src(v.value) + "}" for v in n.values)


def _string_templates(node):
    for n in ast.walk(node):
        if isinstance(n, ast.Constant) and isinstance(n.value, str):
            yield n, n.value
        elif isinstance(n, ast.JoinedStr):
            yield n, _joined(n)


KEY_RE = re.compile(r"^\s*(?:- )?([A-Za-z_{%][\w{}%]*):(\s|$)")


def emitted_keys():
    """yaml keys the dumpers can emit; holes {name}/%s are resolved through call-site literals."""
    out = {}
    tree = core.parse(YML)
    nodes = [c for c in tree.body if isinstance(c, ast.ClassDef) and "Dumper" in c.name] + [f for f in tree.body if isinstance(f, ast.FunctionDef)]
    at = core.parse(ATOMS)
    nodes += [n for n in ast.walk(at) if isinstance(n, ast.FunctionDef) and n.name == "get_yaml_lines"]
    holes = []
    for nd in nodes:
        for n, s in _string_templates(nd):
            m = KEY_RE.match(s)
            if not m:
                continue
            k = m.group(1)
            if k.startswith("%") or (k.startswith("{") and k.endswith("}") and "key_prefix" not in k):
                holes.append((n, k))
            else:
                out.setdefault(k.replace("{key_prefix}", ""), n)
                if "{key_prefix}" in k:
                    out.setdefault(k, n)
    # holes: "%s:" % name / f"{name}:" inside a method whose parameter is passed literal strings by callers
    for n, k in holes:
        fn = core.enclosing_function(n)
        if fn is None:
            continue
        params = [a.arg for a in fn.args.args]
        var = k.strip("{}") if k.startswith("{") else None
        if var is None:
            # "%s:" % name
            par = getattr(n, "_parent", None)
            if isinstance(par, ast.BinOp) and isinstance(par.op, ast.Mod):
                var = core.src(par.right).split(".")[0] if isinstance(par.right, ast.Name) else None
        def literals_for(fdef, v, depth=0):
            ps = [a.arg for a in fdef.args.args]
            if v not in ps or depth > 3:
                return
            ix = ps.index(v) - (1 if ps and ps[0] == "self" else 0)
            for nd2 in nodes:
                for c in ast.walk(nd2):
                    if isinstance(c, ast.Call) and isinstance(c.func, ast.Attribute) and c.func.attr == fdef.name and ix < len(c.args):
                        a = c.args[ix]
                        if isinstance(a, ast.Constant) and isinstance(a.value, str):
                            out.setdefault(a.value, c)
                        elif isinstance(a, ast.Name):
                            outer = core.enclosing_function(c)
                            if outer is not None:
                                literals_for(outer, a.id, depth + 1)

        if var in params:
            literals_for(fn, var)
        if var and "command_name" in var or (k == "%s" and "command_name" in core.src(getattr(n, "_parent", n))):
            out.setdefault("<command>", n)
    return out


TRUTHY = []  # (key, node, function, file): filled by consumed_keys()


def _parsed_value(e, fn, base_tainted, key_of):
    """the yaml key when e is the parsed value itself: x["k"], x.get("k"[, default]) or a local bound once to one"""
    if isinstance(e, ast.Subscript) and base_tainted(e.value):
        return key_of(e.slice)
    if isinstance(e, ast.Call) and isinstance(e.func, ast.Attribute) and e.func.attr == "get" and e.args and base_tainted(e.func.value):
        return key_of(e.args[0])
    if isinstance(e, ast.Name):
        defs = [x for x in ast.walk(fn) if isinstance(x, ast.Assign) and len(x.targets) == 1 and isinstance(x.targets[0], ast.Name) and x.targets[0].id == e.id]
        if len(defs) == 1 and not isinstance(defs[0].value, ast.Name):
            return _parsed_value(defs[0].value, fn, base_tainted, key_of)
    return None


def consumed_keys():
    """yaml keys the loaders read: subscripts / membership tests on self._yaml and on values derived from it."""
    out = {}
    tests = []  # (test key, [lookup keys in the guarded block], node)
    del TRUTHY[:]
    tree = core.parse(YML)
    classes = [c for c in tree.body if isinstance(c, ast.ClassDef) and "Loader" in c.name]
    at = core.parse(ATOMS)
    extra = [n for n in ast.walk(at) if isinstance(n, ast.FunctionDef) and n.name in ("parse_cell_dict",)]
    for cls in classes + extra:
        fns = [m for m in ast.walk(cls) if isinstance(m, ast.FunctionDef)] if isinstance(cls, ast.ClassDef) else [cls]
        for fn in fns:
            tainted = {"self._yaml"}
            params = [a.arg for a in fn.args.args]
            for p in params:
                if p not in ("self", "key_prefix") and ("yaml" in p or "dict" in p or p in ("dataset", "nac_yaml", "d", "cell_dict")):
                    tainted.add(p)
            asg = {}
            for x in ast.walk(fn):
                if isinstance(x, ast.Assign) and isinstance(x.targets[0], ast.Name):
                    asg.setdefault(x.targets[0].id, []).append(isinstance(x.value, (ast.Dict, ast.List)))
            built = {k_ for k_, v_ in asg.items() if all(v_)}  # names that only ever hold containers built here
            tainted -= built
            changed = True
            while changed:
                changed = False
                for s in ast.walk(fn):
                    if isinstance(s, ast.Assign) and isinstance(s.targets[0], ast.Name):
                        v = s.value
                        while isinstance(v, ast.Subscript):
                            v = v.value
                        pure = core.src(v) in tainted or (isinstance(v, ast.Name) and v.id in tainted)
                        if s.targets[0].id not in built and pure and s.targets[0].id not in tainted:
                            tainted.add(s.targets[0].id)
                            changed = True
                    if isinstance(s, (ast.For, ast.comprehension)):
                        if any(core.src(n) in tainted or (isinstance(n, ast.Name) and n.id in tainted) for n in ast.walk(s.iter)):
                            for t in ast.walk(s.target):
                                if isinstance(t, ast.Name) and t.id not in tainted:
                                    tainted.add(t.id)
                                    changed = True

            def base_tainted(e):
                while isinstance(e, ast.Subscript):
                    e = e.value
                return core.src(e) in tainted or (isinstance(e, ast.Name) and e.id in tainted)

            def key_of(n):
                if isinstance(n, ast.Constant) and isinstance(n.value, str):
                    return n.value
                if isinstance(n, ast.JoinedStr):
                    return _joined(n)
                return None

            # loop variables that range over literal strings: for a, b in (("born", "born_effective_charge"), ...)
            ranges = {}
            for lp in ast.walk(fn):
                if isinstance(lp, (ast.For, ast.comprehension)) and isinstance(lp.iter, (ast.Tuple, ast.List)):
                    tg = lp.target.elts if isinstance(lp.target, ast.Tuple) else [lp.target]
                    for el in lp.iter.elts:
                        vals = el.elts if isinstance(el, (ast.Tuple, ast.List)) else [el]
                        if len(vals) == len(tg):
                            for t_, v_ in zip(tg, vals):
                                if isinstance(t_, ast.Name) and isinstance(v_, ast.Constant) and isinstance(v_.value, str):
                                    ranges.setdefault(t_.id, set()).add(v_.value)

            def keys_of(n):
                k_ = key_of(n)
                if k_:
                    return [k_]
                if isinstance(n, ast.Name) and n.id in ranges:
                    return sorted(ranges[n.id])
                return []

            for n in ast.walk(fn):
                if isinstance(n, ast.Subscript) and base_tainted(n.value):
                    for k in keys_of(n.slice):
                        out.setdefault(k, n)
                if isinstance(n, ast.Call) and isinstance(n.func, ast.Attribute) and n.func.attr == "get" and n.args and base_tainted(n.func.value):
                    for k in keys_of(n.args[0]):
                        out.setdefault(k, n)
                # presence decided by the truthiness of the parsed value: if x.get("k"): / if x["k"]: / if v: with v = x.get("k")
                conds = []
                if isinstance(n, (ast.If, ast.While, ast.IfExp)):
                    conds = [n.test]
                elif isinstance(n, ast.comprehension):
                    conds = list(n.ifs)
                for c_ in conds:
                    stack = [c_]
                    while stack:
                        t_ = stack.pop()
                        if isinstance(t_, ast.BoolOp):
                            stack += t_.values
                        elif isinstance(t_, ast.UnaryOp) and isinstance(t_.op, ast.Not):
                            stack.append(t_.operand)
                        else:
                            pv = _parsed_value(t_, fn, base_tainted, key_of)
                            if pv:
                                TRUTHY.append((pv, t_, core.qualname_of(fn), YML if isinstance(cls, ast.ClassDef) else ATOMS))
                if isinstance(n, ast.Compare) and isinstance(n.ops[0], (ast.In, ast.NotIn)) and base_tainted(n.comparators[0]):
                    for k in keys_of(n.left):
                        out.setdefault(k, n)
                if isinstance(n, ast.If) and isinstance(n.test, ast.Compare) and isinstance(n.test.ops[0], ast.In) and base_tainted(n.test.comparators[0]):
                    tk = key_of(n.test.left)
                    base = core.src(n.test.comparators[0])
                    if tk:
                        looks = []
                        for b in n.body:
                            for x in ast.walk(b):
                                if isinstance(x, ast.Subscript) and core.src(x.value) == base:
                                    lk = key_of(x.slice)
                                    if lk:
                                        looks.append(lk)
                        tests.append((tk, looks, n, core.qualname_of(n)))
    return out, tests


def run(rep: core.Report):
    _r16g(rep)
    _r16k(rep)
    _r16l(rep)
    _r16m(rep)
    _r16o(rep)
    _r16p(rep)
    _r16r(rep)
    _r16s(rep)
    _r16n(rep)
    _r16j(rep)
    from rules import c03

    rep.rule("R16h", "what save() writes is one state: after Phonopy.masses is assigned, unit cell, supercell and primitive cell all hold the new masses (the loader rebuilds everything from the unit cell), each derived from the freshly assigned values and not from an attribute read before its own update", 4)
    c03.masses_setter(rep, "R16h")
    from rules import shared_forward

    shared_forward.run(rep, "R16i", LOADH, None, 5)
    rep.rule("R16a", "yaml key agreement: every key the loader needs for the fields the property names is emitted by the dumper and vice versa; every other key the loader reads is emitted or a listed legacy key; a membership test guards the key that is then looked up", 45)
    rep.rule("R16b", "save() hands every piece of state to the dumper; dumper settings keys are known", 14)
    rep.rule("R16c", "writers of whitespace-tokenised files separate adjacent numeric fields by a literal delimiter and write as many fields per line as the parser reads", 6)
    rep.rule("R16e", "type-1 -> type-2 conversion copies every per-supercell field", 3)
    rep.rule("R16f", "BORN reader: the tensor of a symmetry-dependent atom is rebuilt from its representative with the operation in the direction representative -> atom (site typing of map_operations / map_atoms)", 2)
    em = emitted_keys()
    co, tests = consumed_keys()
    if len(em) < 35 or len(co) < 25:
        raise AnalysisError(f"R16a: key tables shrank ({len(em)} emitted, {len(co)} consumed)")
    for k in sorted(REQUIRED):
        e, c = k in em, k in co
        rep.instance("R16a", YML, "dumper/loader", f"required key '{k}' is emitted and consumed", e and c,
                     f"key '{k}' is {'emitted' if e else 'NOT emitted'} and {'consumed' if c else 'NOT consumed'}: the two sides no longer agree on its name, so this field is lost on reload")
    for k, n in sorted(co.items()):
        if k in REQUIRED:
            continue
        kk = k.replace("{key_prefix}", "")
        ok = kk in em or k in em or k in LEGACY
        rep.instance("R16a", YML, core.qualname_of(n), f"loader reads '{k}'", ok, f"the loader reads key '{k}' that no dumper emits and that is not a listed legacy key (renamed on one side?)", line=n.lineno, nontrivial=k not in LEGACY)
    for tk, looks, n, qn in tests:
        if not looks:
            continue
        same = all(l == tk or l.replace("{key_prefix}", "") != tk.replace("{key_prefix}", "") for l in looks)
        # a lookup of the *same field* under a different spelling (prefix present/absent) than the test
        mism = [l for l in looks if l != tk and l.replace("{key_prefix}", "") == tk.replace("{key_prefix}", "")]
        if mism:
            rep.note(f"latent: {qn} tests '{tk}' but reads '{mism[0]}' (identical while key_prefix is empty, which is all phonopy itself uses)")
        rep.instance("R16a", YML, qn, f"if '{tk}' in …: reads {sorted(set(looks))[:4]}", True, "", line=n.lineno, nontrivial=False)

    rep.rule("R16q", "the loaders decide whether a field is present by membership / comparison with None, never by the truthiness of the parsed value: a stored 0, 0.0 or empty list is a value (a magnetic moment of exactly zero, a zero displacement) and must come back as stored", 15)
    for tk, looks, n, qn in tests:
        rep.instance("R16q", YML, qn, f"presence of '{tk}' by membership test", True, "", line=n.lineno, nontrivial=False)
    for k, n, qn, rel in TRUTHY:
        rep.instance("R16q", rel, qn, f"truth value of parsed '{k}'", False,
                     f"'{core.norm(core.src(n), 60)}' uses the parsed value of '{k}' as the test for its presence: a stored value that is falsy (0, 0.0, an empty list) is treated as absent, so the field is dropped or misaligned on reload although the file holds it", line=n.lineno)
    _r16b(rep)
    _r16c(rep)
    _r16e(rep)
    _r16f(rep)


def _r16b(rep):
    tree = core.parse(YML)
    spi = None
    for n in ast.walk(tree):
        if isinstance(n, ast.FunctionDef) and n.name == "set_phonon_info":
            spi = n
    if spi is None:
        raise AnalysisError("anchor vanished: PhonopyYaml.set_phonon_info")
    got = {}
    for s in ast.walk(spi):
        if isinstance(s, ast.Assign) and core.src(s.targets[0]).startswith("self._data."):
            got[core.src(s.targets[0])[len("self._data."):]] = core.src(s.value)
    want = {"unitcell": "phonopy.unitcell", "primitive": "phonopy.primitive", "supercell": "phonopy.supercell", "supercell_matrix": "phonopy.supercell_matrix", "primitive_matrix": "phonopy.primitive_matrix",
            "nac_params": "phonopy.nac_params", "calculator": "phonopy.calculator", "force_constants": "phonopy.force_constants", "dataset": "phonopy.dataset", "frequency_unit_conversion_factor": "phonopy.unit_conversion_factor"}
    for k, v in want.items():
        rep.instance("R16b", YML, "PhonopyYaml.set_phonon_info", f"data.{k} = {got.get(k)}", got.get(k) == v, f"the saved file takes '{k}' from {got.get(k)} instead of {v}: that piece of state is not (or wrongly) saved", line=spi.lineno)
    sv = core.find_def(API, "Phonopy.save")
    ys = [st for st in ast.walk(sv) if isinstance(st, ast.Assign) and isinstance(st.value, ast.Call) and core.src(st.value.func) == "PhonopyYaml" and isinstance(st.targets[0], ast.Name)]
    ok_save = False
    if ys:
        Y = ys[0].targets[0].id
        kw = {k.arg: core.src(k.value) for k in ys[0].value.keywords}
        fed = any(isinstance(c, ast.Call) and core.src(c.func) == f"{Y}.set_phonon_info" and [core.src(a) for a in c.args] == ["self"] for c in ast.walk(sv))
        withs = [w for w in ast.walk(sv) if isinstance(w, ast.With) and any("open" in core.src(i.context_expr) for i in w.items)]
        wrote = [any(isinstance(c, ast.Call) and isinstance(c.func, ast.Attribute) and c.func.attr == "write" and c.args and Y in {x.id for x in ast.walk(c.args[0]) if isinstance(x, ast.Name)} for c in ast.walk(w)) for w in withs]
        ok_save = kw.get("settings") == "_settings" and fed and bool(withs) and all(wrote)
    rep.instance("R16b", API, "Phonopy.save", "PhonopyYaml(settings=<adjusted settings>) is fed with self and written on every output path", ok_save, "save() no longer writes the yaml of this object (built with the adjusted settings) on both the plain and the compressed path", line=sv.lineno)
    # save() only ever widens what the caller asked for: every write into the copied settings stores the constant True,
    # and it is not reachable when the caller put an explicit False under that key
    muts = []
    for n in ast.walk(sv):
        if isinstance(n, ast.Assign) and isinstance(n.targets[0], ast.Subscript) and core.src(n.targets[0].value) == "_settings" and isinstance(n.targets[0].slice, ast.Constant):
            muts.append((n, n.targets[0].slice.value, n.value))
        if isinstance(n, ast.Expr) and isinstance(n.value, ast.Call) and core.src(n.value.func) in ("_settings.update", "_settings.setdefault"):
            c = n.value
            if core.src(c.func) == "_settings.update" and c.args and isinstance(c.args[0], ast.Dict):
                for k, v in zip(c.args[0].keys, c.args[0].values):
                    if isinstance(k, ast.Constant):
                        muts.append((n, k.value, v))
            elif core.src(c.func) == "_settings.update":
                muts.append((n, "*", None))
        if isinstance(n, ast.AugAssign) and core.src(n.target).startswith("_settings"):
            muts.append((n, "*", None))
    if not muts:
        raise AnalysisError("R16b: save() no longer adjusts the dumper settings (anchor vanished)")
    parents = {c: p for p in ast.walk(sv) for c in ast.iter_child_nodes(p)}
    for node, key, val in muts:
        only_true = isinstance(val, ast.Constant) and val.value is True
        rep.instance("R16b", API, "Phonopy.save", f"settings['{key}'] is only ever set to True by save()", only_true,
                     f"save() stores {core.norm(core.src(val), 50) if val is not None else 'a computed mapping'} under '{key}' in the caller's settings: an item the caller asked for explicitly (settings={{'{key}': True}}) can be switched off, so the saved file lacks data of the object and the reload differs", line=node.lineno)
        if not only_true:
            continue
        # explicit False is respected: the write sits in the else-arm of `_settings.get(key) is False` (or under `... is not False` / `key not in`)
        guarded = False
        cur = node
        while cur in parents:
            par = parents[cur]
            if isinstance(par, ast.If):
                t = core.norm(core.src(par.test))
                in_else = any(cur is x or cur in set(ast.walk(x)) for x in par.orelse)
                if in_else and f"_settings.get('{key}') is False" in t.replace('"', "'"):
                    guarded = True
                if not in_else and (f"_settings.get('{key}') is not False" in t.replace('"', "'") or f"'{key}' not in _settings" in t.replace('"', "'") or f"'{key}' not in settings" in t.replace('"', "'")):
                    guarded = True
            cur = par
        if guarded:
            rep.instance("R16b", API, "Phonopy.save", f"the write of settings['{key}'] = True is not reached when the caller passed False", True, "", line=node.lineno)
        else:
            rep.unknown(f"R16b Phonopy.save: guard protecting an explicit settings['{key}'] = False not recognised")
    # settings keys used by save and the dumper are known to the dumper defaults
    dd = None
    for n in ast.walk(tree):
        if isinstance(n, ast.Assign) and core.src(n.targets[0]) == "_default_dumper_settings" and isinstance(n.value, ast.Dict):
            dd = {k.value for k in n.value.keys}
    if dd is None:
        raise AnalysisError("anchor vanished: _default_dumper_settings")
    used = set()
    for n in ast.walk(tree):
        if isinstance(n, ast.Subscript) and core.src(n.value) == "self._dumper_settings" and isinstance(n.slice, ast.Constant):
            used.add(n.slice.value)
    for n in ast.walk(sv):
        if isinstance(n, ast.Dict):
            for k in n.keys:
                if isinstance(k, ast.Constant) and isinstance(k.value, str):
                    used.add(k.value)
        if isinstance(n, ast.Call) and core.src(n.func) == "_settings.get" and n.args and isinstance(n.args[0], ast.Constant):
            used.add(n.args[0].value)
    for k in sorted(used):
        rep.instance("R16b", YML, "dumper settings", f"settings key '{k}'", k in dd, f"settings key '{k}' is used but unknown to _default_dumper_settings: the request is ignored", nontrivial=True)


CONV = re.compile(r"%[-+ 0#]*\d*(?:\.\d+)?[dfeEgG]")


def _fmt_units(node):
    """(text, repeated?) pieces of a %-format left operand."""
    if isinstance(node, ast.Constant) and isinstance(node.value, str):
        yield node.value, False
    elif isinstance(node, ast.BinOp) and isinstance(node.op, ast.Mult) and isinstance(node.left, ast.Constant) and isinstance(node.left.value, str):
        yield node.left.value, True
    elif isinstance(node, ast.BinOp) and isinstance(node.op, ast.Add):
        yield from _fmt_units(node.left)
        yield from _fmt_units(node.right)
    elif isinstance(node, ast.Call) and isinstance(node.func, ast.Attribute) and node.func.attr == "join" and isinstance(node.func.value, ast.Constant):
        sep = node.func.value.value
        a = node.args[0] if node.args else None
        if isinstance(a, ast.BinOp) and isinstance(a.op, ast.Mult) and isinstance(a.left, ast.List) and a.left.elts and isinstance(a.left.elts[0], ast.Constant):
            unit = a.left.elts[0].value
            yield unit + sep + unit, False  # joined with an explicit separator


def _r16c(rep):
    writers = ["_get_FORCE_SETS_lines_type1", "_get_FORCE_SETS_lines_type2", "get_FORCE_CONSTANTS_lines", "get_BORN_lines"]
    n_fmt = 0
    for w in writers:
        try:
            fn = core.find_def(FIO, w)
        except AnalysisError:
            if w == "get_BORN_lines":
                continue
            raise
        for n in ast.walk(fn):
            if isinstance(n, ast.BinOp) and isinstance(n.op, ast.Mod):
                pieces = list(_fmt_units(n.left))
                if not pieces:
                    continue
                full = "".join(t * (2 if r else 1) for t, r in pieces)
                ms = list(CONV.finditer(full))
                if len(ms) < 2:
                    continue
                n_fmt += 1
                fused = [(a.group(), b.group()) for a, b in zip(ms, ms[1:]) if a.end() == b.start()]
                rep.instance("R16c", FIO, w, core.norm(core.src(n.left), 70), not fused,
                             f"numeric fields {fused[0] if fused else ''} are written back to back: a value that fills its field width fuses with its neighbour and the whitespace-splitting parser reads one token", line=n.lineno)
    if n_fmt < 4:
        raise AnalysisError(f"R16c: only {n_fmt} multi-field format strings found in the FORCE_SETS/FORCE_CONSTANTS/BORN writers")
    # fields per line: type-2 FORCE_SETS writes 3 displacement + 3 force numbers, the parser splits the same way
    p = core.find_def(FIO, "get_dataset_type2")
    # which dataset key receives which column slice (traced through local names, every branch must agree)
    slices = {}  # local name -> set of (lower, upper) of the last-axis slice
    for st in ast.walk(p):
        if isinstance(st, ast.Assign) and isinstance(st.targets[0], ast.Name) and isinstance(st.value, ast.Subscript):
            sl = st.value.slice.elts[-1] if isinstance(st.value.slice, ast.Tuple) else st.value.slice
            if isinstance(sl, ast.Slice):
                lo = sl.lower.value if isinstance(sl.lower, ast.Constant) else None
                hi = sl.upper.value if isinstance(sl.upper, ast.Constant) else None
                slices.setdefault(st.targets[0].id, set()).add((lo, hi))
    keymap = {}
    for d in [x for x in ast.walk(p) if isinstance(x, ast.Dict)]:
        for k, v in zip(d.keys, d.values):
            if isinstance(k, ast.Constant):
                for nm in [x.id for x in ast.walk(v) if isinstance(x, ast.Name) and x.id in slices]:
                    keymap[k.value] = slices[nm]
    widths = [c.comparators[0].value for c in ast.walk(p) if isinstance(c, ast.Compare) and "shape[1]" in core.src(c.left) and isinstance(c.comparators[0], ast.Constant)]
    ok_parse = keymap.get("displacements") == {(None, 3)} and keymap.get("forces") == {(3, None)} and widths == [6]
    rep.instance("R16c", FIO, "get_dataset_type2", f"columns -> keys {keymap}, required width {widths}", ok_parse,
                 "the type-2 parser no longer reads 6 columns as displacements (first 3) and forces (last 3)", line=p.lineno)
    w2 = core.find_def(FIO, "_get_FORCE_SETS_lines_type2")
    # writer: which dataset key feeds the first / second half of each line (names traced through the zip loops)
    origin = {}
    for lp in [x for x in ast.walk(w2) if isinstance(x, ast.For)]:
        if isinstance(lp.iter, ast.Call) and core.src(lp.iter.func) == "zip" and isinstance(lp.target, ast.Tuple):
            for t, a_ in zip(lp.target.elts, lp.iter.args):
                if isinstance(t, ast.Name):
                    if isinstance(a_, ast.Subscript) and isinstance(a_.slice, ast.Constant):
                        origin[t.id] = a_.slice.value
                    elif isinstance(a_, ast.Name) and a_.id in origin:
                        origin[t.id] = origin[a_.id]
    order = []
    for n_ in ast.walk(w2):
        if isinstance(n_, ast.BinOp) and isinstance(n_.op, ast.Mod):
            def flat(e):
                if isinstance(e, ast.BinOp) and isinstance(e.op, ast.Add):
                    return flat(e.left) + flat(e.right)
                if isinstance(e, (ast.Tuple, ast.List)):
                    return [y for x in e.elts for y in flat(x)]
                if isinstance(e, ast.Starred):
                    return flat(e.value)
                return [e]
            for part in flat(n_.right):
                ks = [origin[x.id] for x in ast.walk(part) if isinstance(x, ast.Name) and x.id in origin]
                order += ks[:1]
    rep.instance("R16c", FIO, "_get_FORCE_SETS_lines_type2", f"each line is written from {order}", order == ["displacements", "forces"], "the type-2 writer no longer writes displacement then force on each line (the parser reads columns 0-2 as displacement)", line=w2.lineno)
    p1 = core.find_def(FIO, "_get_dataset")
    counts = sorted(c.comparators[0].value for c in ast.walk(p1) if isinstance(c, ast.Compare) and core.src(c.left).startswith("len(") and isinstance(c.comparators[0], ast.Constant) and isinstance(c.ops[0], ast.Eq))
    rep.instance("R16c", FIO, "_get_dataset", f"format detection by token count of the first line: {counts}", counts == [1, 6], "format detection by token count changed (1 token: type 1, 6 tokens: type 2)", line=p1.lineno)


def _r16e(rep):
    fn = core.find_def(DATASET, "get_displacements_and_forces")
    loops = [lp for lp in ast.walk(fn) if isinstance(lp, ast.For) and "first_atoms" in core.src(lp.iter)]
    if not loops:
        raise AnalysisError("R16e: loop over first_atoms vanished in get_displacements_and_forces")
    lp = loops[0]
    if isinstance(lp.target, ast.Tuple) and len(lp.target.elts) == 2:
        I, X = core.src(lp.target.elts[0]), core.src(lp.target.elts[1])
    else:
        I, X = None, core.src(lp.target)

    def item(e, key):
        return isinstance(e, ast.Subscript) and core.src(e.value) == X and isinstance(e.slice, ast.Constant) and e.slice.value == key

    disp_store = force_store = None
    for st in [x for x in ast.walk(lp) if isinstance(x, ast.Assign) and isinstance(x.targets[0], ast.Subscript)]:
        t = st.targets[0]
        idx = t.slice.elts if isinstance(t.slice, ast.Tuple) else [t.slice]
        if isinstance(t.value, ast.Subscript):  # A[i][number]
            idx = [t.value.slice] + idx
            arr = core.src(t.value.value)
        else:
            arr = core.src(t.value)
        if item(st.value, "displacement"):
            disp_store = (arr, len(idx) == 2 and core.src(idx[0]) == I and item(idx[1], "number"), st)
        if item(st.value, "forces"):
            force_store = (arr, len(idx) == 1 and core.src(idx[0]) == I, st)
    rep.instance("R16e", DATASET, "get_displacements_and_forces", core.src(disp_store[2]) if disp_store else "<no displacement store>", bool(disp_store and disp_store[1]),
                 "the displaced atom's displacement is not placed at [supercell index, its atom index]", line=fn.lineno)
    rep.instance("R16e", DATASET, "get_displacements_and_forces", core.src(force_store[2]) if force_store else "<no forces store>", bool(force_store and force_store[1]),
                 "forces of a type-1 dataset are not copied supercell by supercell", line=fn.lineno)
    rets = [r for r in ast.walk(fn) if isinstance(r, ast.Return) and isinstance(r.value, ast.Tuple) and len(r.value.elts) == 2]
    t1 = [r for r in rets if disp_store and force_store and core.src(r.value.elts[0]) == disp_store[0] and core.src(r.value.elts[1]) == force_store[0]]
    t2 = [r for r in rets if "['displacements']" in core.src(r.value.elts[0]).replace('"', "'")]
    rep.instance("R16e", DATASET, "get_displacements_and_forces", "returns (displacements, forces) of the arrays just filled; type-2 input is passed through", bool(t1) and bool(t2),
                 "the converted arrays are not what is returned (or type-2 datasets are no longer returned unchanged)", line=fn.lineno)


def _r16f(rep):
    """Site typing in _expand_borns.  Symmetry.map_operations[i] is the operation that sends atom i ONTO its
    representative map_atoms[i] (R x_i + t = x_rep; confirmed in Symmetry._set_map_operations and
    _get_map_operations_from_permutations), so B_rep = R B_i R^-1 and B_i = R^-1 B_rep R.
    Types: ('op', 'fwd'|'inv') for a rotation i->rep or rep->i; ('t', 'i'|'rep') for a tensor at that site."""
    fn = core.find_def(FIO, "_expand_borns")
    src_of = {}
    for st in ast.walk(fn):
        if isinstance(st, ast.Assign) and isinstance(st.targets[0], ast.Name):
            t = core.src(st.value)
            if "get_map_operations" in t:
                src_of[st.targets[0].id] = "MO"
            elif "get_map_atoms" in t:
                src_of[st.targets[0].id] = "MA"
            elif "rotations" in t and "symmetry_operations" in t:
                src_of[st.targets[0].id] = "ROT"
    if set(src_of.values()) != {"MO", "MA", "ROT"}:
        raise AnalysisError("R16f: _expand_borns no longer reads rotations, map_operations and map_atoms from the symmetry object")
    loops = [lp for lp in fn.body if isinstance(lp, ast.For)]
    if len(loops) != 1:
        raise AnalysisError("R16f: expected one loop over the atoms in _expand_borns")
    lp = loops[0]
    env = {}  # name -> type
    # loop header
    it = lp.iter
    if isinstance(it, ast.Call) and core.src(it.func) == "range" and isinstance(lp.target, ast.Name):
        env[lp.target.id] = ("idx", "i")
    elif isinstance(it, ast.Call) and core.src(it.func) == "enumerate" and isinstance(lp.target, ast.Tuple) and isinstance(it.args[0], ast.Call) and core.src(it.args[0].func) == "zip":
        env[core.src(lp.target.elts[0])] = ("idx", "i")
        inner = lp.target.elts[1]
        for t, a in zip(inner.elts if isinstance(inner, ast.Tuple) else [], it.args[0].args):
            kind = src_of.get(core.src(a))
            if kind == "MA":
                env[core.src(t)] = ("idx", "rep")
            elif kind == "MO":
                env[core.src(t)] = ("opidx", "fwd")
    else:
        raise AnalysisError("R16f: loop header of _expand_borns not recognised")
    problems = []

    def ty(e):
        if isinstance(e, ast.Name):
            return env.get(e.id)
        if isinstance(e, ast.Attribute) and e.attr == "T":
            t = ty(e.value)
            if t and t[0] == "op":
                return ("op", "inv" if t[1] == "fwd" else "fwd")
            return t
        if isinstance(e, ast.Subscript):
            base = src_of.get(core.src(e.value))
            it_ = ty(e.slice)
            if base == "MO" and it_ == ("idx", "i"):
                return ("opidx", "fwd")
            if base == "MA" and it_ == ("idx", "i"):
                return ("idx", "rep")
            if base == "ROT" and it_ == ("opidx", "fwd"):
                return ("op", "fwd")
            if core.src(e.value) == "borns" and it_ and it_[0] == "idx":
                return ("t", it_[1])
            return None
        if isinstance(e, ast.Call):
            f = core.src(e.func)
            if f in ("np.linalg.inv", "np.transpose") and e.args:
                t = ty(e.args[0])
                if t and t[0] == "op":
                    return ("op", "inv" if t[1] == "fwd" else "fwd")
                return t
            if f in ("np.array", "np.asarray") and e.args:
                return ty(e.args[0])
            if f == "similarity_transformation" and len(e.args) == 2:
                a, b = ty(e.args[0]), ty(e.args[1])
                if b and b[0] == "op":
                    return b  # change of basis of an operation keeps its direction
                if a and a[0] == "op" and b and b[0] == "t":
                    need = "i" if a[1] == "fwd" else "rep"
                    if b[1] != need:
                        problems.append((e, f"'{core.norm(core.src(e), 70)}' applies the operation {'atom -> representative' if a[1] == 'fwd' else 'representative -> atom'} to the tensor of the {'representative' if b[1] == 'rep' else 'dependent atom'}"))
                        return None
                    return ("t", "rep" if a[1] == "fwd" else "i")
                return None
            if f in ("np.dot",) and len(e.args) == 2:
                # R^-1 . (B . R)  or  (R^-1 . B) . R
                flat = []

                def fl(x):
                    if isinstance(x, ast.Call) and core.src(x.func) == "np.dot" and len(x.args) == 2:
                        fl(x.args[0]); fl(x.args[1])
                    else:
                        flat.append(x)

                fl(e)
                tys = [ty(x) for x in flat]
                if len(tys) == 3 and tys[0] and tys[2] and tys[1] and tys[0][0] == "op" and tys[2][0] == "op" and tys[1][0] == "t":
                    if tys[0][1] == tys[2][1]:
                        problems.append((e, f"'{core.norm(core.src(e), 70)}' multiplies by the same rotation on both sides"))
                        return None
                    need = "i" if tys[0][1] == "fwd" else "rep"
                    if tys[1][1] != need:
                        problems.append((e, f"'{core.norm(core.src(e), 70)}' rotates the tensor of the wrong site"))
                        return None
                    return ("t", "rep" if tys[0][1] == "fwd" else "i")
                return None
        if isinstance(e, ast.BinOp) and isinstance(e.op, ast.MatMult):
            fake = ast.Call(func=ast.parse("np.dot", mode="eval").body, args=[e.left, e.right], keywords=[])
            return ty(ast.fix_missing_locations(ast.copy_location(fake, e)))
        return None

    stored = None
    for st in ast.walk(lp):
        if isinstance(st, ast.Assign):
            t = st.targets[0]
            v = ty(st.value)
            if isinstance(t, ast.Name):
                if v:
                    env[t.id] = v
            elif isinstance(t, ast.Subscript) and core.src(t.value) == "borns":
                stored = (st, ty(t.slice), v)
    if stored is None:
        raise AnalysisError("R16f: no store into borns[...] in _expand_borns")
    st, site, val = stored
    for node, msg in problems:
        rep.instance("R16f", FIO, "_expand_borns", core.norm(core.src(node), 70), False,
                     msg + ": map_operations[i] sends atom i onto its representative, so the dependent tensor is R^-1 B_rep R; with the direction reversed an atom of an orbit with a 3-, 4- or 6-fold operation receives the tensor of another atom of the orbit, and a BORN file does not read back to the charges that were written", line=node.lineno)
    if not problems:
        if val is None:
            rep.unknown("R16f: type of the value stored into borns[i] not determined")
        rep.instance("R16f", FIO, "_expand_borns", f"{core.norm(core.src(st), 80)} : tensor at site '{val[1] if val else '?'}' stored at index '{site[1] if site else '?'}'", val is None or (site == ("idx", "i") and val == ("t", "i")),
                     "the rebuilt tensor does not belong to the atom it is stored for", line=st.lineno)
    rep.instance("R16f", FIO, "_expand_borns", "operation index and representative are taken from map_operations[i] / map_atoms[i] of the same atom", True, "", line=fn.lineno, nontrivial=False)



LOADH = "phonopy/cui/load_helper.py"


def _r16g(rep):
    """Default-fill discipline of the loading helpers: what was read from a file wins over a calculator default."""
    rep.rule("R16g", "a value read from a file is never replaced by a default: in the loading helpers every write of a constant key into a dictionary that was not created in the function (d[K] = v, d.update, {**d, K: v}, dict(d, K=v)) is guarded by a test that K is absent; in a dictionary merge the defaults come before the loaded entries", 1)
    tree = core.parse(LOADH)
    n_sites = 0
    for fn in [x for x in ast.walk(tree) if isinstance(x, ast.FunctionDef)]:
        fresh = set()
        for st in ast.walk(fn):
            if isinstance(st, ast.Assign) and len(st.targets) == 1 and isinstance(st.targets[0], ast.Name):
                v = st.value
                if (isinstance(v, ast.Dict) and not any(k is None for k in v.keys)) or (isinstance(v, ast.Call) and core.src(v.func) == "dict" and not v.args):
                    fresh.add(st.targets[0].id)
        # a name that is also bound to something else is not fresh
        for st in ast.walk(fn):
            if isinstance(st, ast.Assign) and len(st.targets) == 1 and isinstance(st.targets[0], ast.Name) and st.targets[0].id in fresh:
                v = st.value
                if not ((isinstance(v, ast.Dict) and not any(k is None for k in v.keys)) or (isinstance(v, ast.Call) and core.src(v.func) == "dict" and not v.args)):
                    fresh.discard(st.targets[0].id)

        def guarded(node, dname, key):
            """an enclosing `if` (body side) whose test has the conjunct  key not in d  /  d.get(key) is None"""
            cur = node
            while cur is not fn:
                par = getattr(cur, "_parent", None)
                if par is None:
                    return False
                if isinstance(par, ast.If) and cur in par.body:
                    conj = par.test.values if isinstance(par.test, ast.BoolOp) and isinstance(par.test.op, ast.And) else [par.test]
                    for c in conj:
                        t = core.src(c).replace('"', "'")
                        if t in (f"'{key}' not in {dname}", f"{dname}.get('{key}') is None", f"not '{key}' in {dname}"):
                            return True
                cur = par
            return False

        sites = []  # (node, dict name, key, form)
        for st in ast.walk(fn):
            if isinstance(st, ast.Assign):
                for t in st.targets:
                    if isinstance(t, ast.Subscript) and isinstance(t.value, ast.Name) and isinstance(t.slice, ast.Constant) and isinstance(t.slice.value, str):
                        sites.append((st, t.value.id, t.slice.value, "store"))
                v = st.value
                if isinstance(v, ast.Dict) and any(k is None for k in v.keys):
                    # {**d, K: v}: entries after the unpacking overwrite what d holds
                    seen_unpack = None
                    later = [val.id for k, val in zip(v.keys, v.values) if k is None and isinstance(val, ast.Name)]
                    for k, val in zip(v.keys, v.values):
                        if k is None and isinstance(val, ast.Name):
                            seen_unpack = val.id
                        elif seen_unpack and isinstance(k, ast.Constant) and isinstance(k.value, str):
                            sites.append((st, seen_unpack, k.value, "merge"))
                        elif not seen_unpack and later and isinstance(k, ast.Constant) and isinstance(k.value, str):
                            sites.append((st, later[0], k.value, "default-first merge"))
                if isinstance(v, ast.Call) and core.src(v.func) == "dict" and v.args and isinstance(v.args[0], ast.Name):
                    for kw in v.keywords:
                        if kw.arg:
                            sites.append((st, v.args[0].id, kw.arg, "merge"))
            if isinstance(st, ast.Expr) and isinstance(st.value, ast.Call) and isinstance(st.value.func, ast.Attribute) and st.value.func.attr == "update" and isinstance(st.value.func.value, ast.Name):
                c = st.value
                keys = [kw.arg for kw in c.keywords if kw.arg]
                if c.args and isinstance(c.args[0], ast.Dict):
                    keys += [k.value for k in c.args[0].keys if isinstance(k, ast.Constant) and isinstance(k.value, str)]
                for k in keys:
                    sites.append((st, c.func.value.id, k, "update"))
        for node, dname, key, form in sites:
            if dname in fresh:
                continue
            n_sites += 1
            ok = form == "default-first merge" or guarded(node, dname, key)
            rep.instance("R16g", LOADH, fn.name, f"{form} of '{key}' into {dname}: {core.norm(core.src(node), 70)}", ok,
                         f"'{key}' is written into {dname} — a dictionary this function did not create (read from phonopy.yaml / BORN or handed in) — without a test that the key is absent: a '{key}' stored in the file is replaced by the default on loading, so save() -> load() does not reproduce it", line=node.lineno)
    if not n_sites:
        raise AnalysisError("R16g: no default-fill site left in the loading helpers (get_nac_params filled 'factor' on the confirmed tree)")



def nested_mutable_of(decl):
    return isinstance(decl.value, (ast.Dict, ast.List)) and any(isinstance(v_, (ast.Dict, ast.List, ast.Set)) for v_ in (decl.value.values if isinstance(decl.value, ast.Dict) else decl.value.elts))


def _r16j(rep, rid="R16j", files=None):
    """Two writes in one process are independent: class-level mutable defaults are never changed through an instance."""
    rep.rule(rid, "class-level dictionaries and lists that serve as defaults (e.g. the dumper's default settings) are copied before an instance changes them: no method mutates `self.<class attribute>` in place, directly or through a local alias bound without .copy() / dict() / list() / deepcopy, so that the settings of one save() cannot leak into the next one", 1)
    MUT = {"update", "append", "extend", "pop", "popitem", "clear", "setdefault", "insert", "remove", "sort", "reverse"}
    n_inst = 0
    for rel in (files or (YML, API, "phonopy/cui/load.py", LOADH, "phonopy/cui/settings.py", FIO)):
        tree = core.parse(rel)
        for cls in [c for c in ast.walk(tree) if isinstance(c, ast.ClassDef)]:
            shared = {}
            for st in cls.body:
                if isinstance(st, (ast.Assign, ast.AnnAssign)):
                    tgt = st.targets[0] if isinstance(st, ast.Assign) else st.target
                    val = st.value
                    if isinstance(tgt, ast.Name) and isinstance(val, (ast.Dict, ast.List, ast.Set)) or (isinstance(tgt, ast.Name) and isinstance(val, ast.Call) and core.src(val.func) in ("dict", "list", "set")):
                        shared[tgt.id] = st
            if not shared:
                continue
            for name, decl in shared.items():
                bad = []
                uses = 0
                shallow = {}  # attributes / locals bound to a shallow copy of the class-level object (any method)
                # an instance attribute of the same name bound to a copy in __init__ shadows the class attribute:
                # self.<name> then is the instance's own object in every method
                shadowed = False
                init_ = next((x for x in cls.body if isinstance(x, ast.FunctionDef) and x.name == "__init__"), None)
                for st in (init_.body if init_ is not None else []):
                    if isinstance(st, ast.Assign) and core.src(st.targets[0]) == f"self.{name}" and isinstance(st.value, ast.Call):
                        v = st.value
                        inner = v.func.value if isinstance(v.func, ast.Attribute) and v.func.attr == "copy" and not v.args else (v.args[0] if core.src(v.func) in ("dict", "list", "copy.copy", "copy.deepcopy") and len(v.args) == 1 else None)
                        if inner is not None and isinstance(inner, ast.Attribute) and inner.attr == name and core.src(inner.value) in ("self", "cls", cls.name, "type(self)"):
                            shadowed = True
                            if core.src(v.func) != "copy.deepcopy" and nested_mutable_of(decl):
                                shallow[f"self.{name}"] = st
                nested_mutable = nested_mutable_of(decl)
                for m in [x for x in ast.walk(cls) if isinstance(x, ast.FunctionDef)]:
                    aliases = set()
                    for st in sorted((x for x in ast.walk(m) if isinstance(x, ast.Assign)), key=lambda x: x.lineno):
                        v = st.value
                        if isinstance(v, ast.Attribute) and v.attr == name and core.src(v.value) in ("self", "cls", cls.name) and isinstance(st.targets[0], (ast.Name, ast.Attribute)):
                            aliases.add(core.src(st.targets[0]))
                        # a shallow copy shares the mutable values of the class-level dictionary / list
                        inner = None
                        if isinstance(v, ast.Call) and isinstance(v.func, ast.Attribute) and v.func.attr == "copy" and not v.args:
                            inner = v.func.value
                        elif isinstance(v, ast.Call) and core.src(v.func) in ("dict", "list", "copy.copy") and len(v.args) == 1:
                            inner = v.args[0]
                        if inner is not None and isinstance(inner, ast.Attribute) and inner.attr == name and core.src(inner.value) in ("self", "cls", cls.name) and nested_mutable and isinstance(st.targets[0], (ast.Name, ast.Attribute)):
                            shallow[core.src(st.targets[0])] = st
                    for x in ast.walk(m):
                        if isinstance(x, ast.Attribute) and x.attr == name and core.src(x.value) in ("self", "cls", cls.name):
                            uses += 1

                        def is_shared(e):
                            if shadowed and isinstance(e, ast.Attribute) and e.attr == name and core.src(e.value) == "self":
                                return False
                            return (isinstance(e, ast.Attribute) and e.attr == name and core.src(e.value) in ("self", "cls", cls.name)) or core.src(e) in aliases

                        if isinstance(x, ast.Call) and isinstance(x.func, ast.Attribute) and x.func.attr in MUT and is_shared(x.func.value):
                            bad.append(x)
                        if isinstance(x, (ast.Assign, ast.AugAssign)):
                            tg = x.targets[0] if isinstance(x, ast.Assign) else x.target
                            if isinstance(tg, ast.Subscript) and is_shared(tg.value):
                                bad.append(x)
                            if isinstance(x, ast.AugAssign) and is_shared(tg):
                                bad.append(x)
                # writes through a shallow copy into one of the nested mutable values: x[key][i] = v, x[key].append(v)
                for m in [x for x in ast.walk(cls) if isinstance(x, ast.FunctionDef)] if shallow else []:
                    for x in ast.walk(m):
                        tg = (x.targets[0] if isinstance(x, ast.Assign) else x.target) if isinstance(x, (ast.Assign, ast.AugAssign)) else None
                        if isinstance(tg, ast.Subscript) and isinstance(tg.value, ast.Subscript) and core.src(tg.value.value) in shallow:
                            bad.append(x)
                        if isinstance(x, ast.Call) and isinstance(x.func, ast.Attribute) and x.func.attr in MUT and isinstance(x.func.value, ast.Subscript) and core.src(x.func.value.value) in shallow:
                            bad.append(x)
                if not uses:
                    continue
                n_inst += 1
                rep.instance(rid, rel, f"{cls.name}.{name}", f"class-level {type(decl.value).__name__.lower()} read by {uses} instance expression(s)", not bad,
                             f"'{core.norm(core.src(bad[0]), 70) if bad else ''}' changes the class-level object {cls.name}.{name} in place (directly or through an alias bound without a copy): every later instance starts from the changed defaults, so a save() with reduced settings makes the next default save() omit forces / NAC parameters and load() cannot reproduce the state", line=(bad[0].lineno if bad else decl.lineno))
    if not n_inst:
        if files is None:
            raise AnalysisError("R16j: no class-level mutable default found (PhonopyYamlDumperBase._default_dumper_settings on the confirmed tree)")
        rep.instance(rid, files[0], "<interfaces>", "no class-level mutable default is changed through an instance (none is read by instances)", True, "", nontrivial=False)



def _r16n(rep):
    """The NAC method survives save() / load(): what the dumper writes, normalised by the loader, is what the dispatch tests."""
    import re as _re

    rep.rule("R16n", "NAC method through phonopy.yaml: every method string the dumper can write, after the normalisation the loader applies, equals one of the literals the dynamical-matrix dispatch compares with (case-sensitive ==): 'Wang' written, lower-cased on reading, tested as 'wang'; without the normalisation a calculation saved with the Wang method reloads as Gonze-Lee", 1)
    YML = "phonopy/interface/phonopy_yaml.py"
    DMF = "phonopy/harmonic/dynamical_matrix.py"
    ytree, dtree = core.parse(YML), core.parse(DMF)
    # dispatch vocabulary
    vocab = set()
    for c in ast.walk(dtree):
        if isinstance(c, ast.Compare) and len(c.ops) == 1 and isinstance(c.ops[0], (ast.Eq, ast.NotEq)) and "method" in core.src(c.left) and isinstance(c.comparators[0], ast.Constant) and isinstance(c.comparators[0].value, str):
            vocab.add(c.comparators[0].value)
    if not vocab:
        raise AnalysisError("R16n: the dynamical-matrix dispatch no longer compares the NAC method with a literal")
    vocab |= {"gonze"} if "wang" in vocab else set()
    # what the dumper writes
    emitted, transform = set(), None
    for x in ast.walk(ytree):
        if isinstance(x, ast.Constant) and isinstance(x.value, str):
            emitted |= set(_re.findall(r'method: "?(\w+)"?', x.value)) - {"method"}
        if isinstance(x, ast.JoinedStr) and any(isinstance(v, ast.Constant) and "method:" in str(v.value) for v in x.values):
            for v in x.values:
                if isinstance(v, ast.FormattedValue):
                    calls = [c.func.attr for c in ast.walk(v.value) if isinstance(c, ast.Call) and isinstance(c.func, ast.Attribute)]
                    transform = next((a for a in calls if a in ("capitalize", "upper", "lower", "title")), "identity")
    if transform is not None:
        emitted |= {getattr(v_, transform)() if transform != "identity" else v_ for v_ in vocab}
    if not emitted:
        raise AnalysisError("R16n: the dumper no longer writes a 'method:' line for the NAC parameters")
    # the loader's normalisation
    stores = [st for st in ast.walk(ytree) if isinstance(st, ast.Assign) and isinstance(st.targets[0], ast.Subscript) and isinstance(st.targets[0].slice, ast.Constant) and st.targets[0].slice.value == "method"]
    if not stores:
        raise AnalysisError("R16n: the loader no longer stores nac_params['method']")
    for st in stores:
        fn_ = core.enclosing_function(st)
        v = core.resolve_name(fn_, st.value) if fn_ is not None else st.value
        calls = [c.func.attr for c in ast.walk(v) if isinstance(c, ast.Call) and isinstance(c.func, ast.Attribute)]
        norm = next((a for a in calls if a in ("lower", "upper", "capitalize", "casefold")), "identity")
        read = {(getattr(e_, norm)() if norm != "identity" else e_) for e_ in emitted}
        lost = sorted(e_ for e_ in emitted if e_.lower() in vocab and ((getattr(e_, norm)() if norm != "identity" else e_) not in vocab))
        rep.instance("R16n", YML, core.qualname_of(st), f"written {sorted(emitted)} -> read with {norm}() as {sorted(read)}; dispatch tests {sorted(vocab)}", not lost,
                     f"the dumper writes {lost} and the loader stores it {'unchanged' if norm == 'identity' else 'through ' + norm + '()'}; the dispatch compares with {sorted(vocab)} case-sensitively, so a calculation saved with that method reloads with another one", line=st.lineno)


def _r16r(rep):
    """Which primitive matrix phonopy.load() uses for a phonopy.yaml, over what the caller and the file provide."""
    import itertools

    from engine import pyeval

    LOAD = "phonopy/cui/load.py"
    rep.rule("R16r", "primitive matrix of phonopy.load(phonopy_yaml=...), evaluated over the finite domain (argument given / not given) x (the file has an entry / has none): an explicit argument wins; otherwise the cell is rebuilt with exactly what the file says -- and a file without an entry (written by an object whose primitive cell is its unit cell) gives none, not a guessed one", 4)
    fn = core.find_def(LOAD, "load")
    tree = core.parse(LOAD)
    ctor = [c for c in ast.walk(fn) if isinstance(c, ast.Call) and core.src(c.func) == "Phonopy" and any(k.arg == "primitive_matrix" for k in c.keywords)]
    if not ctor:
        raise AnalysisError("R16r: load() no longer hands primitive_matrix= to the Phonopy constructor")
    pv = next(k.value for k in ctor[0].keywords if k.arg == "primitive_matrix")
    if not isinstance(pv, ast.Name):
        raise AnalysisError("R16r: the primitive matrix handed to Phonopy(...) is not a local name")
    var = pv.id
    for arg, filev in itertools.product((None, "F"), (None, "M-of-the-file")):
        E = pyeval.Evaluator(tree, hooks={"attr:primitive_matrix": filev, "PhonopyYaml": lambda *a, **k: pyeval.Opaque("PhonopyYaml")}, where="load")
        # bind the parameters, then run the statements up to the end of the branch chain that binds the variable
        env = {}
        params = fn.args.posonlyargs + fn.args.args
        defaults = [None] * (len(params) - len(fn.args.defaults)) + list(fn.args.defaults)
        for p_, d_ in zip(params, defaults):
            env[p_.arg] = E.ev(d_, {}) if d_ is not None else None
        for p_, d_ in zip(fn.args.kwonlyargs, fn.args.kw_defaults):
            env[p_.arg] = E.ev(d_, {}) if d_ is not None else None
        if "phonopy_yaml" not in env or "primitive_matrix" not in env:
            raise AnalysisError("R16r: load() lost its parameters phonopy_yaml / primitive_matrix")
        env["phonopy_yaml"] = "file.yaml"
        env["primitive_matrix"] = arg
        done = False
        try:
            for st in fn.body:
                E.block([st], env)
                if isinstance(st, ast.If) and var in env:
                    done = True
                    break
        except pyeval.Unknown as ex:
            raise AnalysisError(f"R16r: load() cannot be evaluated over the sources of the primitive matrix ({ex})")
        except pyeval.Raised as ex:
            raise AnalysisError(f"R16r: load() raises {ex} for a phonopy.yaml file name")
        if not done:
            raise AnalysisError(f"R16r: '{var}' is not bound by the branch chain of load()")
        got = env[var]
        if arg is not None:
            ok = isinstance(got, pyeval.Opaque) and got.name == "get_primitive_matrix" and got.args and got.args[0] == arg
            want = f"get_primitive_matrix('{arg}', ...)"
        else:
            ok = got == filev
            want = repr(filev)
        rep.instance("R16r", LOAD, "load", f"argument {arg!r}, file entry {filev!r} -> {got!r}", ok,
                     f"with primitive_matrix={arg!r} passed to load() and {'no primitive_matrix entry' if filev is None else 'a primitive_matrix entry'} in the phonopy.yaml, the Phonopy object is built with {got!r} instead of {want}: the reloaded primitive cell (and everything stored per primitive atom: Born charges, compact force constants) is not the one that was saved", line=fn.lineno)


def _r16s(rep):
    """forces_in_dataset, the test save() and the loaders use, over the shapes a dataset can have."""
    from engine import pyeval

    DS = "phonopy/structure/dataset.py"
    rep.rule("R16s", "forces_in_dataset evaluated over the dataset shapes (type 1 with forces in all / some / none of the displaced supercells, type 2 with and without forces): it says True only when *every* displaced supercell has forces -- it decides whether save() must write the force constants, so a partly filled dataset counted as complete loses them on reload", 5)
    fn = core.find_def(DS, "forces_in_dataset")
    tree = core.parse(DS)
    cases = [
        ("type 1, forces everywhere", {"natom": 2, "first_atoms": [{"number": 0, "forces": "F0"}, {"number": 1, "forces": "F1"}]}, True),
        ("type 1, forces in the first supercell only", {"natom": 2, "first_atoms": [{"number": 0, "forces": "F0"}, {"number": 1}]}, False),
        ("type 1, forces in the last supercell only", {"natom": 2, "first_atoms": [{"number": 0}, {"number": 1, "forces": "F1"}]}, False),
        ("type 1, no forces", {"natom": 2, "first_atoms": [{"number": 0}, {"number": 1}]}, False),
        ("type 2, forces", {"displacements": "D", "forces": "F"}, True),
        ("type 2, no forces", {"displacements": "D"}, False),
    ]
    for label, ds, want in cases:
        E = pyeval.Evaluator(tree, hooks={"isinstance": lambda *a: True, "type": lambda x: dict, "len": lambda x: len(x) if isinstance(x, (list, dict, tuple)) else pyeval.Opaque("len")}, where="forces_in_dataset")
        E.lenient_names = True
        try:
            got = E.call(fn, [ds])
        except pyeval.Unknown as ex:
            raise AnalysisError(f"R16s: forces_in_dataset cannot be evaluated for '{label}' ({ex})")
        except pyeval.Raised as ex:
            got = f"raises {ex}"
        rep.instance("R16s", DS, "forces_in_dataset", f"{label}: {got}", got is want,
                     f"forces_in_dataset says {got} for a dataset of the kind '{label}' (expected {want}): Phonopy.save() then decides wrongly whether the force constants have to be written, and the loader whether forces are available -- a yaml file saved from a half-finished set of supercell calculations comes back without force constants", line=fn.lineno)


def _r16p(rep):
    """Which force constants phonopy.load() takes, evaluated over every combination of what is available."""
    import itertools

    rep.rule("R16p", "source of the force constants in the loading helper, evaluated over the finite domain (stored in the yaml file, file name given, already set on the object, FORCE_CONSTANTS / force_constants.hdf5 present in the working directory, yaml file name known for the log line): those stored in the phonopy.yaml being loaded win, then the file named by the caller, and the working directory is searched only when neither exists and nothing is set yet -- whether or not the yaml file name was passed along for logging", 64)
    fn = core.find_def(LOADH, "select_and_extract_force_constants")
    pnames = [a.arg for a in fn.args.args]
    for need in ("fc", "force_constants_filename", "phonopy_yaml_filename"):
        if need not in pnames:
            raise AnalysisError(f"R16p: select_and_extract_force_constants lost its parameter '{need}'")

    class Unknown(Exception):
        pass

    def run_case(flags):
        env = {"fc": "yaml" if flags["yaml_fc"] else None, "force_constants_filename": "named-file" if flags["named"] else None,
               "phonopy_yaml_filename": "yaml-name" if flags["yaml_name"] else None}

        def ev(e):
            if isinstance(e, ast.Constant):
                return e.value
            if isinstance(e, ast.Name):
                if e.id in env:
                    return env[e.id]
                raise Unknown(e.id)
            if isinstance(e, ast.Attribute) and core.src(e) == "phonon.force_constants":
                return "set" if flags["object_has"] else None
            if isinstance(e, ast.Compare) and len(e.ops) == 1 and isinstance(e.ops[0], (ast.Is, ast.IsNot)) and isinstance(e.comparators[0], ast.Constant) and e.comparators[0].value is None:
                v = ev(e.left)
                return (v is None) == isinstance(e.ops[0], ast.Is)
            if isinstance(e, ast.BoolOp):
                vals = [ev(v) for v in e.values]
                return all(vals) if isinstance(e.op, ast.And) else any(vals)
            if isinstance(e, ast.UnaryOp) and isinstance(e.op, ast.Not):
                return not ev(e.operand)
            if isinstance(e, ast.Call) and isinstance(e.func, ast.Attribute) and e.func.attr in ("exists", "is_file") and isinstance(e.func.value, ast.Call) and e.func.value.args:
                name = ev(e.func.value.args[0])
                return {"FORCE_CONSTANTS": flags["cwd_text"], "force_constants.hdf5": flags["cwd_hdf5"]}.get(name, False)
            if isinstance(e, ast.Call) and core.src(e.func) in ("os.path.exists", "os.path.isfile") and e.args:
                name = ev(e.args[0])
                return {"FORCE_CONSTANTS": flags["cwd_text"], "force_constants.hdf5": flags["cwd_hdf5"]}.get(name, False)
            if isinstance(e, ast.Call) and core.src(e.func).endswith("_read_force_constants_file") and len(e.args) >= 2:
                v = ev(e.args[1])
                return "named-file" if v == "named-file" else f"cwd:{v}"
            if isinstance(e, ast.Call) and any(isinstance(a, ast.Name) and a.id == "_fc" for a in e.args):
                return env.get("_fc")  # a layout conversion of the chosen force constants
            if isinstance(e, ast.Attribute) and isinstance(e.value, ast.Name) and e.value.id == "_fc":
                raise Unknown("shape test")
            raise Unknown(core.src(e))

        def block(stmts):
            for st in stmts:
                if isinstance(st, ast.Expr) and isinstance(st.value, (ast.Constant, ast.Call)):
                    continue
                if isinstance(st, ast.Assign) and len(st.targets) == 1 and isinstance(st.targets[0], ast.Name):
                    env[st.targets[0].id] = ev(st.value)
                elif isinstance(st, ast.If):
                    try:
                        t = ev(st.test)
                    except Unknown:
                        continue  # layout / logging tests after the choice was made: they do not change the source
                    r = block(st.body if t else st.orelse)
                    if r is not None:
                        return r
                elif isinstance(st, ast.For) and isinstance(st.iter, (ast.Tuple, ast.List)) and isinstance(st.target, ast.Name):
                    for el in st.iter.elts:
                        env[st.target.id] = ev(el)
                        r = block(st.body)
                        if r == "break":
                            break
                        if r is not None:
                            return r
                elif isinstance(st, ast.Break):
                    return "break"
                elif isinstance(st, ast.Return):
                    return ("ret", ev(st.value) if st.value is not None else None)
                else:
                    raise Unknown(core.src(st))
            return None

        r = block(fn.body)
        if not (isinstance(r, tuple) and r[0] == "ret"):
            raise Unknown("no return")
        return r[1]

    keys = ["yaml_fc", "named", "object_has", "cwd_text", "cwd_hdf5", "yaml_name"]
    for combo in itertools.product((True, False), repeat=len(keys)):
        flags = dict(zip(keys, combo))
        try:
            got = run_case(flags)
        except Unknown as e:
            raise AnalysisError(f"R16p: select_and_extract_force_constants: '{core.norm(str(e), 60)}' cannot be evaluated over the sources")
        if flags["yaml_fc"]:
            want = "yaml"
        elif flags["named"]:
            want = "named-file"
        elif not flags["object_has"] and flags["cwd_text"]:
            want = "cwd:FORCE_CONSTANTS"
        elif not flags["object_has"] and flags["cwd_hdf5"]:
            want = "cwd:force_constants.hdf5"
        else:
            want = None
        shown = ", ".join(k for k, v in flags.items() if v) or "nothing available"
        rep.instance("R16p", LOADH, "select_and_extract_force_constants", f"[{shown}] -> {want}", got == want,
                     f"with [{shown}] the loader takes the force constants from '{got}' instead of '{want}': a FORCE_CONSTANTS / force_constants.hdf5 file that happens to lie in the working directory replaces the force constants stored in the phonopy.yaml being loaded, so save() followed by load() does not return what was saved", line=fn.lineno, nontrivial=bool(want))


def _r16o(rep):
    """BORN writer: the independent atoms are addressed in the unit cell, not in the supercell."""
    rep.rule("R16o", "BORN file contents: the indices with which the Born tensors of the symmetry-independent atoms are taken from the unit-cell array are unit-cell indices (index-domain typing of the supercell maps: p2s_map and s2p_map give supercell indices, s2u_map the supercell index of the first image, u2u_map turns that into the unit-cell index): with a supercell matrix other than the identity a first-image supercell index selects another atom's tensor or runs off the array", 1)
    SYMF = "phonopy/structure/symmetry.py"
    fn = core.find_def(SYMF, "_extract_independent_atoms")
    rets = [r.value for r in ast.walk(fn) if isinstance(r, ast.Return) and isinstance(r.value, ast.Tuple) and len(r.value.elts) == 2]
    if len(rets) != 1:
        raise AnalysisError("R16o: _extract_independent_atoms no longer returns (supercell indices, unit-cell indices)")
    COD = {"p2s_map": "S", "s2p_map": "S", "s2u_map": "S0", "u2s_map": "S0", "u2u_map": "U", "p2p_map": "P"}

    def dom(e, depth=0):
        e = core.resolve_name(fn, e) if isinstance(e, ast.Name) and depth < 6 else e
        if isinstance(e, ast.Call) and core.src(e.func) in ("np.array", "np.asarray", "list") and e.args:
            return dom(e.args[0], depth + 1)
        if isinstance(e, ast.ListComp):
            return dom(e.elt, depth + 1)
        if isinstance(e, ast.Subscript):
            base = e.value
            nm = base.attr if isinstance(base, ast.Attribute) else (base.id if isinstance(base, ast.Name) else None)
            if nm and nm.lstrip("_") in COD:
                return COD[nm.lstrip("_")]
            return dom(base, depth + 1)
        return None

    got = dom(rets[0].elts[1])
    if got is None:
        raise AnalysisError(f"R16o: cannot type the unit-cell indices '{core.src(core.resolve_name(fn, rets[0].elts[1]))}' returned by _extract_independent_atoms")
    rep.instance("R16o", SYMF, "_extract_independent_atoms", f"{core.norm(core.src(core.resolve_name(fn, rets[0].elts[1])), 70)} : values in {got}", got == "U",
                 f"the indices handed to the BORN writer for the unit-cell Born array are typed {got} (S supercell index, S0 supercell index of the first image), not U: written with --dim the file holds the tensors of other atoms, and parse_BORN expands them to wrong charges without complaint", line=rets[0].lineno)


def _r16m(rep):
    """Writers start from an empty file."""
    rep.rule("R16m", "file writers (write_* functions of phonopy/file_IO.py and the yaml / hdf5 writers of the phonon classes): every file a writer opens for output is opened truncating (mode 'w' / 'wb'): what the file holds afterwards is exactly what this call wrote; an appending or updating mode keeps optional entries of an earlier file (a physical unit, a p2s_map) next to the new data, and the reader applies them", 6)
    n = 0
    for rel in ("phonopy/file_IO.py", "phonopy/phonon/band_structure.py", "phonopy/phonon/mesh.py", "phonopy/phonon/qpoints.py", "phonopy/phonon/dos.py", "phonopy/phonon/thermal_properties.py", "phonopy/interface/phonopy_yaml.py"):
        if not (core.REPO / rel).is_file():
            continue
        tree = core.parse(rel)
        for fn in [x for x in ast.walk(tree) if isinstance(x, ast.FunctionDef) and (x.name.startswith("write") or x.name.startswith("_write"))]:
            for c in ast.walk(fn):
                if not (isinstance(c, ast.Call) and core.src(c.func) in ("open", "h5py.File", "lzma.open", "gzip.open", "myio.open")):
                    continue
                mode = c.args[1] if len(c.args) > 1 else next((k.value for k in c.keywords if k.arg == "mode"), None)
                if mode is None:
                    continue  # default mode of open() is reading
                if not isinstance(mode, ast.Constant) or not isinstance(mode.value, str):
                    rep.unknown(f"R16m: {rel}::{fn.name}: mode '{core.src(mode)}' of {core.src(c.func)} is not a literal")
                    continue
                if mode.value.startswith("r") and "+" not in mode.value:
                    continue
                n += 1
                rep.instance("R16m", rel, core.qualname_of(fn), core.norm(core.src(c), 70), mode.value in ("w", "wb", "wt", "x", "xb"),
                             f"'{core.norm(core.src(c), 60)}' opens the output in mode '{mode.value}': datasets / lines of an earlier file that this call does not write again stay in the file (e.g. the physical unit or p2s_map of earlier force constants) and are applied to the new data by the reader", line=c.lineno)
    if n < 6:
        raise AnalysisError(f"R16m: only {n} output files opened by the writers")


def _r16l(rep):
    """The dataset section of phonopy.yaml, evaluated over the four settings (force_sets, displacements)."""
    import itertools

    rep.rule("R16l", "phonopy.yaml dumper, dataset section evaluated over the finite domain force_sets x displacements in {on, off}: the displacement dataset is written whenever either setting is on, and it contains the forces exactly when force_sets is on (so that Phonopy.save(settings={'force_sets': True, 'displacements': False}), which leaves the force constants out because forces are there, still writes the forces)", 4)
    rel = "phonopy/interface/phonopy_yaml.py"
    fn = core.find_def(rel, "PhonopyYamlDumperBase._dataset_yaml_lines")

    class Unknown(Exception):
        pass

    def ev(e, env):
        if isinstance(e, ast.Subscript) and core.src(e.value) == "self._dumper_settings" and isinstance(e.slice, ast.Constant) and e.slice.value in env:
            return env[e.slice.value]
        if isinstance(e, ast.Name) and e.id in env:
            return env[e.id]
        if isinstance(e, ast.Constant) and isinstance(e.value, bool):
            return e.value
        if isinstance(e, ast.UnaryOp) and isinstance(e.op, ast.Not):
            return not ev(e.operand, env)
        if isinstance(e, ast.BoolOp):
            vals = [ev(v, env) for v in e.values]
            return all(vals) if isinstance(e.op, ast.And) else any(vals)
        raise Unknown(core.src(e))

    def run(stmts, env, calls):
        """True when a return was executed"""
        for st in stmts:
            for c in [x for x in ast.walk(st) if isinstance(x, ast.Call) and core.src(x.func) == "self._displacements_yaml_lines"] if not isinstance(st, ast.If) else []:
                wf = [k.value for k in c.keywords if k.arg == "with_forces"] or c.args[:1]
                calls.append(ev(wf[0], env) if wf else False)
            if isinstance(st, ast.If):
                if run(st.body if ev(st.test, env) else st.orelse, env, calls):
                    return True
            elif isinstance(st, ast.Return):
                return True
            elif isinstance(st, ast.Assign) and len(st.targets) == 1 and isinstance(st.targets[0], ast.Name):
                try:
                    env[st.targets[0].id] = ev(st.value, env)
                except Unknown:
                    env.pop(st.targets[0].id, None)
            elif isinstance(st, (ast.AugAssign, ast.Expr)):
                pass
            else:
                raise Unknown(core.src(st))
        return False

    for fs, disp in itertools.product((True, False), repeat=2):
        calls = []
        try:
            run(fn.body, {"force_sets": fs, "displacements": disp}, calls)
        except Unknown as e:
            raise AnalysisError(f"R16l: _dataset_yaml_lines: '{core.norm(str(e), 60)}' cannot be evaluated over the settings")
        want = [fs] if (fs or disp) else []
        rep.instance("R16l", rel, "PhonopyYamlDumperBase._dataset_yaml_lines", f"force_sets={fs}, displacements={disp}: dataset written {len(calls)}x, with forces {calls}", calls == want,
                     f"with force_sets={fs} and displacements={disp} the dataset section is written {len(calls)} time(s) with forces {calls} instead of {want}: the saved file then holds neither forces nor force constants (save() omits the force constants when the dataset has forces), and reloading it cannot reproduce the calculation", line=fn.lineno)


def _r16k(rep):
    """What the file stores is used when the caller does not say otherwise: the resolved value, not the raw argument."""
    LOAD = "phonopy/cui/load.py"
    rep.rule("R16k", "resolved arguments of phonopy.load(): when a parameter p has a resolved twin _p (p itself, else the value stored in the phonopy.yaml file) and _p is assigned on every path that reaches a statement, calls in that statement receive _p, not the raw p -- otherwise the default units / NAC factor / cell settings of the calculator stored in the file are replaced by those of 'no calculator' when the caller relies on the file", 1)
    fn = core.find_def(LOAD, "load")
    params = {a.arg for a in fn.args.args + fn.args.kwonlyargs}
    twins = {}
    for st in ast.walk(fn):
        if isinstance(st, ast.Assign) and len(st.targets) == 1 and isinstance(st.targets[0], ast.Name) and st.targets[0].id.startswith("_") and st.targets[0].id[1:] in params:
            twins.setdefault(st.targets[0].id[1:], []).append(st)
    twins = {p_: sts for p_, sts in twins.items() if any(isinstance(n, ast.Name) and n.id == p_ for st in sts for n in ast.walk(st.value)) or len(sts) > 1}
    if "calculator" not in twins:
        raise AnalysisError("phonopy.cui.load.load: the resolved calculator (_calculator) vanished")
    found = []

    def terminates(stmts):
        return bool(stmts) and isinstance(stmts[-1], (ast.Raise, ast.Return))

    def walk(stmts, defined):
        defined = set(defined)
        for st in stmts:
            if isinstance(st, ast.If):
                for c in ast.walk(st.test):
                    check_calls(c, defined)
                d1 = walk(st.body, defined)
                d2 = walk(st.orelse, defined)
                if terminates(st.body):
                    defined = d2
                elif terminates(st.orelse):
                    defined = d1
                else:
                    defined = d1 & d2
            elif isinstance(st, (ast.For, ast.While, ast.With, ast.Try)):
                for blk in (getattr(st, "body", []), getattr(st, "orelse", []), getattr(st, "finalbody", [])):
                    walk(blk, defined)
            else:
                for c in ast.walk(st):
                    check_calls(c, defined)
                if isinstance(st, ast.Assign) and len(st.targets) == 1 and isinstance(st.targets[0], ast.Name) and st.targets[0].id[1:] in twins and st.targets[0].id.startswith("_"):
                    defined.add(st.targets[0].id[1:])
        return defined

    def check_calls(c, defined):
        if isinstance(c, ast.Call):
            for a in list(c.args) + [k.value for k in c.keywords]:
                if isinstance(a, ast.Name) and a.id in twins:
                    found.append((c, a.id, a.id in defined))

    walk(fn.body, set())
    n = 0
    for c, p_, after in found:
        if not after:
            continue
        n += 1
        rep.instance("R16k", LOAD, "load", f"{core.norm(core.src(c), 70)} with raw '{p_}' although _{p_} is resolved", False,
                     f"'{core.norm(core.src(c), 60)}' is given the raw argument '{p_}' at a point where the resolved _{p_} (the argument, else what the phonopy.yaml file stores) exists on every path: when the caller leaves '{p_}' to the file, this call sees None -- e.g. the default unit factors of VASP instead of those of the calculator saved in the file, so load() of a saved qe / wien2k calculation rescales all frequencies", line=c.lineno)
    rep.instance("R16k", LOAD, "load", f"resolved twins {sorted('_' + t for t in twins)}: {len([1 for _, _, a in found if not a])} raw uses before resolution, {n} after", n == 0, "", line=fn.lineno, nontrivial=False)


def selftest():
    V = []
    b = lambda name, file, old, new, rule, expect="", **kw: V.append(dict(name=name, kind="break", file=file, old=old, new=new, rule=rule, expect=expect, **kw))
    n = lambda name, file, old, new, **kw: V.append(dict(name=name, kind="neutral", file=file, old=old, new=new, **kw))
    b("hdf5 force constants written in append mode", "phonopy/file_IO.py", "    with h5py.File(filename, \"w\") as w:\n        w.create_dataset(\n            \"force_constants\"", "    with h5py.File(filename, \"a\") as w:\n        w.create_dataset(\n            \"force_constants\"", "R16m", "write_force_constants_to_hdf5")
    b("NAC method read from yaml without normalisation", "phonopy/interface/phonopy_yaml.py", "            nac_params[\"method\"] = nac_yaml[\"method\"].lower()", "            nac_params[\"method\"] = nac_yaml[\"method\"]", "R16n", "_parse_nac")
    b("independent atoms addressed by first-image supercell indices", "phonopy/structure/symmetry.py", "    u_indep_atoms = [scell.u2u_map[x] for x in s_indep_atoms]", "    u_indep_atoms = scell.s2u_map[s_indep_atoms]", "R16o", "_extract_independent_atoms")
    n("independent atoms through both maps", "phonopy/structure/symmetry.py", "    u_indep_atoms = [scell.u2u_map[x] for x in s_indep_atoms]", "    u_indep_atoms = [scell.u2u_map[scell.s2u_map[x]] for x in s_indep_atoms]")
    YML_ = "phonopy/interface/phonopy_yaml.py"
    b("dataset section only under the displacements setting", YML_, "        lines = []\n        if (\n            self._dumper_settings[\"force_sets\"]\n            or self._dumper_settings[\"displacements\"]\n        ):\n            disp_yaml_lines = self._displacements_yaml_lines(\n                with_forces=self._dumper_settings[\"force_sets\"]\n            )\n            lines += disp_yaml_lines\n        return lines\n", "        if not self._dumper_settings[\"displacements\"]:\n            return []\n        return self._displacements_yaml_lines(\n            with_forces=self._dumper_settings[\"force_sets\"]\n        )\n", "R16l", "_dataset_yaml_lines")
    n("dataset section with early return on both settings off", YML_, "        lines = []\n        if (\n            self._dumper_settings[\"force_sets\"]\n            or self._dumper_settings[\"displacements\"]\n        ):\n            disp_yaml_lines = self._displacements_yaml_lines(\n                with_forces=self._dumper_settings[\"force_sets\"]\n            )\n            lines += disp_yaml_lines\n        return lines\n", "        with_forces = self._dumper_settings[\"force_sets\"]\n        if not (with_forces or self._dumper_settings[\"displacements\"]):\n            return []\n        return self._displacements_yaml_lines(with_forces=with_forces)\n")
    b("forces_in_dataset: any displaced supercell with forces counts", "phonopy/structure/dataset.py", "        for d in dataset[\"first_atoms\"]:\n            if \"forces\" not in d:\n                return False\n        return True\n", "        return any(\"forces\" in d for d in dataset[\"first_atoms\"])\n", "R16s", "forces_in_dataset")
    n("forces_in_dataset: every displaced supercell, as a builtin", "phonopy/structure/dataset.py", "        for d in dataset[\"first_atoms\"]:\n            if \"forces\" not in d:\n                return False\n        return True\n", "        return all(\"forces\" in d for d in dataset[\"first_atoms\"])\n")
    b("hdf5 force constants read without the calculator of the object", "phonopy/cui/load_helper.py", "            p2s_map=p2s_map,\n            calculator=phonon.calculator,\n        )", "            p2s_map=p2s_map,\n        )", "R16y.ctxparam", "_read_force_constants_file")
    n("hdf5 force constants read with the calculator through a local", "phonopy/cui/load_helper.py", "    p2s_map = phonon.primitive.p2s_map\n    if len(dot_split) > 1 and dot_split[-1] == \"hdf5\":\n        _fc = read_force_constants_from_hdf5(\n            filename=force_constants_filename,\n            p2s_map=p2s_map,\n            calculator=phonon.calculator,\n        )", "    p2s_map = phonon.primitive.p2s_map\n    calc = phonon.calculator\n    if len(dot_split) > 1 and dot_split[-1] == \"hdf5\":\n        _fc = read_force_constants_from_hdf5(\n            filename=force_constants_filename,\n            p2s_map=p2s_map,\n            calculator=calc,\n        )")
    b("load(): file without a primitive matrix falls through to the automatic guess", "phonopy/cui/load.py", "        else:\n            pmat = phpy_yaml.primitive_matrix\n", "        elif phpy_yaml.primitive_matrix is not None:\n            pmat = phpy_yaml.primitive_matrix\n        else:\n            pmat = get_primitive_matrix(\"auto\", symprec=symprec)\n", "R16r", "load")
    n("load(): primitive matrix chosen with the arms exchanged", "phonopy/cui/load.py", "        if primitive_matrix is not None:\n            pmat = get_primitive_matrix(primitive_matrix, symprec=symprec)\n        else:\n            pmat = phpy_yaml.primitive_matrix\n", "        if primitive_matrix is None:\n            pmat = phpy_yaml.primitive_matrix\n        else:\n            pmat = get_primitive_matrix(primitive_matrix, symprec=symprec)\n")
    b("magnetic moment read under a truthiness test", ATOMS, '            if "magnetic_moment" in x:\n                magnetic_moments.append(x["magnetic_moment"])', '            if x.get("magnetic_moment"):\n                magnetic_moments.append(x["magnetic_moment"])', "R16q", "magnetic_moment")
    n("magnetic moment read under a None test", ATOMS, '            if "magnetic_moment" in x:\n                magnetic_moments.append(x["magnetic_moment"])', '            if x.get("magnetic_moment") is not None:\n                magnetic_moments.append(x["magnetic_moment"])')
    b("dumper renames dielectric key", YML, 'lines.append("  dielectric_constant:")', 'lines.append("  dielectric_tensor:")', "R16a", "dielectric_constant")
    b("loader looks for 'forceconstants'", YML, 'self._yaml["force_constants"]', 'self._yaml["forceconstants"]', "R16a", "force", nth=0)
    b("save overrides the caller's explicit request", API, '        if _settings.get("force_constants") is False:\n            pass\n        elif not forces_in_dataset(self.dataset) and self.force_constants is not None:\n            _settings.update({"force_constants": True})', '        if _settings.get("force_constants", True) and self.force_constants is not None:\n            _settings["force_constants"] = not forces_in_dataset(self.dataset)', "R16b", "only ever set to True")
    b("BORN expansion with the operation in the wrong direction", FIO, "        borns[i] = similarity_transformation(rot_cartesian.T, borns[map_atoms[i]])", "        borns[i] = similarity_transformation(rot_cartesian, borns[map_atoms[i]])", "R16f", "_expand_borns")
    n("BORN expansion written with explicit products", FIO, "        borns[i] = similarity_transformation(rot_cartesian.T, borns[map_atoms[i]])", "        borns[i] = np.dot(rot_cartesian.T, np.dot(borns[map_atoms[i]], rot_cartesian))")
    b("save takes primitive matrix from the wrong attribute", YML, "self._data.primitive_matrix = phonopy.primitive_matrix", "self._data.primitive_matrix = phonopy.supercell_matrix", "R16b", "primitive_matrix")
    b("FORCE_SETS columns fused again", FIO, 'lines.append(" ".join(["%15.8f"] * 6) % (tuple(d) + tuple(f)))', 'lines.append(("%15.8f" * 6) % (tuple(d) + tuple(f)))', "R16c", "_get_FORCE_SETS_lines_type2")
    b("type-1 forces written fused", FIO, '"%15.10f %15.10f %15.10f" % tuple(f)', '"%15.10f%15.10f%15.10f" % tuple(f)', "R16c", "type1")
    n("FORCE_SETS separator is a tab", FIO, 'lines.append(" ".join(["%15.8f"] * 6) % (tuple(d) + tuple(f)))', 'lines.append("\\t".join(["%15.8f"] * 6) % (tuple(d) + tuple(f)))')
    b("calculator default replaces the stored NAC factor", LOADH, '    if _nac_params and "factor" not in _nac_params and nac_factor is not None:', '    if _nac_params and nac_factor is not None:', "R16g", "factor")
    n("default filled with setdefault-like guard order", LOADH, '    if _nac_params and "factor" not in _nac_params and nac_factor is not None:', '    if nac_factor is not None and _nac_params and "factor" not in _nac_params:')
    n("default filled by a merge with the defaults first", LOADH, '    if _nac_params and "factor" not in _nac_params and nac_factor is not None:\n        _nac_params["factor"] = nac_factor', '    if _nac_params and nac_factor is not None:\n        _nac_params = {"factor": nac_factor, **_nac_params}')
    b("unit-cell masses read from the supercell before it is updated", API, "        u2s_map = self._supercell.u2s_map\n        u_masses = s_masses[u2s_map]\n        self._unitcell.set_masses(u_masses)", "        self._unitcell.set_masses(self._unitcell.masses)", "R16h", "self._unitcell")
    b("dumper settings merged into the class-level defaults", YML, "        self._dumper_settings = self._default_dumper_settings.copy()", "        self._dumper_settings = self._default_dumper_settings", "R16j", "_default_dumper_settings")
    b("default units looked up with the raw calculator argument", "phonopy/cui/load.py", "    units = get_default_physical_units(_calculator)", "    units = get_default_physical_units(calculator)", "R16k", "calculator")
    return V
