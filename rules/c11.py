"""C11 — DOS / tetrahedron method: closed forms C == Python, sum rules, table,
sorting network, smearing kernels, normalisation sites (DESIGN §3 C11)."""

from __future__ import annotations

import ast
import itertools
import re

import sympy as sp

from engine import cast, core, symalg
from engine.core import AnalysisError

CF = "c/tetrahedron_method.c"
PY = "phonopy/structure/tetrahedron_method.py"
DOS = "phonopy/phonon/dos.py"
CLS = "TetrahedronMethod"

W = sp.Symbol("omega", real=True)
VS = sp.symbols("v0:4", real=True)

NAMES = (
    ["_n_0", "_n_1", "_n_2", "_n_3", "_n_4", "_g_0", "_g_1", "_g_2", "_g_3", "_g_4", "_J_0", "_J_4", "_I_0", "_I_4"]
    + [f"_J_{i}{c}" for i in (1, 2, 3) for c in range(4)]
    + [f"_I_{i}{c}" for i in (1, 2, 3) for c in range(4)]
)


# ---------------------------------------------------------------------------
# translators with inlining of the repo's own helper calls
# ---------------------------------------------------------------------------


class CSide:
    def __init__(self):
        self.tu = cast.load(CF, openmp=False, defines=("THM_EPSILON=1e-10",))
        self.cache = {}
        self.guards = []  # (function, cond text, returned expr) for epsilon guards

    def _sub_hook(self, t, e, tr, env):
        ks = cast.kids(e)
        base = cast.ref_name(ks[0])
        if base != "vertices_omegas":
            return None
        idx = tr.expr(ks[1], env)
        if not idx.is_Integer or not 0 <= int(idx) <= 3:
            raise AnalysisError(f"{CF}: vertex index {idx} outside 0..3 in {cast.text(e)}")
        return VS[int(idx)]

    def _call_hook(self, nm, args, tr, env):
        if nm in self.tu.functions and nm.startswith("_"):
            vals = []
            for a in args:
                if cast.ref_name(a) == "vertices_omegas":
                    vals.append(None)
                else:
                    vals.append(tr.expr(a, env))
            return self.inline(nm, vals)
        return None

    def inline(self, nm, vals):
        fn = self.tu.functions[nm]
        ps = cast.params(fn)
        if len(ps) != len(vals):
            raise AnalysisError(f"{CF}::{nm}: called with {len(vals)} args, has {len(ps)} params")
        names = {}
        for p, v in zip(ps, vals):
            if v is not None:
                names[p["name"]] = v
        tr = symalg.CTranslator(names, call_hook=self._call_hook, sub_hook=self._sub_hook, where=f"{CF}::{nm}")
        brs = tr.function(fn)
        main = [b for b in brs if all(not truth for _, truth in b.conds)]
        if len(main) != 1:
            raise AnalysisError(f"{CF}::{nm}: cannot identify the unguarded return among {[b.conds for b in brs]}")
        for b in brs:
            if b is not main[0]:
                self.guards.append((nm, b.conds, b.expr))
        return main[0].expr

    def expr(self, nm):
        if nm not in self.cache:
            if nm not in self.tu.functions:
                raise AnalysisError(f"anchor vanished: {CF}::{nm}")
            ps = [p["name"] for p in cast.params(self.tu.functions[nm])]
            if ps == ["omega", "vertices_omegas"]:
                self.cache[nm] = self.inline(nm, [W, None])
            elif ps == []:
                self.cache[nm] = self.inline(nm, [])
            else:
                raise AnalysisError(f"{CF}::{nm}: unexpected parameters {ps}")
        return self.cache[nm]


class PySide:
    def __init__(self):
        self.cls = core.find_def(PY, CLS)
        self.methods = {n.name: n for n in self.cls.body if isinstance(n, ast.FunctionDef)}
        self.cache = {}

    def _attr(self, t):
        if t == "self._omega":
            return W
        return None

    def _sub(self, t, n, tr, env):
        if core.src(n.value) == "self._vertices_omegas":
            idx = tr.expr(n.slice, env)
            if not idx.is_Integer or not 0 <= int(idx) <= 3:
                raise AnalysisError(f"{PY}: vertex index {idx} outside 0..3")
            return VS[int(idx)]
        return None

    def _call(self, node, tr, env):
        f = node.func
        if isinstance(f, ast.Attribute) and core.src(f.value) == "self" and f.attr in self.methods and f.attr.startswith("_"):
            vals = [tr.expr(a, env) for a in node.args]
            return self.inline(f.attr, vals)
        return None

    def inline(self, nm, vals):
        fn = self.methods[nm]
        ps = [a.arg for a in fn.args.args][1:]
        if len(ps) != len(vals):
            raise AnalysisError(f"{PY}::{nm}: arity mismatch")
        tr = symalg.PyTranslator(dict(zip(ps, vals)), call_hook=self._call, attr_hook=self._attr, sub_hook=self._sub, where=f"{PY}::{CLS}.{nm}")
        brs = tr.function(fn)
        if len(brs) != 1:
            raise AnalysisError(f"{PY}::{nm}: expected a single return")
        return brs[0].expr

    def expr(self, nm):
        if nm not in self.cache:
            if nm not in self.methods:
                raise AnalysisError(f"anchor vanished: {PY}::{CLS}.{nm}")
            self.cache[nm] = self.inline(nm, [])
        return self.cache[nm]


def zero(e):
    e = sp.sympify(e)
    if e == 0:
        return True, "syntactic"
    # the closed forms are rational functions of omega and the vertex frequencies: an exact evaluation at a generic
    # rational point refutes an identity at once; otherwise the numerator decides
    w = symalg.rational_witness(e)
    if w is not None:
        return False, core.norm(f"non-zero ({w[1]}) at {w[0]}", 160)
    num = sp.expand(sp.numer(sp.together(e)))
    if num == 0:
        return True, "rational"
    if not e.atoms(sp.Function) and num.is_polynomial(*num.free_symbols):
        return False, core.norm(str(sp.factor_terms(num)), 160)
    r = sp.simplify(sp.cancel(sp.together(e)))
    return (r == 0), ("simplify" if r == 0 else core.norm(str(r), 160))


# ---------------------------------------------------------------------------


def _r11t(rep):
    """The projection weights of the projected DOS, evaluated symbolically on a small generic mesh."""
    from engine import symnp

    rep.rule("R11t", "projection weights of ProjectedDos.__init__ by symbolic evaluation (1 q-point, 2 atoms, 2 bands, generic complex eigenvector components, generic real direction u): with xyz_projection the weight of component k is |e_k|^2; per atom it is |e_x|^2 + |e_y|^2 + |e_z|^2; with a direction it is |(u/|u|) . e_atom|^2 -- a modulus squared, hence non-negative and never above the atom's weight (a cross term without the complex conjugate is not)", 3)
    fn = core.find_method(DOS, "ProjectedDos", "__init__")
    pn = [a.arg for a in fn.args.args]
    for need in ("direction", "xyz_projection"):
        if need not in pn:
            raise AnalysisError(f"R11t: ProjectedDos.__init__ lost its parameter '{need}'")
    NQ, NA, NB = 1, 2, 2
    ev = [[[sp.Symbol(f"a{q}_{k}_{b}", real=True) + sp.I * sp.Symbol(f"b{q}_{k}_{b}", real=True) for b in range(NB)] for k in range(3 * NA)] for q in range(NQ)]
    fr = [[sp.Symbol(f"f{q}_{k}", real=True) for k in range(3 * NA)] for q in range(NQ)]
    u = [sp.Symbol(f"u{c}", real=True, nonzero=True) for c in range(3)]
    # where the eigenvectors come from: the first statement that binds self._eigenvectors
    src_ = [st for st in fn.body if isinstance(st, ast.Assign) and core.src(st.targets[0]) == "self._eigenvectors"]
    if not src_:
        raise AnalysisError("R11t: ProjectedDos.__init__ no longer binds self._eigenvectors")
    start = fn.body.index(src_[0])
    configs = [("components (xyz_projection)", sp.true, None), ("atoms", sp.false, None), ("atoms along a direction", sp.false, u)]
    for label, xyz, direc in configs:
        env = {core.src(src_[0].value): ev, "self._frequencies": fr, "xyz_projection": xyz, "direction": direc}
        E = symnp.Evaluator(env, where="ProjectedDos.__init__")
        E.generic = True
        for st in fn.body[start:]:
            try:
                symnp.run_block(E, [st])
            except AnalysisError:
                tg = [core.src(t) for t in getattr(st, "targets", [])]
                if isinstance(st, ast.Assign) and tg and all(t.startswith("self.") and t not in ("self._eigvecs2", "self._eigenvectors") for t in tg):
                    continue
                raise
        got = E.env.get("self._eigvecs2")
        if got is None:
            raise AnalysisError(f"R11t: self._eigvecs2 is not assigned for {label}")
        if direc is None and xyz is sp.true:
            want = [[[sp.Abs(ev[q][k][b]) ** 2 for b in range(NB)] for k in range(3 * NA)] for q in range(NQ)]
        elif direc is None:
            want = [[[sum(sp.Abs(ev[q][3 * a + c][b]) ** 2 for c in range(3)) for b in range(NB)] for a in range(NA)] for q in range(NQ)]
        else:
            nrm = sp.sqrt(sum(x**2 for x in u))
            want = [[[sp.Abs(sum(u[c] / nrm * ev[q][3 * a + c][b] for c in range(3))) ** 2 for b in range(NB)] for a in range(NA)] for q in range(NQ)]
        ok = symnp.shape(got) == symnp.shape(want)
        diff = None
        if ok:
            flat_g = [x for q_ in got for r_ in q_ for x in r_]
            flat_w = [x for q_ in want for r_ in q_ for x in r_]
            for g_, w_ in zip(flat_g, flat_w):
                d_ = sp.simplify(sp.expand(sp.expand_complex(g_ - w_)))
                if d_ != 0:
                    ok, diff = False, d_
                    break
        gen = f" (generic point assumed for: {', '.join(sorted(set(getattr(E, 'generic_used', []))))})" if getattr(E, "generic_used", None) else ""
        rep.instance("R11t", DOS, "ProjectedDos.__init__", f"weights for {label}: shape {symnp.shape(got)}{gen}", ok,
                     (f"shape {symnp.shape(got)} instead of {symnp.shape(want)}" if diff is None else f"the weight differs from the modulus squared of the projected eigenvector component by {core.norm(str(diff), 140)}") + f": the projected DOS for {label} is not a sum of non-negative band weights that add up to the total DOS (with a direction the weight can become negative or exceed the atom's share)", line=fn.lineno)


def run(rep: core.Report):
    rep.rule("R11a", "each of the 38 closed forms in c/tetrahedron_method.c equals the TetrahedronMethod method of the same name as a rational function", 38)
    rep.rule("R11b", "sum rules as identities: sum_c I_ic = 1, sum_c J_ic = 1, dn_i/dw = g_i, continuity of n, 24*J4*n4/6 = 1 (both languages)", 26)
    rep.rule("R11c", "C literal tetrahedra tables: 4x24 tetrahedra, origin first, unimodular edges, vertices in {-1,0,1}^3, each contains the main diagonal; Python main diagonals agree", 7)
    rep.rule("R11d", "smearing kernels integrate to one over the real line (sympy.integrate of the source expression)", 2)
    rep.rule("R11e", "DOS normalisation sites divide by the number of grid points / sum of weights and multiply by the q-point weight", 6)
    rep.rule("R11f", "sort_omegas is a correct sorting network that returns the sorted position of vertex 0, for all 24 strict orderings (finite ordering domain)", 24)
    rep.rule("R11g", "dispatch tables (i, ci) -> closed form and the case split on omega agree between C and Python", 40)
    rep.rule("R11i", "every integration weight the TetrahedronMesh iterator stores comes from TetrahedronMethod.run(frequency points, selector) on every path (no data-dependent shortcut)", 2)
    rep.rule("R11h", "epsilon guards return 0 only for |delta| < THM_EPSILON / n < THM_EPSILON, and THM_EPSILON is defined for every CMake target that compiles the file", 14)
    rep.rule("R11j", "small helpers by element-wise symbolic execution: the relative-grid-address getters copy every one of the 24x4x3 (x4) table entries to the same position, the matrix-vector product and the squared norm are the documented sums, the vertex frequencies of tetrahedron i are copied in order, each case adds IJ * gn (C and Python)", 8)
    rep.assume("vertex frequencies pairwise distinct (generic branch of _f); omega, v0..v3 real")
    _r11j(rep)
    _r11t(rep)

    C = CSide()
    P = PySide()
    tu = C.tu

    # R11a
    for nm in NAMES:
        ce, pe = C.expr(nm), P.expr(nm)
        ok, how = zero(ce - pe)
        rep.instance("R11a", CF, nm, f"C {nm} == Python {CLS}.{nm}", ok,
                     f"C and Python closed forms differ: C - Py = {how}", line=tu.line(tu.functions[nm]),
                     sample={"function": nm, "c": core.norm(str(ce), 120), "closed_by": how} if ok else None)

    # R11b
    for lang, S, file in (("c", C, CF), ("py", P, PY)):
        def ob(name, e, qn):
            ok, how = zero(e)
            rep.instance("R11b", file, qn, f"[{lang}] {name}", ok, f"sum rule violated: residual {how}",
                         sample={"obligation": f"[{lang}] {name}", "closed_by": how} if ok else None)
        for i in (1, 2, 3):
            ob(f"sum_c I_{i}c == 1", sum(S.expr(f"_I_{i}{c}") for c in range(4)) - 1, f"_I_{i}x")
            ob(f"sum_c J_{i}c == 1", sum(S.expr(f"_J_{i}{c}") for c in range(4)) - 1, f"_J_{i}x")
            ob(f"d n_{i}/d omega == g_{i}", sp.diff(S.expr(f"_n_{i}"), W) - S.expr(f"_g_{i}"), f"_g_{i}")
        ob("n_1(v1) == n_2(v1)", (S.expr("_n_1") - S.expr("_n_2")).subs(W, VS[1]), "_n_2")
        ob("n_2(v2) == n_3(v2)", (S.expr("_n_2") - S.expr("_n_3")).subs(W, VS[2]), "_n_3")
        ob("n_3(v3) == 1", S.expr("_n_3").subs(W, VS[3]) - 1, "_n_3")
        ob("n_1(v0) == 0", S.expr("_n_1").subs(W, VS[0]), "_n_1")
        ob("24 * J_4 * n_4 / 6 == 1 (each vertex weight above the spectrum)", 24 * S.expr("_J_4") * S.expr("_n_4") / 6 - 1, "_J_4")
        ob("I_0 = I_4 = J_0 = n_0 = g_0 = g_4 = 0", sum(abs(S.expr(n)) for n in ("_I_0", "_I_4", "_J_0", "_n_0", "_g_0", "_g_4")), "_I_0")

    _r11c(rep, tu)
    _r11d(rep)
    _r11e(rep)
    _r11k(rep)
    _r11l(rep)
    _r11m(rep)
    from rules import shared_sorted

    shared_sorted.run(rep, "R11o", ["phonopy/phonon/dos.py", "phonopy/phonon/tetrahedron_mesh.py", "phonopy/structure/tetrahedron_method.py"])
    from rules import shared_freshwrite

    shared_freshwrite.run(rep, "R11q", ["phonopy/phonon/dos.py", "phonopy/phonon/tetrahedron_mesh.py"], 3)
    from rules import shared_readonly

    shared_readonly.run(rep, "R11s", ["phonopy/phonon/dos.py", "phonopy/phonon/tetrahedron_mesh.py"], 5)
    from rules import shared_bandaxis

    shared_bandaxis.run(rep, "R11r", [("phonopy/phonon/dos.py", "ProjectedDos._run_smearing_method", {"calc": 0}), ("phonopy/phonon/dos.py", "ProjectedDos._run_tetrahedron_method", {})], 2)
    _r11f(rep, tu)
    _r11g(rep, tu, P)
    _r11h(rep, C)
    _r11i(rep)


# ---------------------------------------------------------------------------
# R11i: provenance of the iterated integration weights
# ---------------------------------------------------------------------------


def _r11i(rep):
    from engine import pyabs

    rel = "phonopy/phonon/tetrahedron_mesh.py"
    fn = core.find_method(rel, "TetrahedronMesh", "__next__")
    stores = [s for s in ast.walk(fn) if isinstance(s, ast.Assign) and isinstance(s.targets[0], ast.Subscript) and core.src(s.targets[0].value) == "self._integration_weights"]
    if not stores:
        raise AnalysisError("TetrahedronMesh.__next__: store into self._integration_weights vanished")
    R = pyabs.Resolver.__new__(pyabs.Resolver)
    for st in stores:
        v = st.value
        srcs = []
        if isinstance(v, ast.Name):
            defs, need_param = pyabs.Resolver._reaching(R, v.id, v, fn)
            for kind, d in defs:
                srcs.append(core.src(d.value) if kind in ("assign", "annassign") else f"<{kind}>")
        else:
            srcs.append(core.src(v))
        ok = bool(srcs) and all(x == "self._tm.get_integration_weight()" for x in srcs)
        rep.instance("R11i", rel, "TetrahedronMesh.__next__", f"{core.src(st.targets[0])} = {core.src(v)}  <- {sorted(set(srcs))}", ok,
                     f"a value stored as integration weight of a band does not come from the tetrahedron method on every path ({sorted(set(srcs))}): for the cumulative selector 'J' a band outside the frequency window must contribute 1/N, not a constant", line=st.lineno)
        # the method is run for this band before its weight is read, on every path to the store
        runs = [c for c in ast.walk(fn) if isinstance(c, ast.Call) and core.src(c.func) == "self._tm.run"]
        dominated = False
        for c in runs:
            stmt = c
            while not isinstance(stmt, ast.stmt):
                stmt = stmt._parent
            cur = st
            while cur is not None and cur is not fn:
                par = getattr(cur, "_parent", None)
                for field in ("body", "orelse"):
                    lst = getattr(par, field, None)
                    if isinstance(lst, list) and cur in lst and stmt in lst and lst.index(stmt) < lst.index(cur):
                        dominated = True
                cur = par
        kw = {k.arg: core.src(k.value) for c in runs for k in c.keywords}
        args_ok = bool(runs) and all(core.src(c.args[0]) == "self._frequency_points" for c in runs if c.args) and kw.get("value") == "self._value"
        rep.instance("R11i", rel, "TetrahedronMesh.__next__", "self._tm.run(self._frequency_points, value=self._value) dominates the store", dominated and args_ok,
                     "the tetrahedron method is not run unconditionally with the iterator's frequency points and selector before the weight of a band is stored", line=st.lineno)


# ---------------------------------------------------------------------------
# R11c: literal tables
# ---------------------------------------------------------------------------


def _init_list(node):
    """clang InitListExpr -> nested python lists of ints."""
    k = node.get("kind")
    if k == "InitListExpr":
        return [_init_list(c) for c in cast.kids(node)]
    if k in ("ImplicitCastExpr", "ParenExpr", "ConstantExpr"):
        return _init_list(cast.kids(node)[0])
    if k == "IntegerLiteral":
        return int(node["value"])
    if k == "UnaryOperator" and node.get("opcode") == "-":
        return -_init_list(cast.kids(node)[0])
    raise AnalysisError(f"non-literal table entry of kind {k}")


def _det3(a, b, c):
    return (a[0] * (b[1] * c[2] - b[2] * c[1]) - a[1] * (b[0] * c[2] - b[2] * c[0]) + a[2] * (b[0] * c[1] - b[1] * c[0]))


def _r11c(rep, tu):
    for nm in ("main_diagonals", "db_relative_grid_address"):
        if nm not in tu.globals:
            raise AnalysisError(f"anchor vanished: {CF}::{nm}")
    diag = _init_list([c for c in cast.kids(tu.globals["main_diagonals"]) if c.get("kind") == "InitListExpr"][0])
    tab = _init_list([c for c in cast.kids(tu.globals["db_relative_grid_address"]) if c.get("kind") == "InitListExpr"][0])
    ok_shape = len(diag) == 4 and all(len(d) == 3 for d in diag) and len(tab) == 4 and all(len(t) == 24 and all(len(x) == 4 and all(len(v) == 3 for v in x) for x in t) for t in tab)
    rep.instance("R11c", CF, "db_relative_grid_address", "shape [4][24][4][3], main_diagonals [4][3]", ok_shape, "table shape changed", line=tu.line(tu.globals["db_relative_grid_address"]))
    if not ok_shape:
        return
    for d in range(4):
        md = tuple(diag[d])
        bad = []
        vertex_count = {}
        for t, tet in enumerate(tab[d]):
            if tuple(tet[0]) != (0, 0, 0):
                bad.append(f"tet {t}: vertex 0 is {tet[0]}, not the origin")
            if any(abs(x) > 1 for v in tet for x in v):
                bad.append(f"tet {t}: vertex outside {{-1,0,1}}^3")
            if abs(_det3(tet[1], tet[2], tet[3])) != 1:
                bad.append(f"tet {t}: |det| = {abs(_det3(tet[1], tet[2], tet[3]))} (volume is not 1/6)")
            edges = [tuple(b[k] - a[k] for k in range(3)) for a, b in itertools.combinations(tet, 2)]
            if md not in edges and tuple(-x for x in md) not in edges:
                bad.append(f"tet {t}: no edge along the main diagonal {md}")
            if len({tuple(v) for v in tet}) != 4:
                bad.append(f"tet {t}: repeated vertex")
        if len({tuple(sorted(map(tuple, tet))) for tet in tab[d]}) != 24:
            bad.append("duplicate tetrahedra")
        # the 24 tetrahedra around the origin: 6 per cube-corner direction pair => each of the 8 cubes has 6/... check count of tets per octant cube
        cubes = {}
        for tet in tab[d]:
            lo = tuple(min(v[k] for v in tet) for k in range(3))
            cubes[lo] = cubes.get(lo, 0) + 1
        if sorted(cubes.values()) != sorted(_expected_cube_counts(md)):
            bad.append(f"tetrahedra per surrounding cube {sorted(cubes.values())} differ from the decomposition along {md}: {sorted(_expected_cube_counts(md))}")
        rep.instance("R11c", CF, "db_relative_grid_address", f"main diagonal {d} {md}: 24 unit-volume tetrahedra through the origin", not bad, "; ".join(bad[:4]), line=tu.line(tu.globals["db_relative_grid_address"]))
    mdset = {tuple(d) for d in diag}
    rep.instance("R11c", CF, "main_diagonals", str(sorted(mdset)), mdset == {(1, 1, 1), (-1, 1, 1), (1, -1, 1), (1, 1, -1)}, "main diagonals are not the four body diagonals", line=tu.line(tu.globals["main_diagonals"]))
    # Python side builds the diagonals as linear forms of the lattice vectors, in the same order
    fn = core.find_def(PY, "_get_relative_grid_addresses_from_microzone_lattice")
    # by role: the literal list of four linear forms of the three lattice vectors (bound to a name or not); the
    # lattice vectors are the names the columns of the argument are unpacked into
    unp = [n for n in ast.walk(fn) if isinstance(n, ast.Assign) and isinstance(n.targets[0], ast.Tuple) and len(n.targets[0].elts) == 3 and all(isinstance(x, ast.Name) for x in n.targets[0].elts)]
    if len(unp) != 1:
        raise AnalysisError(f"{PY}: the lattice vectors are no longer unpacked into three names")
    va, vb, vc = (x.id for x in unp[0].targets[0].elts)
    a, b, c = sp.symbols("a b c")
    tr = symalg.PyTranslator({va: a, vb: b, vc: c}, where=f"{PY}::main_diagonals")
    cands = [n for n in ast.walk(fn) if isinstance(n, (ast.List, ast.Tuple)) and isinstance(getattr(n, "ctx", None), ast.Load) and len(n.elts) == 4 and all(isinstance(x, (ast.BinOp, ast.UnaryOp)) for x in n.elts)]
    if len(cands) != 1:
        raise AnalysisError(f"{PY}: main_diagonals vanished ({len(cands)} literal lists of four linear forms)")
    lst = cands[0]
    pyd = [lst]
    vals = []
    for e in lst.elts:
        ex = sp.expand(tr.expr(e, {}))
        vals.append(tuple(int(ex.coeff(x)) for x in (a, b, c)))
    rep.instance("R11c", PY, "_get_relative_grid_addresses_from_microzone_lattice", str(vals), vals == [tuple(d) for d in diag],
                 "Python and C enumerate the main diagonals differently (the index of the shortest one selects the table)", line=pyd[0].lineno)
    # vertex multiplicity: each of the 24 tets has the origin once -> weight 1/4 each; sum over tets of volume = 24/6 = 4 cells = 8 cubes * (1/2)?
    rep.note("R11c evaluates the literal C tables exhaustively; the Python table is generated at run time and is not compared")


def _expected_cube_counts(md):
    """Each of the 8 unit cubes around the origin is cut into 6 tetrahedra along the
    same body diagonal; a cube contributes those of its 6 tetrahedra that contain the
    origin: 6 when the origin is an end of the cube's diagonal (2 cubes), otherwise 2."""
    out = []
    for lo in itertools.product((-1, 0), repeat=3):
        # origin in cube coordinates
        o = tuple(-x for x in lo)  # in {0,1}^3
        # ends of the main diagonal within the cube: direction md
        start = tuple(0 if m > 0 else 1 for m in md)
        end = tuple(1 - s for s in start)
        out.append(6 if o in (start, end) else 2)
    return out


# ---------------------------------------------------------------------------
# R11d smearing kernels
# ---------------------------------------------------------------------------


def _r11d(rep):
    x = sp.Symbol("x", real=True)
    sig = sp.Symbol("sigma", positive=True)
    for cls in ("NormalDistribution", "CauchyDistribution"):
        fn = core.find_method(DOS, cls, "calc")
        params = [a.arg for a in fn.args.args]
        if params != ["self", "x"]:
            raise AnalysisError(f"{DOS}::{cls}.calc signature changed: {params}")
        tr = symalg.PyTranslator({"x": x}, attr_hook=lambda t: sig if t in ("self._sigma", "self._gamma") else None, where=f"{DOS}::{cls}.calc")
        br = tr.function(fn)
        if len(br) != 1:
            raise AnalysisError(f"{cls}.calc: expected one return")
        val = sp.integrate(br[0].expr, (x, -sp.oo, sp.oo))
        ok, how = zero(sp.simplify(val - 1))
        rep.instance("R11d", DOS, f"{cls}.calc", f"integral over R of {core.norm(str(br[0].expr), 80)} == 1", ok, f"kernel integrates to {val}", line=fn.lineno,
                     sample={"kernel": str(br[0].expr), "integral": str(val)})


# ---------------------------------------------------------------------------
# R11e normalisation sites
# ---------------------------------------------------------------------------


def _r11e(rep):
    # (1) compiled tetrahedron DOS: both returns divide by the number of grid points
    fn = core.find_def(DOS, "run_tetrahedron_method_dos")
    rets = [n for n in ast.walk(fn) if isinstance(n, ast.Return) and n.value is not None]
    if len(rets) < 2:
        raise AnalysisError("run_tetrahedron_method_dos: returns vanished")
    for r in rets:
        e = symalg.open_expr(core.src(r.value))
        num, den = sp.fraction(sp.together(e))
        ok = den == symalg.open_expr("np.prod(mesh)")
        rep.instance("R11e", DOS, "run_tetrahedron_method_dos", core.src(r.value), ok,
                     "tetrahedron DOS is not divided by the number of grid points np.prod(mesh) exactly once", line=r.lineno)
    # (2) smearing total DOS
    m = core.find_method(DOS, "TotalDos", "_get_density_of_states_at_freq")
    tr = symalg.OpenPyTranslator(where="TotalDos._get_density_of_states_at_freq")
    tr.summary(m)
    got = (tr.appends.get("<return>") or [None])[-1]
    if got is None:
        raise AnalysisError("TotalDos._get_density_of_states_at_freq: return vanished")
    exp = symalg.open_expr("np.sum(np.dot(self._weights, self._smearing_function.calc(self._frequencies - f))) / np.sum(self._weights)")
    ok, how = symalg.same(got, exp)
    rep.instance("R11e", DOS, "TotalDos._get_density_of_states_at_freq", "sum_q w_q sum_b K(f_qb - f) / sum_q w_q", ok,
                 f"smearing DOS is not the weight-averaged kernel sum ({how})", line=m.lineno)
    # (3) smearing projected DOS
    m = core.find_method(DOS, "ProjectedDos", "_run_smearing_method")
    tr = symalg.OpenPyTranslator(where="ProjectedDos._run_smearing_method")
    env = tr.summary(m)
    # by role: the local that holds the normalised weights is the one whose value is self._weights / sum(self._weights)
    wexp = symalg.open_expr("self._weights / float(np.sum(self._weights))")
    cand = [v for k, v in env.items() if isinstance(k, str) and not k.startswith("self.") and hasattr(v, "has") and symalg.same(v, wexp)[0]]
    w = cand[0] if cand else None
    okw = w is not None
    stores = [v for k, vs in tr.assigned.items() if k.startswith("self._projected_dos[") for v in vs]
    oks = bool(stores) and all(w is not None and v.has(w) for v in stores)
    if okw and not oks:
        # the normalised weights exist but do not appear literally in the stored expression (a vectorised spelling
        # routes them through an intermediate array): whether every sum over q carries the weight is decided by the
        # axis/weight typing of C09 (R09e) for this very function, not by this pattern
        rep.note("R11e: ProjectedDos._run_smearing_method stores through an intermediate array; weight clause left to R09e")
    else:
        rep.instance("R11e", DOS, "ProjectedDos._run_smearing_method", "weights = w / sum(w); pdos[j, i] = dot(weights, |e|^2 * K).sum()", okw and oks,
                     "projected smearing DOS does not use q-point weights normalised by their sum", line=m.lineno)
    # (4) iterated tetrahedron paths weight row i of the iterator by weights[i]
    for cls, meth, tgt in (("TotalDos", "run", "aug:self._dos"), ("ProjectedDos", "_run_tetrahedron_method", "aug:self._projected_dos")):
        m = core.find_method(DOS, cls, meth)
        # the loop over the tetrahedron-mesh iterator: enumerate(<local bound to self._tetrahedron_mesh>), by role
        thm_names = {core.src(st.targets[0]) for st in ast.walk(m) if isinstance(st, ast.Assign) and core.src(st.value) == "self._tetrahedron_mesh"} | {"self._tetrahedron_mesh"}
        loops = [n for n in ast.walk(m) if isinstance(n, ast.For) and isinstance(n.iter, ast.Call) and core.src(n.iter.func) == "enumerate" and n.iter.args and core.src(n.iter.args[0]) in thm_names and isinstance(n.target, ast.Tuple) and len(n.target.elts) == 2]
        if not loops:
            raise AnalysisError(f"{cls}.{meth}: 'for i, iw in enumerate(thm)' vanished")
        lp = loops[0]
        iv, wv = (core.src(e) for e in lp.target.elts)
        tr = symalg.OpenPyTranslator(where=f"{cls}.{meth}")
        tr.summary(lp.body, {iv: sp.Symbol(iv), wv: sp.Symbol(wv)})
        accs = tr.appends.get(tgt) or []
        wi = symalg.open_expr(f"self._weights[{iv}]")
        ok = bool(accs) and all(op == "Add" and v.has(wi) and v.has(sp.Symbol(wv)) for op, v in accs)
        if ok:
            # the weight enters linearly
            for op, v in accs:
                ws = sp.Symbol("__w")
                lin = v.subs(wi, ws)
                ok = ok and not lin.has(wi)
        rep.instance("R11e", DOS, f"{cls}.{meth}", f"+= f(iw * self._weights[{iv}])", ok,
                     "iterated tetrahedron DOS does not multiply the weights of grid point i by the multiplicity of the same i", line=lp.lineno)
    tm = core.find_method("phonopy/phonon/tetrahedron_mesh.py", "TetrahedronMesh", "__next__")
    divs = [n for n in ast.walk(tm) if isinstance(n, ast.AugAssign) and isinstance(n.op, ast.Div) and core.src(n.target) == "self._integration_weights"]
    ok = len(divs) == 1 and symalg.same(symalg.open_expr(core.src(divs[0].value)), symalg.open_expr("np.prod(self._mesh)"))[0]
    rep.instance("R11e", "phonopy/phonon/tetrahedron_mesh.py", "TetrahedronMesh.__next__", core.src(divs[0]) if divs else "<vanished>", ok,
                 "iterated integration weights are not divided by the number of grid points exactly once", line=tm.lineno)



def _r11k(rep):
    """Smearing DOS: the kernel is evaluated for every mode at every frequency point."""
    rep.rule("R11k", "smearing DOS sums the kernel over all modes: the argument of the smearing function is (all mode frequencies - frequency point); no slice, mask or search window selects a subset of the modes (a Lorentzian keeps 6 % of its weight beyond ten widths, so a window makes the projected DOS sum differ from the total DOS)", 2)
    tree = core.parse(DOS)
    n_inst = 0
    for fn in [x for x in ast.walk(tree) if isinstance(x, ast.FunctionDef)]:
        calls = [c for c in ast.walk(fn) if isinstance(c, ast.Call) and core.src(c.func).endswith("_smearing_function.calc") and c.args]
        if not calls:
            continue
        tainted = set()
        changed = True

        def derived(e):
            return any((isinstance(x, ast.Attribute) and x.attr == "_frequencies") or (isinstance(x, ast.Name) and x.id in tainted) for x in ast.walk(e))

        while changed:
            changed = False
            for st in ast.walk(fn):
                if isinstance(st, ast.Assign) and derived(st.value):
                    for t in st.targets:
                        for nm in ast.walk(t):
                            if isinstance(nm, ast.Name) and nm.id not in tainted:
                                tainted.add(nm.id)
                                changed = True
        for c in calls:
            arg = c.args[0]
            # inline the locals the argument mentions (one level is what the code uses)
            exprs = [arg] + [st.value for st in ast.walk(fn) if isinstance(st, ast.Assign) and any(isinstance(t, ast.Name) and t.id in {n.id for n in ast.walk(arg) if isinstance(n, ast.Name)} for t in st.targets)]
            cut = None
            for e in exprs:
                for sub in ast.walk(e):
                    if isinstance(sub, ast.Subscript) and derived(sub.value):
                        parts = sub.slice.elts if isinstance(sub.slice, ast.Tuple) else [sub.slice]
                        for p_ in parts:
                            if isinstance(p_, ast.Slice) and (p_.lower is not None or p_.upper is not None):
                                cut = sub
                            elif isinstance(p_, (ast.Compare, ast.BoolOp)):
                                cut = sub
                            elif isinstance(p_, ast.Name) and any(isinstance(st, ast.Assign) and any(isinstance(t, ast.Name) and t.id == p_.id for t in st.targets) and isinstance(st.value, (ast.Compare, ast.BoolOp)) for st in ast.walk(fn)):
                                cut = sub
            n_inst += 1
            rep.instance("R11k", DOS, core.qualname_of(fn), core.norm(core.src(c), 90), derived(arg) and cut is None,
                         (f"the kernel is evaluated on '{core.norm(core.src(cut), 50)}', a subset of the modes" if cut is not None else "the kernel argument does not come from the mode frequencies") + ": the tails outside the window are dropped (negligible for a Gaussian, 6 % of the weight of a Lorentzian beyond ten widths), so the DOS no longer integrates to the number of modes and the projected DOS no longer sums to the total DOS", line=c.lineno)
    if n_inst < 2:
        raise AnalysisError(f"R11k: {n_inst} smearing sites found in {DOS}, 2 confirmed by reading")



def _r11l(rep):
    """The compiled tetrahedron-DOS driver (phonopy.c): closed form of a generic output cell and the construction of
    the irreducible-point tables it reads."""
    from engine import celem

    PC = "c/phonopy.c"
    rep.rule("R11l", "compiled tetrahedron-method DOS: dos[i, k, j, m] grows by w_i * coef[i, m, k] * I(freq_points[j]; the 24 x 4 frequencies of band k at the irreducible points of the grid addresses grid_address[ir_grid_points[i]] + relative_grid_address[l][q]) (closed form of a generic cell by element-wise symbolic execution, library calls uninterpreted); the tables gp2ir / ir_grid_points / weights are built by one pass over the mapping table: a point that maps to itself opens a new entry with weight 1, any other point adds 1 to the weight of the entry of its image", 3)
    tu = cast.load(PC, openmp=False)
    fn = tu.functions.get("phpy_tetrahedron_method_dos")
    if fn is None:
        raise AnalysisError("anchor vanished: phpy_tetrahedron_method_dos")
    ex = celem.ElemExec(tu, where=PC, opaque={"rgd_get_double_grid_index", "thm_get_integration_weight"}, opaque_out={"rgd_get_double_grid_address": 0})
    top = cast.kids(cast.body(fn))
    st = celem.State(ex, "phpy_tetrahedron_method_dos", {}, {}, 0)
    for p_ in cast.params(fn):
        qt = cast.qtype(p_)
        if "*" in qt or "[" in qt:
            st.alias[p_["name"]] = p_["name"]
        else:
            st.scalars[p_["name"]] = sp.Symbol(p_["name"], integer=True) if cast.is_int_type(qt) else sp.Symbol(p_["name"])
    decls = [x for x in top if x.get("kind") == "DeclStmt"]
    st.block(decls)
    ptrs = [v["name"] for d in decls for v in cast.kids(d) if v.get("kind") == "VarDecl" and "*" in cast.qtype(v)]
    for nm in ptrs:
        st.alias[nm] = nm
    main = [x for x in top if x.get("kind") == "ForStmt" and any(y.get("kind") == "CallExpr" and cast.callee_name(y) == "thm_get_integration_weight" for y in cast.walk(x))]
    if len(main) != 1:
        raise AnalysisError("R11l: the loop over irreducible grid points of phpy_tetrahedron_method_dos vanished")
    st.block(main)
    cells = st.cells.get("dos", [])
    if len(cells) != 1 or len(cells[0][1]) != 4:
        raise AnalysisError(f"R11l: {len(cells)} store patterns into dos, one over four loops expected")
    pat, lvs, val = cells[0]
    i, k, j, m = lvs
    pn = [p_["name"] for p_ in cast.params(fn)]
    S = lambda nm: sp.Symbol(nm, integer=True)
    nb, nf, nc = S("num_band"), S("num_freq_points"), S("num_coef")
    F = sp.Function
    # roles of the three scratch tables, read off the closed form itself
    ws = [a for a in val.atoms(sp.core.function.AppliedUndef) if a.func.__name__ in ptrs and a.args == (i,) and not any(a in b.args for b in val.atoms(sp.core.function.AppliedUndef) if b is not a)]
    want_idx = sp.expand(i * nb * nf * nc + k * nc * nf + j * nc + m)
    rep.instance("R11l", PC, "phpy_tetrahedron_method_dos", f"dos cell index {pat[0]}", sp.expand(pat[0] - want_idx) == 0, f"the output cell of (grid point i, band k, frequency point j, coefficient m) is dos[{pat[0]}], not the dense (i, k, j, m) address", line=tu.line(main[0]))
    # expected addend with whatever names the three tables have: find them by role
    add = sp.expand(val - F("dos")(pat[0]))
    cands = {}
    for a in add.atoms(sp.core.function.AppliedUndef):
        nm = a.func.__name__
        if nm in ptrs:
            if a.args == (i,) and any(isinstance(b, sp.core.function.AppliedUndef) and b.func.__name__ == "grid_address" and a in b.args for b in add.atoms(sp.core.function.AppliedUndef)):
                cands["ir"] = nm
            elif a.args == (i,):
                cands.setdefault("w", nm)
            elif a.args and isinstance(a.args[0], sp.core.function.AppliedUndef) and a.args[0].func.__name__ == "rgd_get_double_grid_index":
                cands["gp2ir"] = nm
    if set(cands) != {"ir", "w", "gp2ir"} or len(set(cands.values())) != 3:
        rep.instance("R11l", PC, "phpy_tetrahedron_method_dos", "roles of the three scratch tables in the closed form", False, f"the addend {str(add)[:200]} does not read a weight of grid point i, the grid point of entry i and the entry of a neighbouring grid point through three different tables (found {cands})", line=tu.line(main[0]))
        return
    mesh, shift = sp.Symbol("mesh"), sp.Symbol("is_shift")

    def tet(l, q):
        g = sp.Tuple(*[F("grid_address")(F(cands["ir"])(i), r) + F("relative_grid_address")(l, q, r) for r in range(3)])
        ad = sp.Tuple(*[F("rgd_get_double_grid_address")(r, g, mesh, shift) for r in range(3)])
        return F("frequencies")(F(cands["gp2ir"])(F("rgd_get_double_grid_index")(ad, mesh)) * nb + k)

    iw = F("thm_get_integration_weight")(F("freq_points")(j), sp.Tuple(*[tet(l, q) for l in range(24) for q in range(4)]), sp.Integer(ord("I")))
    want = iw * F(cands["w"])(i) * F("coef")(i * nc * nb + m * nb + k)
    rep.instance("R11l", PC, "phpy_tetrahedron_method_dos", "dos[i,k,j,m] += weights[i] * coef[i,m,k] * I(freq_points[j]; frequencies[gp2ir[index(grid_address[ir[i]] + rel[l][q])] * num_band + k], 24 x 4)", sp.expand(add - want) == 0,
                 f"the addend of the generic cell is {str(add)[:260]}…: not the integration weight of frequency point j over the 24 tetrahedra around irreducible grid point i for band k, times the multiplicity of i and the coefficient (i, m, k)", line=tu.line(main[0]))
    # the construction of the tables
    build = [x for x in top if x.get("kind") == "ForStmt" and x is not main[0] and any(y.get("kind") == "IfStmt" for y in cast.walk(x))]
    if len(build) != 1:
        raise AnalysisError("R11l: the loop that builds the irreducible-point tables vanished")
    ifs = [y for y in cast.kids(build[0])[-1].get("inner", []) if isinstance(y, dict) and y.get("kind") == "IfStmt"] if cast.kids(build[0])[-1].get("kind") == "CompoundStmt" else []
    ren = {cands["ir"]: "IR", cands["w"]: "W", cands["gp2ir"]: "G", pn[4]: "T"}
    real = [x for x in build[0].get("inner", []) if isinstance(x, dict) and x.get("kind")]
    lv = cast.text(cast.kids(real[0])[0]) if real else "?"
    ren[lv] = "p"
    counters = [cast.text(cast.kids(y)[0]) for y in cast.walk(build[0]) if y.get("kind") == "UnaryOperator" and y.get("opcode") == "++" and cast.strip(cast.kids(y)[0]).get("kind") == "DeclRefExpr" and cast.text(cast.kids(y)[0]) != lv]
    if counters:
        ren[counters[0]] = "n"

    def rt(e):
        return re.sub(r"\b[A-Za-z_]\w*\b", lambda mm: ren.get(mm.group(0), mm.group(0)), cast.text(e)).replace(" ", "")

    ok_b = False
    shown = "?"
    if len(ifs) == 1:
        ks_ = cast.kids(ifs[0])
        cond = rt(ks_[0])
        then = [rt(x) for x in (cast.kids(ks_[1]) if ks_[1].get("kind") == "CompoundStmt" else [ks_[1]])]
        els = [rt(x) for x in (cast.kids(ks_[2]) if len(ks_) > 2 and ks_[2].get("kind") == "CompoundStmt" else ks_[2:3])]
        shown = f"if {cond}: {then} else: {els}"
        ok_b = cond in ("T[p]==p", "p==T[p]") and sorted(then[:-1]) == sorted(["G[p]=n", "IR[n]=p", "W[n]=1"]) and then[-1] in ("n++", "++n") and els in (["G[p]=G[T[p]]", "W[G[p]]++"], ["G[p]=G[T[p]]", "W[G[T[p]]]++"], ["G[p]=G[T[p]]", "++W[G[p]]"])
    bound = rt(cast.kids(real[-3])[1]) if len(real) >= 3 else "?"
    rep.instance("R11l", PC, "phpy_tetrahedron_method_dos", f"tables: for p < {bound}: {shown}", ok_b and bound == pn[12],
                 "the pass over the mapping table does not open one entry (index, grid point, weight 1) per point that maps to itself and add 1 to the entry of the image for every other point, over all grid points: multiplicities or the grid-point -> entry table are wrong", line=tu.line(build[0]))



def _r11m(rep):
    """Which grid point a grid address names: the compiled index function and the Python reference use the same strides."""
    from engine import celem

    RG = "c/rgrid.c"
    TM = "phonopy/phonon/tetrahedron_mesh.py"
    rep.rule("R11m", "grid index of a grid address: index = address[0] + mesh[0] * address[1] + mesh[0] * mesh[1] * address[2] (component k strides over the product of the mesh numbers of the components below it) in the compiled look-up used for the tetrahedron vertices, and the default grid_order of the Python reference is [1, mesh[0], mesh[0] * mesh[1]]", 2)
    tu = cast.load(RG, openmp=False)
    fn = tu.functions.get("get_grid_index_single_mesh")
    if fn is None:
        raise AnalysisError("anchor vanished: get_grid_index_single_mesh in c/rgrid.c")
    ex = celem.ElemExec(tu, where=RG)
    st = celem.State(ex, "get_grid_index_single_mesh", {}, {}, 0)
    ps = [p_["name"] for p_ in cast.params(fn)]
    for nm in ps:
        st.alias[nm] = nm
    rets = [x for x in cast.walk(fn) if x.get("kind") == "ReturnStmt"]
    if len(rets) != 1:
        raise AnalysisError(f"get_grid_index_single_mesh: {len(rets)} return statements in the configured build, 1 expected")
    e = sp.expand(st.expr(cast.kids(rets[0])[0]))
    A, M = sp.Function(ps[0]), sp.Function(ps[1])
    want = A(0) + M(0) * A(1) + M(0) * M(1) * A(2)
    rep.instance("R11m", RG, "get_grid_index_single_mesh", f"returns {e}", sp.expand(e - want) == 0,
                 f"the index of a grid address is {e}, not address[0] + mesh[0]*address[1] + mesh[0]*mesh[1]*address[2]: for mesh[0] != mesh[1] the vertices of the tetrahedra are looked up at other grid points than the ones the grid addresses (and the Python reference) name, and for mesh[1] > mesh[0] the index can pass the end of the table", line=tu.line(fn))
    cls = core.find_def(TM, "TetrahedronMesh")
    init = [m for m in cls.body if isinstance(m, ast.FunctionDef) and m.name == "__init__"]
    lists = [x for x in ast.walk(init[0]) if isinstance(x, ast.List) and len(x.elts) == 3 and isinstance(getattr(x, "_parent", None), ast.Assign) and "grid_order" in core.src(x._parent.targets[0])] if init else []
    if len(lists) != 1:
        raise AnalysisError(f"{TM}: default grid order of TetrahedronMesh vanished")
    got = [sp.expand(symalg.open_expr(core.src(x))) for x in lists[0].elts]
    mname = [a.arg for a in init[0].args.args if a.arg == "mesh"]
    m_ = symalg.open_expr("mesh[0]"), symalg.open_expr("mesh[1]")
    rep.instance("R11m", TM, "TetrahedronMesh.__init__", f"default grid_order {core.src(lists[0])}", got == [sp.Integer(1), m_[0], sp.expand(m_[0] * m_[1])],
                 "the default strides of the Python tetrahedron reference are not [1, mesh[0], mesh[0]*mesh[1]]", line=lists[0].lineno)


# ---------------------------------------------------------------------------
# R11f sorting network over the finite domain of orderings
# ---------------------------------------------------------------------------


def _r11f(rep, tu):
    fn = tu.functions.get("sort_omegas")
    if fn is None:
        raise AnalysisError("anchor vanished: sort_omegas")
    labels = "abcd"
    for perm in itertools.permutations(range(4)):
        rank = dict(zip(labels, perm))  # label -> rank; v[k] initially holds label k
        state = {"v": list(labels), "w": [None] * 4, "i": None}
        try:
            ret = _abs_exec(cast.kids(cast.body(fn)), state, rank)
        except AnalysisError:
            raise
        sorted_ok = [rank[x] for x in state["v"]] == [0, 1, 2, 3]
        pos0 = state["v"].index("a") if "a" in state["v"] else None
        ok = sorted_ok and ret == pos0
        rep.instance("R11f", CF, "sort_omegas", f"ordering ranks(v0..v3)={perm}", ok,
                     f"abstract result v={state['v']} (ranks {[rank.get(x) for x in state['v']]}), returned {ret}, vertex 0 sits at {pos0}",
                     line=tu.line(fn), sample={"ordering": perm, "sorted": state["v"], "returned": ret} if perm == (2, 0, 3, 1) else None)


def _abs_exec(stmts, st, rank):
    """Abstract interpreter for sort_omegas over label values with an ordering oracle.
    Supports exactly the constructs the function uses; anything else is ANALYSIS-ERROR."""
    for s in stmts:
        k = s.get("kind")
        ks = cast.kids(s)
        if k == "DeclStmt":
            continue
        if k == "CompoundStmt":
            r = _abs_exec(ks, st, rank)
            if r is not None:
                return r
            continue
        if k == "BinaryOperator" and s.get("opcode") == "=":
            _abs_store(ks[0], _abs_val(ks[1], st), st)
            continue
        if k == "IfStmt":
            c = _abs_cond(ks[0], st, rank)
            branch = ks[1] if c else (ks[2] if len(ks) > 2 else None)
            if branch is not None:
                r = _abs_exec([branch], st, rank)
                if r is not None:
                    return r
            continue
        if k == "ReturnStmt":
            return _abs_val(ks[0], st)
        raise AnalysisError(f"sort_omegas: statement kind {k} not supported by the ordering-domain interpreter")
    return None


def _abs_lv(e, st):
    e = cast.strip(e)
    if e.get("kind") == "DeclRefExpr":
        return (e["referencedDecl"]["name"], None)
    if e.get("kind") == "ArraySubscriptExpr":
        ks = cast.kids(e)
        idx = cast.strip(ks[1])
        if idx.get("kind") != "IntegerLiteral":
            raise AnalysisError("sort_omegas: non-literal subscript")
        return (cast.ref_name(ks[0]), int(idx["value"]))
    raise AnalysisError(f"sort_omegas: unsupported lvalue {cast.text(e)}")


def _abs_val(e, st):
    e = cast.strip(e)
    while e.get("kind") in ("ImplicitCastExpr", "CStyleCastExpr"):
        e = cast.strip(cast.kids(e)[0])
    if e.get("kind") == "IntegerLiteral":
        return int(e["value"])
    name, idx = _abs_lv(e, st)
    return st[name] if idx is None else st[name][idx]


def _abs_store(lhs, val, st):
    name, idx = _abs_lv(lhs, st)
    if idx is None:
        st[name] = val
    else:
        st[name][idx] = val


def _abs_cond(e, st, rank):
    e = cast.strip(e)
    if e.get("kind") != "BinaryOperator":
        raise AnalysisError("sort_omegas: unsupported condition")
    op = e["opcode"]
    a, b = (_abs_val(x, st) for x in cast.kids(e))
    if op == "==":
        return a == b
    if isinstance(a, str) and isinstance(b, str):
        # the ordering domain is the 24 strict orderings (assumption: pairwise distinct vertex frequencies), on which
        # >= and > (<= and <) coincide for different vertices
        if op in (">", ">="):
            return rank[a] > rank[b] if a != b else op == ">="
        if op in ("<", "<="):
            return rank[a] < rank[b] if a != b else op == "<="
    raise AnalysisError(f"sort_omegas: unsupported comparison {cast.text(e)}")


# ---------------------------------------------------------------------------
# R11g dispatch tables and case split
# ---------------------------------------------------------------------------


def _c_dispatch(tu, nm):
    """Nested switch -> {(i, ci) or (i,): callee}. Fall-through out of an inner switch
    (no default, no break) is recorded as reaching the next outer case."""
    fn = tu.functions.get(nm)
    if fn is None:
        raise AnalysisError(f"anchor vanished: {CF}::{nm}")
    table = {}

    def cases(sw):
        comp = [c for c in cast.kids(sw) if c.get("kind") == "CompoundStmt"][0]
        cur = None
        for st in cast.kids(comp):
            node = st
            while node.get("kind") == "CaseStmt":
                ks = cast.kids(node)
                lit = cast.strip(ks[0])
                while lit.get("kind") in ("ConstantExpr", "ImplicitCastExpr"):
                    lit = cast.strip(cast.kids(lit)[0])
                cur = int(lit["value"])
                node = ks[-1]
                yield cur, node
                node = {"kind": None}
            if st.get("kind") != "CaseStmt" and cur is not None:
                yield cur, st

    outer = [c for c in cast.walk(cast.body(fn)) if c.get("kind") == "SwitchStmt"][0]
    for i, node in cases(outer):
        if node.get("kind") == "ReturnStmt":
            table[(i,)] = cast.callee_name(cast.strip(cast.kids(node)[0]))
        elif node.get("kind") == "SwitchStmt":
            for ci, inner in cases(node):
                if inner.get("kind") == "ReturnStmt":
                    table[(i, ci)] = cast.callee_name(cast.strip(cast.kids(inner)[0]))
    return table


def _py_dispatch(P, nm):
    fn = P.methods.get(nm)
    if fn is None:
        raise AnalysisError(f"anchor vanished: {PY}::{CLS}.{nm}")
    table = {}

    def cases(stmts, var):
        """(value, body) of every test `var == literal` in a statement list: elif chains and sequences of
        `if ...: return` statements alike (each arm returns, so a following `if` is the next case)"""
        for st in stmts:
            node = st
            while isinstance(node, ast.If):
                t = node.test
                if isinstance(t, ast.Compare) and core.src(t.left) == var and isinstance(t.ops[0], ast.Eq) and isinstance(t.comparators[0], ast.Constant):
                    yield t.comparators[0].value, node.body
                if len(node.orelse) == 1 and isinstance(node.orelse[0], ast.If):
                    node = node.orelse[0]
                else:
                    yield from cases(node.orelse, var)
                    node = None

    pi_ = fn.args.args[1].arg if len(fn.args.args) > 1 else "i"
    pci = fn.args.args[2].arg if len(fn.args.args) > 2 else "ci"
    for i, body in cases(fn.body, pi_):
        if isinstance(body[0], ast.Return):
            table.setdefault((i,), body[0].value.func.attr)
        else:
            for ci, b2 in cases(body, pci):
                if isinstance(b2[0], ast.Return):
                    table.setdefault((i, ci), b2[0].value.func.attr)
    return table


def _giw_roles(fn):
    """C names of get_integration_weight by role (parameters by position; the array handed to sort_omegas, the variable
    that receives its result and the accumulator), so that a renamed local or parameter changes nothing."""
    cren = {}
    ps_ = [p_.get("name") for p_ in cast.params(fn)]
    if len(ps_) != 4:
        raise AnalysisError(f"get_integration_weight: {len(ps_)} parameters, expected 4")
    cren.update({ps_[0]: "omega", ps_[1]: "tetrahedra_omegas", ps_[2]: "gn", ps_[3]: "IJ"})
    for x in cast.walk(fn):
        if x.get("kind") == "BinaryOperator" and x.get("opcode") == "=":
            l_, r_ = cast.kids(x)
            r_ = cast.strip(r_)
            if r_.get("kind") == "CallExpr" and cast.callee_name(r_) == "sort_omegas":
                cren[cast.text(cast.strip(l_))] = "ci"
                cren[cast.text(cast.strip(cast.call_args(r_)[0]))] = "v"
        if x.get("kind") == "CompoundAssignOperator":
            cren[cast.text(cast.strip(cast.kids(x)[0]))] = "sum"
    if sorted(cren.values()) != sorted(["omega", "tetrahedra_omegas", "gn", "IJ", "ci", "v", "sum"]):
        raise AnalysisError(f"get_integration_weight: roles not found ({sorted(cren.values())})")
    return cren


def _r11g(rep, tu, P):
    for nm in ("_J", "_I", "_n", "_g"):
        ct, pt = _c_dispatch(tu, nm), _py_dispatch(P, nm)
        keys = sorted(set(ct) | set(pt))
        expect = 14 if nm in ("_J", "_I") else 5
        if len(keys) < expect:
            raise AnalysisError(f"dispatch {nm}: only {len(keys)} cases extracted")
        for k in keys:
            want = nm + "_" + "".join(str(x) for x in k)
            ok = ct.get(k) == pt.get(k) == want
            rep.instance("R11g", CF, nm, f"{nm}{k} -> C {ct.get(k)} / Py {pt.get(k)}", ok, f"case {k} must dispatch to {want} in both languages", line=tu.line(tu.functions[nm]))
    # case split of get_integration_weight: both languages as lists of (set of atomic comparisons, k)
    fn = tu.functions.get("get_integration_weight")
    if fn is None:
        raise AnalysisError("anchor vanished: get_integration_weight")

    cren = _giw_roles(fn)

    def ctext(e):
        return re.sub(r"\b[A-Za-z_]\w*\b", lambda m: cren.get(m.group(0), m.group(0)), cast.text(e))

    def c_atoms(e):
        e = cast.strip(e)
        if e.get("kind") == "BinaryOperator" and e.get("opcode") == "&&":
            a, b = cast.kids(e)
            return c_atoms(a) | c_atoms(b)
        if e.get("kind") == "BinaryOperator" and e.get("opcode") in ("<", ">", "<=", ">="):
            a, b = (ctext(cast.strip(x)) for x in cast.kids(e))
            op = e["opcode"]
            if op in (">", ">="):
                a, b, op = b, a, {">": "<", ">=": "<="}[op]
            return {(a, op, b)}
        raise AnalysisError(f"get_integration_weight: unsupported condition {ctext(e)}")

    c_cases = []
    for x in cast.walk(fn):
        if x.get("kind") == "IfStmt":
            ks = cast.kids(x)
            accs = [y for y in cast.kids(ks[1]) if y.get("kind") == "CompoundAssignOperator"] if ks[1].get("kind") == "CompoundStmt" else []
            if not accs:
                continue
            rhs = cast.strip(cast.kids(accs[0])[1])
            calls = [y for y in cast.walk(rhs) if y.get("kind") == "CallExpr"]
            ks_ = sorted({ctext(cast.call_args(y)[0]) for y in calls})
            callees = sorted(ctext(cast.kids(y)[0]) for y in calls)
            shape = ctext(rhs)
            c_cases.append((frozenset(c_atoms(ks[0])), ks_, callees, accs[0].get("opcode"), "ci" in shape))
    pf = P.methods.get("_get_integration_weight_py")
    if pf is None:
        raise AnalysisError("anchor vanished: _get_integration_weight_py")

    def py_atoms(t):
        if isinstance(t, ast.BoolOp) and isinstance(t.op, ast.And):
            out = set()
            for v in t.values:
                out |= py_atoms(v)
            return out
        if isinstance(t, ast.Compare):
            out = set()
            left = t.left
            for op, right in zip(t.ops, t.comparators):
                a, b = rsrc(left), rsrc(right)
                o = {ast.Lt: "<", ast.Gt: ">", ast.LtE: "<=", ast.GtE: ">="}.get(type(op))
                if o is None:
                    raise AnalysisError(f"unsupported comparison {core.src(t)}")
                if o in (">", ">="):
                    a, b, o = b, a, {">": "<", ">=": "<="}[o]
                out.add((a, o, b))
                left = right
            return out
        raise AnalysisError(f"unsupported condition {core.src(t)}")

    # locals by role, so that a renamed local changes nothing: the two callees bound by the selector on 'value', the
    # targets of the loop over (tetrahedron frequencies, sort indices, central index) and the sorted-frequency alias
    ren = {}
    for n in ast.walk(pf):
        if isinstance(n, ast.Assign) and len(n.targets) == 1 and isinstance(n.targets[0], ast.Name):
            v_ = core.src(n.value)
            if v_ in ("self._I", "self._J"):
                ren[n.targets[0].id] = "IJ"
            elif v_ in ("self._g", "self._n"):
                ren[n.targets[0].id] = "gn"
        if isinstance(n, ast.For) and isinstance(n.iter, ast.Call) and core.src(n.iter.func) == "zip" and isinstance(n.target, ast.Tuple) and len(n.target.elts) == 3:
            for t_, role in zip(n.target.elts, ("omegas", "indices", "ci")):
                if isinstance(t_, ast.Name):
                    ren[t_.id] = role
    for n in ast.walk(pf):
        if isinstance(n, ast.Assign) and len(n.targets) == 1 and isinstance(n.targets[0], ast.Name):
            val = n.value
            if core.src(val) == "self._vertices_omegas" or (isinstance(val, ast.Subscript) and isinstance(val.value, ast.Name) and ren.get(val.value.id) == "omegas"):
                ren[n.targets[0].id] = "v"
    for p_ in pf.args.args[1:2]:
        ren[p_.arg] = "omega"

    class _Ren(ast.NodeTransformer):
        def visit_Name(self, node):
            return ast.copy_location(ast.Name(id=ren.get(node.id, node.id), ctx=node.ctx), node)

    def rsrc(node):
        import copy

        return core.src(_Ren().visit(copy.deepcopy(node)))

    # the second argument of IJ(k, .) must be the *rank* of the central vertex among the sorted frequencies, i.e. the
    # inverse of the sorting permutation applied to the central label -- decided by a small kind inference
    # (omegas / sorting permutation / its inverse / central label) through locals, zip targets and attributes
    cls_node = core.find_def(PY, CLS)

    def kind(e, fn_, depth=0):
        if depth > 8 or e is None:
            return None
        if isinstance(e, ast.Call) and core.src(e.func) in ("np.asarray", "np.array", "np.ascontiguousarray") and e.args:
            return kind(e.args[0], fn_, depth + 1)
        if isinstance(e, ast.Attribute) and core.src(e.value) == "self":
            if e.attr == "_tetrahedra_omegas":
                return "omegas"
            if e.attr == "_central_indices":
                return "central"
            vals = [st.value for st in ast.walk(cls_node) if isinstance(st, ast.Assign) and core.src(st.targets[0]) == core.src(e) and not (isinstance(st.value, ast.Constant) and st.value.value is None)]
            owners = [core.enclosing_function(st) for st in ast.walk(cls_node) if isinstance(st, ast.Assign) and core.src(st.targets[0]) == core.src(e) and not (isinstance(st.value, ast.Constant) and st.value.value is None)]
            ks = {kind(v, o, depth + 1) for v, o in zip(vals, owners)}
            return ks.pop() if len(ks) == 1 else None
        if isinstance(e, ast.Name):
            if fn_ is None:
                return None
            if e.id in {a.arg for a in fn_.args.args} and "omegas" in e.id:
                return "omegas"
            for lp in ast.walk(fn_):
                if isinstance(lp, ast.For) and isinstance(lp.iter, ast.Call) and core.src(lp.iter.func) == "zip" and isinstance(lp.target, ast.Tuple):
                    for t_, a_ in zip(lp.target.elts, lp.iter.args):
                        if isinstance(t_, ast.Name) and t_.id == e.id:
                            return kind(a_, fn_, depth + 1)
            asg = [st.value for st in ast.walk(fn_) if isinstance(st, ast.Assign) and len(st.targets) == 1 and isinstance(st.targets[0], ast.Name) and st.targets[0].id == e.id]
            ks = {kind(v, fn_, depth + 1) for v in asg}
            return ks.pop() if len(ks) == 1 else None
        if isinstance(e, ast.Call) and core.src(e.func) == "np.argsort" and e.args:
            k0 = kind(e.args[0], fn_, depth + 1)
            return {"omegas": "perm", "perm": "rank"}.get(k0)
        if isinstance(e, ast.Subscript):
            # np.where(perm == central)[0][0]
            inner = e
            while isinstance(inner, ast.Subscript):
                inner = inner.value
            if isinstance(inner, ast.Call) and core.src(inner.func) == "np.where" and inner.args and isinstance(inner.args[0], ast.Compare) and isinstance(inner.args[0].ops[0], ast.Eq):
                ks = {kind(inner.args[0].left, fn_, depth + 1), kind(inner.args[0].comparators[0], fn_, depth + 1)}
                return "inverse" if ks == {"perm", "central"} else None
            kb = kind(e.value, fn_, depth + 1)
            parts = e.slice.elts if isinstance(e.slice, ast.Tuple) else [e.slice]
            has_central = any(kind(p_, fn_, depth + 1) == "central" for p_ in parts)
            if kb == "perm" and has_central:
                return "direct"
            if kb == "rank" and has_central:
                return "inverse"
            return kb if not has_central else None
        if isinstance(e, ast.Call) and isinstance(e.func, ast.Attribute) and e.func.attr == "index" and e.args:
            k0 = kind(e.func.value.args[0] if isinstance(e.func.value, ast.Call) and e.func.value.args else e.func.value, fn_, depth + 1)
            return "inverse" if k0 == "perm" and kind(e.args[0], fn_, depth + 1) == "central" else None
        return None

    py_cases = []
    for n in ast.walk(pf):
        if isinstance(n, ast.If) and any(isinstance(s_, ast.AugAssign) for s_ in n.body):
            aug = [s_ for s_ in n.body if isinstance(s_, ast.AugAssign)][0]
            calls = [c for c in ast.walk(aug.value) if isinstance(c, ast.Call) and isinstance(c.func, ast.Name)]
            ks_ = sorted({core.src(c.args[0]) for c in calls})
            callees = sorted(ren.get(c.func.id, c.func.id) for c in calls)
            ij_calls = [c for c in calls if ren.get(c.func.id, c.func.id) == "IJ" and len(c.args) >= 2]
            rk = {kind(c.args[1], pf) for c in ij_calls}
            if rk - {"inverse", "direct"}:
                raise AnalysisError(f"R11g: cannot tell what the second argument of {core.norm(core.src(ij_calls[0]), 50) if ij_calls else 'IJ'} is (rank of the central vertex expected)")
            py_cases.append((frozenset(py_atoms(n.test)), ks_, callees, "+=" if isinstance(aug.op, ast.Add) else "?", rk == {"inverse"}))
    if len(c_cases) != 5 or len(py_cases) != 5:
        raise AnalysisError(f"case split: found {len(c_cases)} C cases and {len(py_cases)} Python cases, expected 5 and 5")
    for k, (cc, pc) in enumerate(zip(c_cases, py_cases)):
        ok = cc == pc and cc[1] == [str(k)] and cc[2] == ["IJ", "gn"] and cc[3] == "+=" and cc[4]
        rep.instance("R11g", CF, "get_integration_weight", f"case {k}: C {sorted(cc[0])} k={cc[1]} / Py {sorted(pc[0])} k={pc[1]}", ok,
                     "the C and Python case splits on omega differ, or case k does not accumulate IJ(k, position of the central vertex) * gn(k)", line=tu.line(fn))
    # both divide by 6 and select (g, I) for 'I' and (n, J) otherwise
    def one_sixth(texts, acc_names):
        """every returned expression is (the accumulator) / 6, in whatever arithmetic form"""
        if not texts:
            return False
        for t in texts:
            try:
                e = symalg.open_expr(t)
            except AnalysisError:
                return False
            accs = [x for x in e.free_symbols if str(x) in acc_names]
            if len(accs) != 1:
                return False
            r = sp.simplify(e / accs[0])
            if r.free_symbols or abs(float(r) - 1.0 / 6) > 1e-15:
                return False
        return True

    rets = [ctext(cast.kids(x)[0]) for x in cast.walk(fn) if x.get("kind") == "ReturnStmt"]
    rep.instance("R11g", CF, "get_integration_weight", str(rets), one_sixth(rets, {"sum"}), "C sum over the 24 tetrahedra is not divided by 6", line=tu.line(fn))
    prets = [core.src(n.value) for n in ast.walk(pf) if isinstance(n, ast.Return)]
    py_acc = {core.src(a.target) for a in ast.walk(pf) if isinstance(a, ast.AugAssign) and isinstance(a.target, ast.Name)}
    rep.instance("R11g", PY, f"{CLS}._get_integration_weight_py", str(prets), one_sixth(prets, py_acc), "Python sum over the 24 tetrahedra is not divided by 6", line=pf.lineno)
    sel = tu.functions.get("thm_get_integration_weight")
    if sel is None:
        raise AnalysisError("anchor vanished: thm_get_integration_weight")
    sp_ = [p_.get("name") for p_ in cast.params(sel)]
    sren = {nm_: f"p{i_}" for i_, nm_ in enumerate(sp_)}

    def stext(e):
        return re.sub(r"\b[A-Za-z_]\w*\b", lambda m: sren.get(m.group(0), m.group(0)), cast.text(e))

    calls = [stext(cast.kids(x)[0]) for x in cast.walk(sel) if x.get("kind") == "ReturnStmt"]
    conds = [stext(cast.kids(x)[0]) for x in cast.walk(sel) if x.get("kind") == "IfStmt"]
    rep.instance("R11g", CF, "thm_get_integration_weight", f"{conds} -> {calls}",
                 conds == ["p2 == 'I'"] and calls == ["get_integration_weight(p0, p1, _g, _I)", "get_integration_weight(p0, p1, _n, _J)"],
                 "C selector does not pair 'I' with (_g, _I) and otherwise (_n, _J)", line=tu.line(sel))
    sel_py = {}
    for n in ast.walk(pf):
        if isinstance(n, ast.If) and len(pf.args.args) > 2 and core.src(n.test) == f"{pf.args.args[2].arg} == 'I'":
            sel_py["I"] = sorted(core.src(s) for s in n.body)
            sel_py["else"] = sorted(core.src(s) for s in n.orelse)
    # by role: the two names bound in the selector are the callees of the product that each case adds
    vals_I = sorted(x.split("=")[1].strip() for x in sel_py.get("I", []))
    vals_E = sorted(x.split("=")[1].strip() for x in sel_py.get("else", []))
    rep.instance("R11g", PY, f"{CLS}._get_integration_weight_py", str(sel_py), vals_I == ["self._I", "self._g"] and vals_E == ["self._J", "self._n"] and [x.split("=")[0].strip() for x in sel_py.get("I", [])] == [x.split("=")[0].strip() for x in sel_py.get("else", [])],
                 "Python selector does not pair 'I' with (_g, _I) and otherwise (_n, _J)", line=pf.lineno)


# ---------------------------------------------------------------------------
# R11h epsilon guards
# ---------------------------------------------------------------------------


def _r11h(rep, C: CSide):
    seen = set()
    for nm, conds, expr in C.guards:
        if (nm, conds) in seen:
            continue
        seen.add((nm, conds))
        true_conds = [c for c, t in conds if t]
        ok = expr == 0 and len(true_conds) == 1 and (
            re.fullmatch(r"fabs\([A-Za-z_]\w*\) < 1\.0*E-10", true_conds[0]) is not None or re.fullmatch(r"[a-z]\w* < 1\.0*E-10", true_conds[0]) is not None
        )
        rep.instance("R11h", CF, nm, f"guard {true_conds} -> return {expr}", ok,
                     "an early return of the closed form is not the documented epsilon guard (|delta| < THM_EPSILON or the divisor n/g < THM_EPSILON -> 0)", line=C.tu.line(C.tu.functions[nm]))
    cm = core.read("CMakeLists.txt")
    targets = re.findall(r"add_library\(\s*(\w+)[^)]*\$\{SOURCES_PHONOPY\}", cm)
    defs = re.findall(r"target_compile_definitions\(\s*(\w+)\s+\w+\s+THM_EPSILON=([0-9.eE+-]+)\)", cm)
    n_lib = len(re.findall(r"add_library\(\s*phonopy_libs", cm))
    n_def = len([d for d in defs if d[0] == "phonopy_libs"])
    vals = {d[1] for d in defs}
    rep.instance("R11h", "CMakeLists.txt", "phonopy_libs", f"{n_lib} add_library(phonopy_libs ...) / {n_def} THM_EPSILON definitions {sorted(vals)}", n_lib >= 1 and n_def == n_lib and vals == {"1e-10"},
                 "a build variant compiles tetrahedron_method.c without THM_EPSILON=1e-10: the C kernel then divides by zero for degenerate vertices where the other variant returns 0")


def _r11j(rep):
    import sympy as sp

    from engine import celem

    tu = cast.load(CF)
    ex = celem.ElemExec(tu, where=CF)
    # the choice of the main diagonal, whatever helpers compute it: (1) the four lengths that are compared are
    # |rec_lattice . d_i|^2 with d_i row i of the table of main diagonals (closed form of every value returned by the
    # squared-norm helper inside get_main_diagonal), (2) the returned index is that of the first smallest length, for
    # every ordering of four lengths (the lengths are touched only through comparisons: the function is evaluated on
    # the 256 rank vectors in {0..3}^4)
    af = sp.Function("a")
    if "get_main_diagonal" not in tu.functions or "norm_squared_d3" not in tu.functions:
        raise AnalysisError("R11j: get_main_diagonal / norm_squared_d3 vanished from c/tetrahedron_method.c")
    seen_len = []
    exl = celem.ElemExec(tu, where=CF, opaque_merge=True, call_hook=lambda nm_, v_, st_: seen_len.append(v_) if nm_ == "norm_squared_d3" and st_.fname == "get_main_diagonal" else None)
    exl.function("get_main_diagonal")
    rl, mdg = sp.Function("rec_lattice"), sp.Function("main_diagonals")
    want_len = [sp.expand(sum(sum(rl(r, c) * mdg(d, c) for c in range(3)) ** 2 for r in range(3))) for d in range(4)]
    got_len = [sp.expand(v_) for v_ in seen_len]
    ok_len = got_len == want_len
    bad_d = next((d for d in range(min(4, len(got_len))) if got_len[d] != want_len[d]), None)
    rep.instance("R11j", CF, "get_main_diagonal", f"{len(got_len)} lengths compared: |rec_lattice . main_diagonals[d]|^2 for d = 0..3 in this order", ok_len,
                 f"the length computed for main diagonal {bad_d} is {str(got_len[bad_d])[:160] if bad_d is not None else '<' + str(len(got_len)) + ' lengths>'}, not the squared length of sum_c rec_lattice[r][c] d[c] (the reciprocal basis vectors are the columns of rec_lattice, as in the Python implementation): for a non-orthogonal lattice another diagonal is taken for the shortest and the C and Python weights differ", line=tu.line(tu.functions["get_main_diagonal"]))
    import itertools

    wrong = []
    for ranks in itertools.product(range(4), repeat=4):
        it_ = iter(ranks)
        exr = celem.ElemExec(tu, where=CF, call_hook=lambda nm_, v_, st_: sp.Integer(next(it_)) if nm_ == "norm_squared_d3" and st_.fname == "get_main_diagonal" else None)
        r_ = exr.function("get_main_diagonal").ret
        if r_ != ranks.index(min(ranks)):
            wrong.append((ranks, r_))
    rep.instance("R11j", CF, "get_main_diagonal", "returns the index of the first smallest of the four lengths (evaluated on all 256 rank vectors)", not wrong,
                 f"for lengths ordered like {wrong[0][0] if wrong else ''} the function returns {wrong[0][1] if wrong else ''}; {len(wrong)} of 256 orderings differ from 'first minimum' (numpy.argmin in the Python implementation)", line=tu.line(tu.functions["get_main_diagonal"]))
    ns = ex.function("norm_squared_d3")
    rep.instance("R11j", CF, "norm_squared_d3", f"returns {ns.ret}", ns.ret is not None and sp.expand(ns.ret - sum(af(c) ** 2 for c in range(3))) == 0, "the squared length of a diagonal is not a0^2 + a1^2 + a2^2", line=tu.line(tu.functions["norm_squared_d3"]))
    # table getters
    md = sp.Symbol("main_diag_index", integer=True)
    db = sp.Function("db_relative_grid_address")
    g1 = tu.functions.get("thm_get_relative_grid_address")
    st = celem.State(ex, "thm_get_relative_grid_address", {"main_diag_index": md}, {}, 0)
    loops = [x for x in cast.kids(cast.body(g1)) if x.get("kind") == "ForStmt"]
    st.block(loops)
    cells = {tuple(int(x) for x in p): v for p, _, v in st.cells.get("relative_grid_address", []) if all(x.is_Integer for x in p)}
    ok1 = len(cells) == 288 and all(cells.get((i, j, k)) == db(md, i, j, k) for i in range(24) for j in range(4) for k in range(3))
    rep.instance("R11j", CF, "thm_get_relative_grid_address", f"{len(cells)} cells: relative_grid_address[i][j][k] = db_relative_grid_address[main_diag_index][i][j][k]", ok1,
                 "the table of the chosen main diagonal is not copied entry by entry (an index is swapped or a loop is shortened/overrun)", line=tu.line(g1))
    calls = [cast.callee_name(c) for c in cast.walk(g1) if c.get("kind") == "CallExpr"]
    rep.instance("R11j", CF, "thm_get_relative_grid_address", f"main_diag_index = {calls}(rec_lattice)", calls == ["get_main_diagonal"], "the main diagonal is not chosen by get_main_diagonal(rec_lattice)", line=tu.line(g1))
    g4 = ex.function("thm_get_all_relative_grid_address")
    cells4 = {tuple(int(x) for x in p): v for p, _, v in g4.cells.get("relative_grid_address", []) if all(x.is_Integer for x in p)}
    ok4 = len(cells4) == 1152 and all(cells4.get((d, i, j, k)) == db(d, i, j, k) for d in range(4) for i in range(24) for j in range(4) for k in range(3))
    rep.instance("R11j", CF, "thm_get_all_relative_grid_address", f"{len(cells4)} cells copied to the same position", ok4, "the four tables are not copied entry by entry", line=tu.line(tu.functions["thm_get_all_relative_grid_address"]))
    # get_integration_weight: vertex copy and IJ * gn
    giw = tu.functions["get_integration_weight"]
    roles = _giw_roles(giw)

    def rtext(e):
        return re.sub(r"\b[A-Za-z_]\w*\b", lambda m: roles.get(m.group(0), m.group(0)), cast.text(e)).replace(" ", "")

    copies = [x for x in cast.walk(giw) if x.get("kind") == "BinaryOperator" and x.get("opcode") == "=" and rtext(cast.kids(x)[0]).startswith("v[")]
    ok_copy = False
    if len(copies) == 1:
        m_l = re.fullmatch(r"v\[(\w+)\]", rtext(cast.kids(copies[0])[0]))
        m_r = re.fullmatch(r"tetrahedra_omegas\[(\w+)\]\[(\w+)\]", rtext(cast.kids(copies[0])[1]))
        ok_copy = bool(m_l and m_r and m_l.group(1) == m_r.group(2) and m_r.group(1) != m_r.group(2))
    acc = [x for x in cast.walk(giw) if x.get("kind") == "CompoundAssignOperator" and rtext(cast.kids(x)[0]) == "sum"]
    prods = []
    for x in acc:
        rhs = cast.strip(cast.kids(x)[1])
        ks = [cast.strip(y) for y in cast.kids(rhs)] if rhs.get("kind") == "BinaryOperator" and rhs.get("opcode") == "*" else []
        prods.append(x.get("opcode") == "+=" and len(ks) == 2 and sorted(rtext(cast.kids(y)[0]) for y in ks if y.get("kind") == "CallExpr") == ["IJ", "gn"])
    rep.instance("R11j", CF, "get_integration_weight", f"v[j] = tetrahedra_omegas[i][j]; {len(acc)} cases add IJ(...) * gn(...)", ok_copy and len(acc) == 5 and all(prods),
                 "the vertex frequencies of tetrahedron i are not copied in order, or a case does not add the product IJ * gn", line=tu.line(giw))
    # Python side of the same two facts
    pf = core.find_def(PY, f"{CLS}._get_integration_weight_py")
    # by role: the accumulator is the local that is returned (divided by 6); the two callees are the names bound in
    # the selector, the one with two arguments being IJ
    prets_ = [r.value for r in ast.walk(pf) if isinstance(r, ast.Return) and r.value is not None]
    augd_ = {core.src(a.target) for a in ast.walk(pf) if isinstance(a, ast.AugAssign)}
    accn = sorted({x.id for r in prets_ for x in ast.walk(r) if isinstance(x, ast.Name) and x.id in augd_})
    if len(accn) != 1:
        raise AnalysisError("R11j: _get_integration_weight_py does not return its accumulator")
    pacc = [a for a in ast.walk(pf) if isinstance(a, ast.AugAssign) and core.src(a.target) == accn[0]]
    pprods = []
    for a in pacc:
        v = a.value
        ok_ = isinstance(a.op, ast.Add) and isinstance(v, ast.BinOp) and isinstance(v.op, ast.Mult) and isinstance(v.left, ast.Call) and isinstance(v.right, ast.Call) and sorted([len(v.left.args), len(v.right.args)]) == [1, 2] and core.src(v.left.func) != core.src(v.right.func)
        if ok_:
            ij, gn_ = (v.left, v.right) if len(v.left.args) == 2 else (v.right, v.left)
            ok_ = core.src(ij.args[0]) == core.src(gn_.args[0])
        pprods.append(ok_)
    rep.instance("R11j", PY, f"{CLS}._get_integration_weight_py", f"{len(pacc)} cases add IJ(k, position of the central vertex) * gn(k)", len(pacc) == 5 and all(pprods), "a case of the Python reference does not add the product IJ(k, .) * gn(k)", line=pf.lineno)
    rp = core.find_def(PY, f"{CLS}._run_py")
    loops = [lp for lp in ast.walk(rp) if isinstance(lp, ast.For) and isinstance(lp.iter, ast.Call) and core.src(lp.iter.func) == "enumerate" and isinstance(lp.target, ast.Tuple)]
    ok_rp = False
    if len(loops) == 1:
        iv, ov = core.src(loops[0].target.elts[0]), core.src(loops[0].target.elts[1])
        stores = [st_ for st_ in loops[0].body if isinstance(st_, ast.Assign) and isinstance(st_.targets[0], ast.Subscript)]
        ok_rp = len(stores) == 1 and core.src(stores[0].targets[0].slice) == iv and isinstance(stores[0].value, ast.Call) and core.src(stores[0].value.func) == "self._get_integration_weight_py" and core.src(stores[0].value.args[0]) == ov and core.src(loops[0].iter.args[0]) == rp.args.args[1].arg
    rep.instance("R11j", PY, f"{CLS}._run_py", "iw[i] = weight(omegas[i]) for every frequency point", ok_rp, "the Python path does not store the weight of frequency point i at position i", line=rp.lineno)


def selftest():
    V = []
    b = lambda name, file, old, new, rule, expect="", **kw: V.append(dict(name=name, kind="break", file=file, old=old, new=new, rule=rule, expect=expect, **kw))
    n = lambda name, file, old, new, **kw: V.append(dict(name=name, kind="neutral", file=file, old=old, new=new, **kw))
    b("direction weight from the square instead of the modulus squared", "phonopy/phonon/dos.py", "                self._eigvecs2 = np.abs(proj_eigvecs) ** 2", "                self._eigvecs2 = (proj_eigvecs * proj_eigvecs).real", "R11t", "direction")
    n("direction weight as z times its conjugate", "phonopy/phonon/dos.py", "                self._eigvecs2 = np.abs(proj_eigvecs) ** 2", "                self._eigvecs2 = (proj_eigvecs * proj_eigvecs.conj()).real")
    b("direction used without normalisation", "phonopy/phonon/dos.py", "                d /= np.linalg.norm(direction)\n", "", "R11t", "direction")
    b("atom weight misses the z component", "phonopy/phonon/dos.py", "                self._eigvecs2 += np.abs(self._eigenvectors[:, i_z, :]) ** 2", "                self._eigvecs2 += np.abs(self._eigenvectors[:, i_y, :]) ** 2", "R11t", "atoms")
    b("projected tetrahedron DOS contracts the component axis", "phonopy/phonon/dos.py", "            self._projected_dos += np.dot(iw * w, self._eigvecs2[i].T).T", "            self._projected_dos += np.dot(iw * w, self._eigvecs2[i]).T", "R11r", "_run_tetrahedron_method")
    b("projected smearing DOS selects the band axis", "phonopy/phonon/dos.py", "                    weights, self._eigvecs2[:, j, :] * amplitudes", "                    weights, self._eigvecs2[:, :, j] * amplitudes", "R11r", "_run_smearing_method")
    b("C _J_11 uses the wrong vertex pair", CF, "static double _J_11(const double omega, const double vertices_omegas[4]) {\n    return _f(1, 0, omega, vertices_omegas) / 4;", "static double _J_11(const double omega, const double vertices_omegas[4]) {\n    return _f(0, 1, omega, vertices_omegas) / 4;", "R11a", "_J_11")
    b("Python _I_12 divides by 4", PY, "    def _I_12(self):\n        return self._f(2, 0) / 3", "    def _I_12(self):\n        return self._f(2, 0) / 4", "R11a", "_I_12")
    b("both languages: n_3 with the wrong sign (sum rule only)", CF, "    return (1.0 - _f(0, 3, omega, vertices_omegas) *", "    return (1.0 + _f(0, 3, omega, vertices_omegas) *", "R11b", "n_3", edits=[
        dict(file=CF, old="    return (1.0 - _f(0, 3, omega, vertices_omegas) *", new="    return (1.0 + _f(0, 3, omega, vertices_omegas) *", nth=0),
        dict(file=PY, old="        return 1.0 - self._f(0, 3) * self._f(1, 3) * self._f(2, 3)", new="        return 1.0 + self._f(0, 3) * self._f(1, 3) * self._f(2, 3)")])
    b("C dispatch maps (2,1) to _J_22", CF, "                case 1:\n                    return _J_21(omega, vertices_omegas);", "                case 1:\n                    return _J_22(omega, vertices_omegas);", "R11g", "_J")
    b("C case split boundary", CF, "            if (v[0] < omega && omega < v[1]) {", "            if (v[0] < omega && omega < v[2]) {", "R11g", "case 1")
    b("sorting network: missing relabel", CF, "        if (i == 4) {\n            i = 2;\n        }", "        if (i == 4) {\n            i = 1;\n        }", "R11f", "ordering")
    b("tetrahedra table entry", CF, "            {0, 0, 0},\n            {1, 0, 0},\n            {1, 1, 0},\n            {1, 1, 1},\n", "            {0, 0, 0},\n            {1, 0, 0},\n            {1, 1, 0},\n            {0, 1, 1},\n", "R11c", "main diagonal", nth=0)
    b("Cauchy kernel without 1/pi", DOS, "        return self._gamma / np.pi / (x**2 + self._gamma**2)", "        return self._gamma / (x**2 + self._gamma**2)", "R11d", "CauchyDistribution")
    b("smearing total DOS normalised by the number of q-points", DOS, "        ) / np.sum(self._weights)", "        ) / len(self._weights)", "R11e", "_get_density_of_states_at_freq")
    b("compiled DOS normalised twice", DOS, "        return dos.sum(axis=0).sum(axis=0) / np.prod(mesh)", "        return dos.sum(axis=0).sum(axis=0) / np.prod(mesh) / np.prod(mesh)", "R11e", "run_tetrahedron_method_dos")
    b("iterator: band skipped outside the frequency window", "phonopy/phonon/tetrahedron_mesh.py", "                iw = self._tm.get_integration_weight()\n", "                iw = self._tm.get_integration_weight() if frequencies.min() <= self._frequency_points.max() else 0\n", "R11i", "__next__")
    b("THM_EPSILON missing for the static library", "CMakeLists.txt", "    target_compile_definitions(phonopy_libs PRIVATE THM_EPSILON=1e-10)\nelse", "else", "R11h", "phonopy_libs", nth=0)
    n("Python _n_1 factors reordered", PY, "        return self._f(1, 0) * self._f(2, 0) * self._f(3, 0)", "        return self._f(3, 0) * self._f(1, 0) * self._f(2, 0)")
    n("case split written as a chained comparison", PY, "            elif v[0] < omega and omega < v[1]:", "            elif v[0] < omega < v[1]:")
    b("table copy swaps tetrahedron and vertex index", CF, "                relative_grid_address[i][j][k] =\n                    db_relative_grid_address[main_diag_index][i][j][k];", "                relative_grid_address[i][j][k] =\n                    db_relative_grid_address[main_diag_index][i][k][j];", "R11j", "thm_get_relative_grid_address")
    b("weight case divides instead of multiplying", CF, "                    sum += IJ(2, ci, omega, v) * gn(2, omega, v);", "                    sum += IJ(2, ci, omega, v) / gn(2, omega, v);", "R11j", "get_integration_weight")
    b("matrix-vector product sign", CF, "        c[i] = a[i][0] * b[0] + a[i][1] * b[1] + a[i][2] * b[2];", "        c[i] = a[i][0] * b[0] - a[i][1] * b[1] + a[i][2] * b[2];", "R11j", "get_main_diagonal")
    b("last of equal main diagonals instead of the first", CF, "        if (min_length > length) {", "        if (min_length >= length) {", "R11j", "first smallest")
    b("total smearing DOS only over modes near the frequency point", DOS, "self._smearing_function.calc(self._frequencies - f)", "self._smearing_function.calc(self._frequencies[abs(self._frequencies - f) < 10 * self._sigma] - f)", "R11k", "calc")
    b("tetrahedron DOS without the multiplicity", "c/phonopy.c", "                                                'I') *\n                     weights[i];", "                                                'I');", "R11l", "")
    b("tetrahedron DOS reads the frequency of another band", "c/phonopy.c", "tetrahedra[l][q] = frequencies[ir_gps[l][q] * num_band + k];", "tetrahedra[l][q] = frequencies[ir_gps[l][q] * num_band + l];", "R11l", "dos[i,k,j,m]")
    b("tetrahedron DOS: weight of a new irreducible point starts at 0", "c/phonopy.c", "            weights[count] = 1;", "            weights[count] = 0;", "R11l", "tables")
    b("tetrahedron DOS: vertices of tetrahedron l taken from the transposed table", "c/phonopy.c", "                                relative_grid_address[l][q][r];", "                                relative_grid_address[q][l][r];", "R11l", "dos[i,k,j,m]")
    b("grid index with the strides of the two lower components swapped", "c/rgrid.c", "    return (address[2] * mesh[0] * (int64_t)(mesh[1]) + address[1] * mesh[0] +\n            address[0]);", "    return (address[2] * mesh[0] + address[1]) * mesh[1] + address[0];", "R11m", "returns")
    n("grid index in Horner form", "c/rgrid.c", "    return (address[2] * mesh[0] * (int64_t)(mesh[1]) + address[1] * mesh[0] +\n            address[0]);", "    return (address[2] * mesh[1] + address[1]) * mesh[0] + address[0];")
    return V
