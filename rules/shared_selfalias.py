"""Shared rule (C18 R18i): an element of a sequence is not the operand of an in-place update that runs over itself.

``ref = xs[0]`` (a view, no copy) followed by ``for x in xs: x -= ref`` changes ``ref`` in the first pass (to zero for
``-=``), and every later element is updated with the changed value: the result differs from "subtract the first element
from all", and nothing raises.  The same holds for ``xs[i] -= xs[0]`` with i running from 0.  Whole-array updates
(``xs -= xs[0]``) are left alone: numpy detects the overlap and takes the operand from a temporary copy.

Tracked per function: names bound to ``X[c]`` (c an integer literal, X a name) without a copy, and the expression
``X[c]`` itself; an in-place update (augmented assignment) of

  * the loop variable of ``for v in X`` / ``for v in X[a:]`` (numpy rows are views: ``v -= ...`` writes into X), or
  * ``X[i]`` with i the loop variable of ``for i in range(a, ...)`` / ``range(n)`` / ``enumerate(X)``,

whose right-hand side mentions such an alias of X[c], is reported when the iteration covers index c (a <= c; negative c
is always covered unless the loop provably stops before it, which is not tracked: reported).  A copy
(``X[c].copy()``, ``np.array(X[c])``, ``+ 0``, arithmetic) makes the operand fresh.
"""

from __future__ import annotations

import ast

from engine import core
from engine.core import AnalysisError

_FRESH_CALLS = {"np.array", "np.copy", "copy.copy", "copy.deepcopy", "list", "np.zeros_like", "np.ones_like"}


def _elem_of(e):
    """(container text, index) when e is X[c] / X[c, ...] with an integer literal c"""
    if isinstance(e, ast.Subscript):
        sl = e.slice.elts[0] if isinstance(e.slice, ast.Tuple) and e.slice.elts else e.slice
        c = None
        if isinstance(sl, ast.Constant) and isinstance(sl.value, int) and not isinstance(sl.value, bool):
            c = sl.value
        elif isinstance(sl, ast.UnaryOp) and isinstance(sl.op, ast.USub) and isinstance(sl.operand, ast.Constant) and isinstance(sl.operand.value, int):
            c = -sl.operand.value
        if c is not None and isinstance(e.value, (ast.Name, ast.Attribute)):
            return core.src(e.value), c
    return None


def _start_of(it, loopvar_is_index):
    """(container text | None, first index covered) for the iterable of a for statement"""
    if isinstance(it, ast.Call) and core.src(it.func) == "range":
        if len(it.args) == 1:
            return None, 0
        a = it.args[0]
        if isinstance(a, ast.Constant) and isinstance(a.value, int):
            return None, a.value
        return None, None  # unknown start: cannot say that an index is excluded; not reported
    if isinstance(it, ast.Call) and core.src(it.func) == "enumerate" and it.args:
        c, s = _start_of(it.args[0], False)
        return c, s
    if isinstance(it, ast.Subscript) and isinstance(it.slice, ast.Slice) and isinstance(it.value, (ast.Name, ast.Attribute)):
        lo = it.slice.lower
        if it.slice.step is not None:
            return core.src(it.value), None
        if lo is None:
            return core.src(it.value), 0
        if isinstance(lo, ast.Constant) and isinstance(lo.value, int) and lo.value >= 0:
            return core.src(it.value), lo.value
        return core.src(it.value), None
    if isinstance(it, (ast.Name, ast.Attribute)):
        return core.src(it), 0
    return None, None


def _scan(tree):
    """[(function, augmented assignment, container, index, alias text)] for every finding"""
    out = []
    for fn in [n for n in ast.walk(tree) if isinstance(n, (ast.FunctionDef, ast.AsyncFunctionDef))]:
        aliases = {}  # local name -> (container, index)
        rebound = {}
        for st in ast.walk(fn):
            if isinstance(st, ast.Assign) and len(st.targets) == 1 and isinstance(st.targets[0], ast.Name):
                rebound[st.targets[0].id] = rebound.get(st.targets[0].id, 0) + 1
                el = _elem_of(st.value)
                if el:
                    aliases[st.targets[0].id] = el
        aliases = {k: v for k, v in aliases.items() if rebound.get(k) == 1}
        for loop in [n for n in ast.walk(fn) if isinstance(n, ast.For)]:
            cont, start = _start_of(loop.iter, False)
            tgt = loop.target
            idx_name = row_name = None
            if isinstance(loop.iter, ast.Call) and core.src(loop.iter.func) == "range" and isinstance(tgt, ast.Name):
                idx_name = tgt.id
            elif isinstance(loop.iter, ast.Call) and core.src(loop.iter.func) == "enumerate" and isinstance(tgt, ast.Tuple) and len(tgt.elts) == 2 and all(isinstance(x, ast.Name) for x in tgt.elts):
                idx_name, row_name = tgt.elts[0].id, tgt.elts[1].id
            elif isinstance(tgt, ast.Name):
                row_name = tgt.id
            if start is None:
                continue
            for aug in [n for n in ast.walk(loop) if isinstance(n, ast.AugAssign)]:
                t = aug.target
                updated = None  # container whose element is updated in place
                if isinstance(t, ast.Name) and t.id == row_name and cont is not None:
                    updated = cont
                elif isinstance(t, ast.Subscript) and isinstance(t.value, (ast.Name, ast.Attribute)):
                    sl = t.slice.elts[0] if isinstance(t.slice, ast.Tuple) and t.slice.elts else t.slice
                    if isinstance(sl, ast.Name) and sl.id == idx_name:
                        updated = core.src(t.value)
                if updated is None:
                    continue
                for x in ast.walk(aug.value):
                    hit = None
                    if isinstance(x, ast.Name) and x.id in aliases and aliases[x.id][0] == updated:
                        hit = (aliases[x.id], x.id)
                    elif isinstance(x, ast.Subscript) and _elem_of(x) and _elem_of(x)[0] == updated:
                        hit = (_elem_of(x), core.src(x))
                    if hit is None:
                        continue
                    # a fresh copy around the alias: X[c].copy(), np.array(X[c])
                    par = getattr(x, "_parent", None)
                    if isinstance(par, ast.Attribute) and par.attr in ("copy",):
                        continue
                    if isinstance(par, ast.Call) and core.src(par.func) in _FRESH_CALLS:
                        continue
                    (c_, k_), txt = hit
                    if k_ < 0 or k_ >= start:
                        out.append((fn, aug, c_, k_, txt))
    return out


_CONTROL = '''
def bad(xs):
    ref = xs[0]
    for x in xs:
        x -= ref
    return xs[1:]

def good(xs):
    for i in range(1, len(xs)):
        xs[i] -= xs[0]
    return xs[1:]

def good2(xs):
    ref = xs[0].copy()
    for x in xs:
        x -= ref
    return xs[1:]
'''


def run(rep: core.Report, rid: str, scope: list[str]):
    rep.rule(rid, "no in-place update over a sequence uses an element of the same sequence, taken without a copy, as its operand while the iteration covers that element (ref = xs[0]; for x in xs: x -= ref changes ref in the first pass)", 0)
    t = ast.parse(_CONTROL)
    for n in ast.walk(t):
        for c in ast.iter_child_nodes(n):
            c._parent = n
    ctrl = sorted(f.name for f, *_ in _scan(t))
    if ctrl != ["bad"]:
        raise AnalysisError(f"{rid}: the rule no longer classifies its own examples (got {ctrl})")
    n_loops = 0
    for rel in scope:
        tree = core.parse(rel)
        found = _scan(tree)
        flagged = {id(a) for _, a, *_ in found}
        for fn in [n for n in ast.walk(tree) if isinstance(n, (ast.FunctionDef, ast.AsyncFunctionDef))]:
            for loop in [n for n in ast.walk(fn) if isinstance(n, ast.For)]:
                for aug in [n for n in ast.walk(loop) if isinstance(n, ast.AugAssign) and id(n) not in flagged]:
                    # in-place updates of elements inside loops that mention an element of a sequence: held instances
                    if any(_elem_of(x) for x in ast.walk(aug.value)) and isinstance(aug.target, (ast.Subscript, ast.Name)):
                        n_loops += 1
                        rep.instance(rid, rel, core.qualname_of(fn), core.norm(core.src(aug), 90), True, "", line=aug.lineno, nontrivial=False)
        for fn, aug, cont, k, txt in found:
            rep.instance(rid, rel, core.qualname_of(fn), core.norm(core.src(aug), 90), False,
                         f"'{core.norm(core.src(aug), 80)}' runs over the elements of '{cont}' including element {k}, and its operand '{txt}' is that element itself (no copy): once element {k} has been updated the remaining elements are updated with the changed value (for '-=' with zero, i.e. not at all) -- e.g. the residual forces of the perfect supercell are not subtracted from the force sets", line=aug.lineno)
