"""Shared rule (C14 R14j, C16 R16i, C18 R18g): same-name forwarding.

When a function (or method) has a parameter p and calls a function of the same module (or a method of the same class
through `self.`) that has a parameter of the same name p *with a default*, the call passes p on, by keyword or by
position.  Otherwise the callee's default silently replaces what the caller was told — an option requested by the user
has no effect on that path, and the same request acts differently on two access paths.  The repository's own code obeys
this at every one of the ~140 such call sites but one deliberate exception, which is the frozen table below (one named
site, one reason).  Reporting knobs (log_level, verbose, filename of a log) are not forwarded everywhere and change no
result; they are left out.
"""

from __future__ import annotations

import ast

from engine import core

SKIP = {"log_level", "verbose", "filename"}
EXCEPTIONS = {
    ("phonopy/api_phonopy.py", "ph2ph", "_copy", "supercell_matrix"): "ph_copy = self._copy() is the copy of this object with its own supercell on purpose; the second call, self._copy(supercell_matrix), forwards the argument",
}


def run(rep: core.Report, rid: str, rel: str, cls: str | None, floor: int):
    rep.rule(rid, "same-name forwarding: a parameter the caller holds is passed on to a callee of the same module / class that has a parameter of the same name with a default, so that the callee's default never replaces what the caller was told", floor)
    tree = core.parse(rel)
    if cls:
        c = core.find_def(rel, cls)
        defs = {m.name: m for m in c.body if isinstance(m, ast.FunctionDef) and not core._is_property_setter(m)}
    else:
        defs = {n.name: n for n in tree.body if isinstance(n, ast.FunctionDef)}
    for f in defs.values():
        fparams = {a.arg for a in f.args.args + f.args.kwonlyargs} - {"self"}
        for c in ast.walk(f):
            if not isinstance(c, ast.Call):
                continue
            name = None
            if cls and isinstance(c.func, ast.Attribute) and core.src(c.func.value) == "self":
                name = c.func.attr
            if not cls and isinstance(c.func, ast.Name):
                name = c.func.id
            if name not in defs or name == f.name:
                continue
            g = defs[name]
            gpos = [a.arg for a in g.args.args if a.arg != "self"]
            ndef = len(g.args.defaults)
            dflt = dict(zip(gpos[len(gpos) - ndef:], g.args.defaults))
            dflt.update({a.arg: d for a, d in zip(g.args.kwonlyargs, g.args.kw_defaults) if d is not None})
            if any(k.arg is None for k in c.keywords) or any(isinstance(a, ast.Starred) for a in c.args):
                continue
            bound = set(gpos[: len(c.args)]) | {k.arg for k in c.keywords}
            for p_ in sorted((fparams & set(dflt)) - SKIP):
                if (rel, f.name, name, p_) in EXCEPTIONS and p_ not in bound:
                    # the listed site itself; a second call of the same callee in the same function is still checked
                    others = [c2 for c2 in ast.walk(f) if isinstance(c2, ast.Call) and c2 is not c and core.src(c2.func) == core.src(c.func)]
                    if any(p_ in (set(gpos[: len(c2.args)]) | {k.arg for k in c2.keywords}) for c2 in others):
                        continue
                rep.instance(rid, rel, (cls + "." if cls else "") + f.name, f"{name}(... {p_} ...) called from {f.name}", p_ in bound,
                             f"{f.name} has '{p_}' but calls {name} without it, so {name} uses its default {core.src(dflt[p_])}: what the caller asked for is replaced by the callee's assumption on this path, and the same request acts differently on two routes", line=c.lineno)
