"""C06 -- force constants <-> dynamical matrices at commensurate points: the inverse-pair clauses (DESIGN section 3 C06).

Decided: the inverse transform (C kernel and Python) is term by term the counterpart of the forward transform --
conjugate phase over the same shortest-vector images with the same multiplicity average, Re(D e^{i phi}), mass factor
sqrt(m m') against 1/sqrt(m m'), 1/N with N = number of primitive cells = number of commensurate points summed --
and the integer commensurate points enumerate range(D0) x range(D1) x range(D2) of the Smith normal form once each.
Not decided: distinctness modulo reciprocal lattice vectors, numeric equality after a round trip, ph2ph.
"""

from __future__ import annotations

import ast

import sympy as sp

from engine import cast, celem, core, symalg
from engine.core import AnalysisError

DYN = "c/dynmat.c"
D2F = "phonopy/harmonic/dynmat_to_fc.py"
PYDM = "phonopy/harmonic/dynamical_matrix.py"


def _sum_parts(e):
    """(summand, [(var, lo, hi), ...]) of nested Sum; (e, []) otherwise."""
    lims = []
    while isinstance(e, sp.Sum):
        lims += list(e.limits)
        e = e.function
    return e, lims


def _trig_arg(e, fn):
    atoms = [a for a in e.atoms(fn)]
    if len(atoms) != 1:
        return None
    return atoms[0].args[0]


def forward_kernel(rep, rid, tu, ex):
    """Rules on the forward kernel shared by C06 (R06b) and C02 (R02a): per-image contribution of get_dm for all nine
    Cartesian components, with and without the Wang addend, and the mass factor / output loops of get_dynmat_ij.
    Returns (cos part, sin part, image loop variable) of the phase factor."""
    i, j, k, n, ns = sp.symbols("i j k num_patom num_satom", integer=True)
    fcf, multi_f, svec_f, dmf0, csf = sp.Function("fc"), sp.Function("multi"), sp.Function("svecs"), sp.Function("dm"), sp.Function("charge_sum")
    gdm = tu.functions["get_dm"]
    fline = tu.line(gdm)
    f_pair = k * n + i
    Mf, adrs_f = multi_f(f_pair, 0), multi_f(f_pair, 1)
    result = None
    for arm, exa in (("without NAC addend", ex), ("with the Wang addend", celem.ElemExec(tu, where=DYN, consts=ex.consts, nonnull_pointers={"charge_sum"}))):
        fw = exa.function("get_dm", scalars={"i": i, "j": j, "k": k, "num_patom": n, "num_satom": ns})
        bad = []
        lvf = sp.Symbol("l", integer=True)
        want_f = 2 * sp.pi * sum(sp.Function("q")(mm) * svec_f(adrs_f + lvf, mm) for mm in range(3))
        sre, sim = sp.cos(want_f), sp.sin(want_f)
        for l_ in range(3):
            for m_ in range(3):
                elem = fcf(sp.expand(sp.Function("p2s_map")(i) * ns * 9 + k * 9 + l_ * 3 + m_))
                if arm.startswith("with the"):
                    elem = elem + csf(sp.expand(i * n + j), l_, m_)
                for c_, trig in ((0, sre), (1, sim)):
                    want = dmf0(l_, m_, c_) + elem * sp.Sum(trig / Mf, (lvf, 0, Mf - 1))
                    if not celem.same(fw.cell("dm", l_, m_, c_), want):
                        bad.append((l_, m_, str(sp.expand(fw.cell("dm", l_, m_, c_)))[:160]))
        written = {tuple(str(x) for x in pat) for pat, _, _ in fw.cells.get("dm", [])}
        rep.instance(rid, DYN, "get_dm", f"{arm}: dm[a][b] += (fc[p2s(i)][k][a][b]{' + charge_sum[i,j][a][b]' if arm.startswith('with the') else ''}) (cos, sin)(+2 pi q.svecs[adrs + l]) averaged over multi[k*num_patom+i][0] vectors, all 9 (a, b); 18 cells written", not bad and len(written) == 18,
                     f"{arm}: for (a, b) = {bad[0][:2] if bad else ''} the contribution is {bad[0][2] if bad else ''} ({len(written)} cells written): not the force-constant element of that component times e^{{+2 pi i q.s}} averaged over the shortest vectors of (supercell atom k, primitive atom i)", line=fline)
        if result is None:
            result = (sre, sim, lvf)
    gij = tu.functions["get_dynmat_ij"]
    ctx = celem.State(ex, "get_dynmat_ij", {"i": i, "j": j, "num_patom": n}, {}, 0)
    ms = [x for x in cast.walk(gij) if x.get("kind") == "BinaryOperator" and x.get("opcode") == "=" and cast.text(cast.kids(x)[0]) == "mass_sqrt"]
    if len(ms) != 1:
        raise AnalysisError(f"{rid}: mass_sqrt assignment vanished in get_dynmat_ij")
    mval = ctx.expr(cast.kids(ms[0])[1])
    rep.instance(rid, DYN, "get_dynmat_ij", f"mass_sqrt = {mval}", sp.expand(mval**2 - sp.Function("mass")(i) * sp.Function("mass")(j)) == 0 and mval.is_Pow, "the forward mass factor is not sqrt(m_i m_j)", line=tu.line(ms[0]))
    # the statements around the image loop: dm zeroed for all 3x3x2 cells, then every cell divided by mass_sqrt into D
    top = cast.kids(cast.body(gij))
    loops = [x for x in top if x.get("kind") == "ForStmt"]
    img = [x for x in loops if any(y.get("kind") == "CallExpr" and cast.callee_name(y) == "get_dm" for y in cast.walk(x))]
    if len(img) != 1:
        raise AnalysisError(f"{rid}: image loop of get_dynmat_ij not found at top level")
    pre = [x for x in loops if top.index(x) < top.index(img[0])]
    post = [x for x in loops if top.index(x) > top.index(img[0])]
    st = celem.State(ex, "get_dynmat_ij", {"i": i, "j": j, "num_patom": n, "mass_sqrt": sp.Symbol("mass_sqrt")}, {}, 0)
    st.local_arrays.add("dm")
    st.block(pre)
    zeroed = all(st.read_cell("dm", (sp.Integer(a), sp.Integer(b), sp.Integer(c))) == 0 for a in range(3) for b in range(3) for c in range(2)) if st.cells.get("dm") and len(st.cells["dm"]) == 18 else False
    rep.instance(rid, DYN, "get_dynmat_ij", "the 3x3x2 accumulator is zeroed before the images are summed", zeroed, "some component of the accumulator dm is not reset for the pair (i, j): it starts from the previous pair's value or from an uninitialised one", line=tu.line(gij))
    st2 = celem.State(ex, "get_dynmat_ij", {"i": i, "j": j, "num_patom": n, "mass_sqrt": sp.Symbol("mass_sqrt")}, {"dm": "dm"}, 0)
    st2.block(post)
    outs = st2.cells.get("dynamical_matrix", [])
    want_out = {}
    for a in range(3):
        for b in range(3):
            for c in range(2):
                want_out[(str(sp.expand((i * 3 + a) * n * 3 + j * 3 + b)), str(c))] = sp.Function("dm")(a, b, c) / sp.Symbol("mass_sqrt")
    got_out = {tuple(str(x) for x in pat): val for pat, _, val in outs}
    ok_out = set(got_out) == set(want_out) and all(celem.same(got_out[k_], want_out[k_]) for k_ in want_out)
    rep.instance(rid, DYN, "get_dynmat_ij", "D[(3i+a), (3j+b)] = dm[a][b] / mass_sqrt for all 9 (a, b), real and imaginary part", ok_out,
                 f"the block of the pair (i, j) is not dm / sqrt(m_i m_j) stored at rows 3i.., columns 3j.. ({len(got_out)} cells written)", line=tu.line(gij))
    if result is None:
        raise AnalysisError(f"{rid}: no component of get_dm has the expected form (see the report above)") if False else None
        result = (sp.Integer(0), sp.Integer(0), sp.Symbol("l"))
    return result


def run(rep: core.Report):
    rep.rule("R06a", "inverse kernel: generic element of fc is sum_k Re[D_k e^{i phi}] sqrt(m_i m_j') / N with phi = -2 pi q_k.s averaged over the multi shortest vectors of the pair (supercell atom j, primitive atom i); k runs over N = num_satom/num_patom points", 2)
    rep.rule("R06b", "forward kernel: the contribution of supercell atom k to D_ij is fc e^{+2 pi i q.s} averaged over the same shortest vectors, divided by sqrt(m_i m_j): phase, pair addressing and mass factor are the exact counterparts of the inverse kernel", 4)
    rep.rule("R06c", "Python reference of the inverse transform: same phase sign, multiplicity average, mass factor, 1/N and real part; Python reference of the forward transform: e^{+2 pi i q.s}/m/sqrt(mm)", 6)
    rep.rule("R06e", "history independence of the inverse transform: the kernel accumulates into fc (its own zeroing covers only the compact extent), so run() hands it freshly zeroed force constants on every call", 2)
    rep.rule("R06d", "integer commensurate points: meshgrid over range(D_k) of the Smith normal form, each index scaled by the product of the other two diagonal entries, reduced modulo prod(D)", 3)
    tu = cast.load(DYN, symbolize=("PI",))
    ex = celem.ElemExec(tu, where=DYN, consts={"PI": sp.pi}, null_pointers={"charge_sum"})
    i, j, k, n, ns = sp.symbols("i j k num_patom num_satom", integer=True)
    # ---- inverse --------------------------------------------------------
    inv = ex.function("transform_dynmat_to_fc_ij", scalars={"i": i, "j": j, "num_patom": n, "num_satom": ns})
    if "fc" not in inv.cells:
        raise AnalysisError("R06a: transform_dynmat_to_fc_ij no longer writes fc")
    fcf, dmf, mass_f, multi_f, svec_f, comm_f = (sp.Function(x) for x in ("fc", "dm", "masses", "multi", "svecs", "comm_points"))
    s2pp = sp.Function("s2pp_map")
    fn_node = tu.functions["transform_dynmat_to_fc_ij"]
    line = tu.line(fn_node)
    Nexpr = sp.floor(ns / n)
    i_pair = j * n + i
    M = multi_f(i_pair, 0)
    adrs = multi_f(i_pair, 1)
    P = sp.sqrt(mass_f(i) * mass_f(s2pp(j))) / Nexpr
    kv = sp.Symbol("k", integer=True)
    lv = sp.Symbol("l", integer=True)
    want_th = -2 * sp.pi * sum(comm_f(kv, mm) * svec_f(adrs + lv, mm) for mm in range(3))
    s0, s1 = sp.cos(want_th), -sp.sin(want_th)  # Re[D e^{i phi}] = Re D cos(phi) - Im D sin(phi)
    bad_el = []
    e = idx = None
    for l_ in range(3):
        for m_ in range(3):
            idx_ = sp.Function("fc_index_map")(i) * ns * 9 + j * 9 + l_ * 3 + m_
            e_ = inv.cell("fc", idx_)
            adr = sp.expand(kv * n * n * 9 + i * n * 9 + l_ * n * 3 + s2pp(j) * 3 + m_)
            summand = (dmf(adr, 0) * sp.Sum(sp.cos(want_th), (lv, 0, M - 1)) / M - dmf(adr, 1) * sp.Sum(sp.sin(want_th), (lv, 0, M - 1)) / M) * P
            want = fcf(sp.expand(idx_)) + sp.Sum(summand, (kv, 0, Nexpr - 1))
            if not celem.same(e_, want):
                bad_el.append((l_, m_, str(e_)[:200]))
            if e is None:
                e, idx = e_, idx_
    written = {str(pat[0]) for pat, _, _ in inv.cells.get("fc", [])}
    want_written = {str(sp.expand(sp.Function("fc_index_map")(i) * ns * 9 + j * 9 + l_ * 3 + m_)) for l_ in range(3) for m_ in range(3)}
    rep.instance("R06a", DYN, "transform_dynmat_to_fc_ij", "exactly the 9 cells fc[fc_index_map(i)][j][a][b] are written", written == want_written,
                 f"the inverse transform writes other cells than fc[fc_index_map(i)][j][a][b] ({sorted(written ^ want_written)[:3]})", line=line)
    rep.instance("R06a", DYN, "transform_dynmat_to_fc_ij", "fc[..][a][b] += sum_{k<N} (Re D_k[i,a,j',b] <cos phi> - Im D_k[i,a,j',b] <sin phi>) sqrt(m_i m_j')/N, phi = -2 pi q_k.svecs[adrs+l] averaged over multi[j*num_patom+i][0] vectors, N = num_satom/num_patom; all 9 (a, b)", not bad_el,
                 f"for (a, b) = {bad_el[0][:2] if bad_el else ''} the element is {bad_el[0][2] if bad_el else ''}: it is not the real part of D_k e^{{-2 pi i q_k.s}} averaged over the shortest vectors of the pair, times sqrt(m_i m_j')/N, summed over the N commensurate points", line=line)
    # ---- R06e: the result depends on the previous content of fc ------------
    accumulates = e.has(fcf(sp.expand(idx)))
    top = tu.functions.get("dym_transform_dynmat_to_fc")
    zero_ext = None
    for x in cast.walk(top):
        if x.get("kind") == "ForStmt" and any(y.get("kind") == "BinaryOperator" and y.get("opcode") == "=" and cast.text(cast.kids(y)[0]).startswith("fc[") and cast.text(cast.kids(y)[1]) == "0" for y in cast.walk(x)):
            real = [y for y in x.get("inner", []) if isinstance(y, dict) and y.get("kind")]
            zero_ext = cast.text(cast.kids(real[-3])[1]) if len(real) >= 4 else None
    rep.instance("R06e", DYN, "dym_transform_dynmat_to_fc", f"kernel element = old fc + sum (accumulates: {accumulates}); the kernel itself zeroes {zero_ext} leading values", True, "", line=tu.line(top), nontrivial=False)
    runf = core.find_def(D2F, "DynmatToForceConstants.run")
    calls = [k_ for k_, st in enumerate(runf.body) if any(isinstance(c, ast.Call) and core.src(c.func) in ("self._inverse_transformation", "self._c_inverse_transformation", "self._py_inverse_transformation") for c in ast.walk(st))]
    if not calls:
        raise AnalysisError("R06e: DynmatToForceConstants.run no longer calls the inverse transformation")
    fresh = [k_ for k_, st in enumerate(runf.body) if isinstance(st, ast.Assign) and core.src(st.targets[0]) == "self._fc" and isinstance(st.value, ast.Call) and core.src(st.value.func) in ("np.zeros", "np.zeros_like")]
    cond_alloc = [st for st in ast.walk(runf) if isinstance(st, ast.Assign) and core.src(st.targets[0]) == "self._fc" and st not in runf.body]
    ok_fresh = (not accumulates) or (bool(fresh) and min(fresh) < min(calls))
    rep.instance("R06e", D2F, "DynmatToForceConstants.run", "self._fc = np.zeros(...) unconditionally before the inverse transformation", ok_fresh,
                 ("the force-constant buffer is " + ("allocated only on some paths" if cond_alloc else "not re-zeroed") + " before the kernel accumulates into it: the kernel zeroes only the compact extent and the translation step (+=) assumes zero rows, so a second run() of the same object with new dynamical matrices returns force constants polluted by the first run (full layout)"), line=runf.lineno)
    # ---- forward ----------------------------------------------------------
    sre, sim, lvf = forward_kernel(rep, "R06b", tu, ex)
    # counterpart: the inverse factor at (q_k; supercell atom j) is the complex conjugate of the forward factor at q = q_k, k := j
    subs = {sp.Function("q")(mm): comm_f(kv, mm) for mm in range(3)}
    fre = sre.subs(k, j).subs(lvf, lv).subs(subs)  # atom index first: the inverse loop variable is also called k
    fim = sim.subs(k, j).subs(lvf, lv).subs(subs)
    rep.instance("R06b", DYN, "get_dm / transform_dynmat_to_fc_ij", "inverse phase factor == conjugate of the forward phase factor at q_k for the same pair and image", celem.same(fre, s0) and celem.same(fim, s1),
                 "forward and inverse transforms do not use conjugate phases over the same shortest vectors: the round trip is not the identity", line=line)
    # ---- Python -----------------------------------------------------------
    sq = core.find_def(D2F, "DynmatToForceConstants._sum_q")
    core.require_names(sq, ["phase_factors", "pos", "multi", "adrs", "s_j", "p_i"], f"{D2F}::_sum_q")
    tr = symalg.OpenPyTranslator(where="_sum_q")
    env = tr.summary(sq)
    pf = env.get("phase_factors")
    want_pf = tr.expr(ast.parse("np.exp(-2j * np.pi * np.dot(self._commensurate_points, pos.T)).sum(axis=1) / multi", mode="eval").body, env)
    rep.instance("R06c", D2F, "DynmatToForceConstants._sum_q", "phase_factors = exp(-2j pi comm_points . pos^T).sum(axis=1) / multi", pf is not None and symalg.same(pf, want_pf)[0],
                 "the Python inverse transform does not use the phase -2 pi i q.s averaged over the multiplicity", line=sq.lineno)
    tup = [st for st in ast.walk(sq) if isinstance(st, ast.Assign) and isinstance(st.targets[0], ast.Tuple) and "self._multi[" in core.src(st.value)]
    ok_pair = len(tup) == 1 and [core.src(t) for t in tup[0].targets[0].elts] == ["multi", "adrs"] and core.src(tup[0].value).replace(" ", "") == "self._multi[s_j,p_i]"
    rep.instance("R06c", D2F, "DynmatToForceConstants._sum_q", "shortest vectors of the pair (supercell atom s_j, primitive atom p_i)", ok_pair, "the pair addressing of the shortest vectors differs from the forward transform (multi[k][i])", line=sq.lineno)
    rets = [core.resolve_name(sq, r.value) for r in ast.walk(sq) if isinstance(r, ast.Return)]
    rep.instance("R06c", D2F, "DynmatToForceConstants._sum_q", f"returns {core.src(rets[0]) if rets else '?'}", len(rets) == 1 and core.src(rets[0]).endswith(".real"), "the real part is not taken", line=sq.lineno)
    pinv = core.find_def(D2F, "DynmatToForceConstants._py_inverse_transformation")
    core.require_names(pinv, ["coef", "N", "m", "p_i", "p_j", "s_j", "fc_elem"], f"{D2F}::_py_inverse_transformation")
    tr2 = symalg.OpenPyTranslator(where="_py_inverse_transformation")
    env2 = tr2.summary(pinv)
    cf = [st for st in ast.walk(pinv) if isinstance(st, ast.Assign) and core.src(st.targets[0]) == "coef"]
    Nd = [st for st in ast.walk(pinv) if isinstance(st, ast.Assign) and core.src(st.targets[0]) == "N"]
    ok_c = len(cf) == 1 and symalg.same(symalg.open_expr(core.src(cf[0].value)), symalg.open_expr("np.sqrt(m[p_i] * m[p_j]) / N"))[0] and len(Nd) == 1 and symalg.same(symalg.open_expr(core.src(Nd[0].value)), symalg.open_expr("len(self._scell) / len(self._pcell)"))[0]
    rep.instance("R06c", D2F, "DynmatToForceConstants._py_inverse_transformation", "coef = sqrt(m_i m_j) / N, N = len(supercell)/len(primitive)", ok_c, "mass factor or 1/N of the Python inverse transform changed", line=pinv.lineno)
    fe = [st for st in ast.walk(pinv) if isinstance(st, ast.Assign) and core.src(st.targets[0]) == "fc_elem"]
    rep.instance("R06c", D2F, "DynmatToForceConstants._py_inverse_transformation", core.norm(core.src(fe[0]), 70) if fe else "<vanished>", len(fe) == 1 and symalg.same(symalg.open_expr(core.src(fe[0].value)), symalg.open_expr("self._sum_q(p_i, s_j, p_j) * coef"))[0], "the element is not sum_q times the coefficient", line=pinv.lineno)
    fwd = core.find_def(PYDM, "DynamicalMatrix._run_py_dynamical_matrix")
    core.require_names(fwd, ["phase", "vec", "q", "fc_elem", "phase_factor", "sqrt_mm", "m", "k", "dm_local", "mass", "i", "j"], f"{PYDM}::_run_py_dynamical_matrix")
    apps = [c.args[0] for c in ast.walk(fwd) if isinstance(c, ast.Call) and core.src(c.func) == "phase.append" and c.args]
    ok_pp = len(apps) == 1 and symalg.same(symalg.open_expr(core.src(apps[0])), symalg.open_expr("np.vdot(vec, q) * 2j * np.pi"))[0]
    augs = [a for a in ast.walk(fwd) if isinstance(a, ast.AugAssign) and core.src(a.target) == "dm_local" and isinstance(a.op, ast.Add)]
    ok_acc = len(augs) == 1 and symalg.same(symalg.open_expr(core.src(augs[0].value)), symalg.open_expr("fc_elem[k] * phase_factor / sqrt_mm / m"))[0]
    defs3 = {core.src(st.targets[0]): core.src(st.value) for st in ast.walk(fwd) if isinstance(st, ast.Assign) and isinstance(st.targets[0], ast.Name)}
    ok_acc = ok_acc and defs3.get("phase_factor", "").replace(" ", "") == "np.exp(phase).sum()" and symalg.same(symalg.open_expr(defs3.get("sqrt_mm", "0")), symalg.open_expr("np.sqrt(mass[i] * mass[j])"))[0]
    aug = augs
    rep.instance("R06c", PYDM, "DynamicalMatrix._run_py_dynamical_matrix", "phase = vec . q * 2 pi i ; dm_local += fc * sum(exp(phase)) / sqrt(m_i m_j) / multiplicity", ok_pp and ok_acc,
                 "the Python forward reference does not use e^{+2 pi i q.s}/m/sqrt(mm)", line=fwd.lineno)
    # ---- R06d -------------------------------------------------------------
    ci = core.find_def(D2F, "get_commensurate_points_in_integers")
    core.require_names(ci, ["D", "snf"], f"{D2F}::get_commensurate_points_in_integers")
    mg = [st for st in ast.walk(ci) if isinstance(st, ast.Assign) and isinstance(st.value, ast.Call) and core.src(st.value.func) == "np.meshgrid" and isinstance(st.targets[0], ast.Tuple)]
    if len(mg) != 1:
        raise AnalysisError("R06d: np.meshgrid construction vanished in get_commensurate_points_in_integers")
    axis_of = {}
    for nm, a in zip(mg[0].targets[0].elts, mg[0].value.args):
        t = core.src(a).replace(" ", "")
        if t.startswith("range(D[") and t.endswith("])"):
            axis_of[core.src(nm)] = int(t[len("range(D["):-2])
    rep.instance("R06d", D2F, "get_commensurate_points_in_integers", f"meshgrid indices {axis_of}", sorted(axis_of.values()) == [0, 1, 2], "the three indices do not run over range(D[0]), range(D[1]), range(D[2])", line=mg[0].lineno)
    cols = [x for x in ast.walk(ci) if isinstance(x, ast.Subscript) and core.src(x.value) == "np.c_"]
    ok_cols = False
    shown = "<np.c_ vanished>"
    if cols and isinstance(cols[0].slice, ast.Tuple) and len(cols[0].slice.elts) == 3:
        pairs = []
        for pos, el in enumerate(cols[0].slice.elts):
            nm = [x.id for x in ast.walk(el) if isinstance(x, ast.Name) and x.id in axis_of]
            ds = sorted(int(core.src(x.slice)) for x in ast.walk(el) if isinstance(x, ast.Subscript) and core.src(x.value) == "D" and isinstance(x.slice, ast.Constant))
            pairs.append((pos, nm, ds))
        shown = str(pairs)
        ok_cols = all(len(nm) == 1 and axis_of[nm[0]] == pos and ds == sorted({0, 1, 2} - {pos}) for pos, nm, ds in pairs)
    rep.instance("R06d", D2F, "get_commensurate_points_in_integers", f"column p = index over range(D[p]) times the other two diagonal entries: {shown}", ok_cols,
                 "an index is scaled by the wrong diagonal entries of the Smith normal form (or sits in the wrong column): the points are not the |det S| distinct commensurate points", line=ci.lineno)
    mods = [x for x in ast.walk(ci) if isinstance(x, ast.BinOp) and isinstance(x.op, ast.Mod)]
    rep.instance("R06d", D2F, "get_commensurate_points_in_integers", "points reduced modulo prod(D) after multiplication by Q^T", len(mods) == 1 and core.src(mods[0].right).replace(" ", "") == "np.prod(D)" and "snf.Q.T" in core.src(ci), "the integer points are not reduced modulo det", line=ci.lineno)
    rep.note("Not decided: distinctness of the points modulo reciprocal lattice vectors (number theory of the SNF), numeric equality of a round trip, Phonopy.ph2ph.")



def _preserved(expr, env, rel, depth=0):
    """'same' / 'changed' / 'other': is the value of expr the caller's array up to copying and dtype conversion?"""
    if isinstance(expr, ast.Name):
        return env.get(expr.id, "other")
    if isinstance(expr, ast.Call):
        f = core.src(expr.func)
        if f in ("np.array", "np.asarray", "np.ascontiguousarray", "np.copy") and expr.args:
            return _preserved(expr.args[0], env, rel, depth)
        if isinstance(expr.func, ast.Attribute) and expr.func.attr in ("copy", "astype") :
            return _preserved(expr.func.value, env, rel, depth)
        if isinstance(expr.func, ast.Name) and depth < 2:
            # a function of the same module: what does it return for this argument?
            try:
                callee = core.find_def(rel, expr.func.id)
            except AnalysisError:
                callee = None
            if isinstance(callee, ast.FunctionDef) and expr.args:
                a0 = _preserved(expr.args[0], env, rel, depth)
                if a0 == "other":
                    return "other"
                cenv = {callee.args.args[0].arg: a0} if callee.args.args else {}
                return _flow(callee, cenv, rel, depth + 1)
        touched = [_preserved(a, env, rel, depth) for a in expr.args]
        return "changed" if any(t in ("same", "changed") for t in touched) else "other"
    if isinstance(expr, (ast.BinOp, ast.UnaryOp, ast.Compare, ast.Subscript)):
        kids = [_preserved(x, env, rel, depth) for x in ast.iter_child_nodes(expr) if isinstance(x, ast.expr)]
        return "changed" if any(t in ("same", "changed") for t in kids) else "other"
    return "other"


def _flow(fn, env, rel, depth):
    """status of the value a function returns, its first parameter being the caller's array"""
    env = dict(env)
    out = []
    for st in sorted((x for x in ast.walk(fn) if isinstance(x, (ast.Assign, ast.AugAssign, ast.Return))), key=lambda x: (x.lineno, x.col_offset)):
        if isinstance(st, ast.Assign) and len(st.targets) == 1 and isinstance(st.targets[0], ast.Name):
            env[st.targets[0].id] = _preserved(st.value, env, rel, depth)
        elif isinstance(st, ast.AugAssign) and isinstance(st.target, ast.Name) and env.get(st.target.id) in ("same", "changed"):
            env[st.target.id] = "changed"
        elif isinstance(st, ast.Return) and st.value is not None:
            out.append(_preserved(st.value, env, rel, depth))
    if not out:
        return "other"
    return "changed" if "changed" in out else ("same" if all(o == "same" for o in out) else "other")


def _r06f(rep):
    """The q-points a caller supplies are the points its dynamical matrices belong to: they are stored as given."""
    rep.rule("R06f", "representatives are kept: commensurate points supplied by the caller (constructor argument, setter) are stored as given (copy / dtype conversion only), because the dynamical matrices supplied next belong to exactly these q and the phases e^{-2 pi i q.s} are not periodic in q for vectors between different basis atoms", 2)
    cls = core.find_def(D2F, "DynmatToForceConstants")
    setters = [m for m in cls.body if isinstance(m, ast.FunctionDef) and m.name == "commensurate_points" and core._is_property_setter(m)]
    if len(setters) != 1:
        raise AnalysisError("R06f: setter DynmatToForceConstants.commensurate_points vanished")
    st_fn = setters[0]
    par = st_fn.args.args[1].arg
    stores = [a for a in ast.walk(st_fn) if isinstance(a, ast.Assign) and core.src(a.targets[0]) == "self._commensurate_points"]
    if len(stores) != 1:
        raise AnalysisError("R06f: the setter no longer stores self._commensurate_points exactly once")
    env = {par: "same"}
    for a in sorted((x for x in ast.walk(st_fn) if isinstance(x, ast.Assign) and isinstance(x.targets[0], ast.Name)), key=lambda x: x.lineno):
        env[a.targets[0].id] = _preserved(a.value, env, D2F)
    stat = _preserved(stores[0].value, env, D2F)
    if stat == "other":
        raise AnalysisError(f"R06f: cannot tell what the setter stores ({core.src(stores[0].value)})")
    rep.instance("R06f", D2F, "DynmatToForceConstants.commensurate_points (setter)", core.norm(core.src(stores[0]), 90), stat == "same",
                 "the setter changes the points it is given (reduction into the unit cell, arithmetic): the stored point is q+G while the dynamical matrix set next is D(q); for a primitive cell with two or more atoms the inverse transform then uses the wrong phase e^{-2 pi i G.(r_j - r_i)}", line=stores[0].lineno)
    init = core.find_def(D2F, "DynmatToForceConstants.__init__")
    ipar = [a.arg for a in init.args.args + init.args.kwonlyargs if a.arg == "commensurate_points"]
    if not ipar:
        raise AnalysisError("R06f: constructor parameter commensurate_points vanished")
    sites = [a for a in ast.walk(init) if isinstance(a, ast.Assign) and core.src(a.targets[0]) in ("self._commensurate_points", "self.commensurate_points") and "commensurate_points" in {n.id for n in ast.walk(a.value) if isinstance(n, ast.Name)}]
    if not sites:
        raise AnalysisError("R06f: the constructor no longer stores its commensurate_points argument")
    for a in sites:
        stat = _preserved(a.value, {"commensurate_points": "same"}, D2F)
        through_setter = core.src(a.targets[0]) == "self.commensurate_points"
        rep.instance("R06f", D2F, "DynmatToForceConstants.__init__", core.norm(core.src(a), 90) + (" (through the setter)" if through_setter else ""), stat == "same",
                     "the constructor changes the points it is given before storing them", line=a.lineno)



def _r06k(rep):
    """The OpenMP and the serial arm of the inverse transform hand the same arguments to the per-pair routine."""
    from engine import cast, celem

    rep.rule("R06k", "inverse transform driver: the flattened OpenMP loop over ij = i * num_satom + j and the serial double loop call the per-pair routine with the same arguments (closed form of every argument, pointer arguments as base + offset through pointer locals, with floor(ij / num_satom) -> i and ij % num_satom -> j): in particular the same 3x3 block of the same row fc_index_map[i] of the force constants, which for the full layout is not row i", 1)
    tu = cast.load(DYN)
    fn = tu.functions.get("dym_transform_dynmat_to_fc")
    if fn is None:
        raise AnalysisError("anchor vanished: dym_transform_dynmat_to_fc")
    ifs = [x for x in cast.kids(cast.body(fn)) if x.get("kind") == "IfStmt" and cast.ref_name(cast.kids(x)[0]) == "use_openmp"]
    if len(ifs) != 1 or len(cast.kids(ifs[0])) < 3:
        raise AnalysisError("R06k: dym_transform_dynmat_to_fc no longer has an OpenMP and a serial arm under 'if (use_openmp)'")
    ns, np_ = sp.Symbol("num_satom", integer=True, positive=True), sp.Symbol("num_patom", integer=True, positive=True)
    i, j, ij = sp.Symbol("i", integer=True), sp.Symbol("j", integer=True), sp.Symbol("ij", integer=True)
    ex = celem.ElemExec(tu, where=DYN)

    def args_of(arm):
        calls = [c for c in cast.walk(arm) if c.get("kind") == "CallExpr" and cast.callee_name(c) == "transform_dynmat_to_fc_ij"]
        if len(calls) != 1:
            raise AnalysisError("R06k: an arm of dym_transform_dynmat_to_fc does not call transform_dynmat_to_fc_ij exactly once")
        ptr = {}  # pointer locals of the arm: name -> (base, offset)
        ctx = celem.State(ex, "dym_transform_dynmat_to_fc", {"num_satom": ns, "num_patom": np_, "i": i, "j": j, "ij": ij}, {}, 0)

        def val(e):
            e0 = cast.strip(e)
            while e0.get("kind") in ("ImplicitCastExpr", "CStyleCastExpr", "ParenExpr") and cast.kids(e0):
                e0 = cast.strip(cast.kids(e0)[0])
            qt = cast.qtype(e0)
            if "*" in qt or "[" in qt:
                if e0.get("kind") == "DeclRefExpr":
                    nm = e0["referencedDecl"]["name"]
                    return ptr.get(nm, (nm, sp.Integer(0)))
                if e0.get("kind") == "BinaryOperator" and e0.get("opcode") in ("+", "-"):
                    a, b = cast.kids(e0)
                    base, off = val(a)
                    d = ctx.expr(b)
                    return (base, sp.expand(off + d if e0.get("opcode") == "+" else off - d))
                raise AnalysisError(f"R06k: pointer argument '{cast.text(e)}'")
            return ("", sp.expand(ctx.expr(e)))

        for x in cast.walk(arm):
            if x.get("kind") == "BinaryOperator" and x.get("opcode") == "=":
                l, r = cast.kids(x)
                nm = cast.ref_name(l)
                if nm and ("*" in cast.qtype(cast.strip(l))) and cast.strip(l).get("kind") == "DeclRefExpr":
                    ptr[nm] = val(r)
        return calls[0], [val(a) for a in cast.call_args(calls[0])]

    c_omp, a_omp = args_of(cast.kids(ifs[0])[1])
    c_ser, a_ser = args_of(cast.kids(ifs[0])[2])

    def norm(v):
        base, off = v
        off = off.replace(lambda t: isinstance(t, sp.floor) and sp.simplify(t.args[0] - ij / ns) == 0, lambda t: i)
        off = off.replace(lambda t: isinstance(t, sp.Mod) and t.args[0] == ij and t.args[1] == ns, lambda t: j)
        return base, sp.expand(off.subs(ij, i * ns + j))

    bad = []
    for k, (x, y) in enumerate(zip(a_omp, a_ser)):
        nx, ny = norm(x), norm(y)
        if nx[0] != ny[0] or sp.simplify(nx[1] - ny[1]) != 0:
            bad.append((k, nx, ny))
    if len(a_omp) != len(a_ser):
        bad.append((-1, ("", sp.Integer(len(a_omp))), ("", sp.Integer(len(a_ser)))))
    rep.instance("R06k", DYN, "dym_transform_dynmat_to_fc", f"{len(a_omp)} arguments of transform_dynmat_to_fc_ij agree between the OpenMP arm (ij) and the serial arm (i, j)", not bad,
                 (f"argument {bad[0][0]} is {bad[0][1][0]} + {bad[0][1][1]} in the OpenMP arm and {bad[0][2][0]} + {bad[0][2][1]} in the serial arm" if bad else "") + ": with use_openmp the 3x3 blocks of primitive atom i are written to another row of the force constants than without (row i instead of row fc_index_map[i] for the full layout), so the round trip force constants -> D(q) -> force constants depends on the build and the flag", line=tu.line(c_omp))


def _r06j(rep):
    """The supercell-atom -> primitive-index map of the inverse transform, typed (compiled and Python routes)."""
    from rules.c02 import _maptype

    rep.rule("R06j", "inverse transform: the map that gives, for every supercell atom, the index of its primitive atom (masses, column block of D(q)) is typed S->P on both routes (p2p_map[s2p_map[k]], index-map typing); the rank of s2p_map[k] among the sorted representatives is that index only while p2s_map is ascending, which Primitive(positions_to_reorder=...) does not keep, and the forward transform uses p2p_map", 2)
    rel = "phonopy/harmonic/dynmat_to_fc.py"
    cls = core.find_def(rel, "DynmatToForceConstants")
    methods = {n.name: n for n in cls.body if isinstance(n, ast.FunctionDef)}

    def env_of(fn):
        env = {}
        for st in ast.walk(fn):
            if isinstance(st, ast.Assign) and len(st.targets) == 1:
                t = st.targets[0]
                if isinstance(t, ast.Name):
                    env.setdefault(t.id, st.value)
                elif isinstance(t, ast.Tuple) and isinstance(st.value, ast.Call) and core.src(st.value.func) == "np.unique":
                    for k, el in enumerate(t.elts):
                        if isinstance(el, ast.Name):
                            env.setdefault(el.id, ast.Subscript(value=st.value, slice=ast.Constant(value=k), ctx=ast.Load()))
        return env

    def attr_value(attr):
        """(expression assigned to self.<attr>, environment of the assigning method)"""
        for m in methods.values():
            for st in ast.walk(m):
                if isinstance(st, ast.Assign) and len(st.targets) == 1 and core.src(st.targets[0]) == f"self.{attr}":
                    return st.value, env_of(m)
        return None, {}

    def typed(e, fn):
        env = env_of(fn)
        if isinstance(e, ast.Attribute) and core.src(e.value) == "self" and e.attr.lstrip("_") not in ("p2s_map", "s2p_map", "p2p_map"):
            v, env2 = attr_value(e.attr)
            if v is None:
                return None
            return _maptype(v, env2, rel)
        return _maptype(e, env, rel)

    # compiled route: the 7th argument of transform_dynmat_to_fc
    cfn = methods.get("_c_inverse_transformation")
    call = [c for c in ast.walk(cfn) if isinstance(c, ast.Call) and core.src(c.func).endswith("transform_dynmat_to_fc")] if cfn else []
    if len(call) != 1 or len(call[0].args) < 8:
        raise AnalysisError("R06j: _c_inverse_transformation no longer calls transform_dynmat_to_fc with its nine arguments")
    got = typed(call[0].args[6], cfn)
    # Python route: the primitive index paired with every supercell atom in the double loop
    pfn = methods.get("_py_inverse_transformation")
    loops = [lp for lp in ast.walk(pfn) if isinstance(lp, ast.For) and isinstance(lp.iter, ast.Call) and core.src(lp.iter.func) == "enumerate" and lp.iter.args] if pfn else []
    inner = [lp for lp in loops if any(lp is not o and any(x is lp for x in ast.walk(o)) for o in loops)]
    if len(inner) != 1:
        raise AnalysisError("R06j: _py_inverse_transformation lost its loop over (supercell atom, primitive index)")
    got_py = typed(inner[0].iter.args[0], pfn)
    for where, fn_, g, node in (("compiled route: s2pp argument of transform_dynmat_to_fc", cfn, got, call[0]), ("Python route: enumerate(<map>) in the pair loop", pfn, got_py, inner[0])):
        if g is None:
            raise AnalysisError(f"R06j: cannot type the supercell-atom -> primitive-index map of the {where.split(':')[0]}")
        rep.instance("R06j", rel, f"DynmatToForceConstants.{fn_.name}", f"{where} : {g[0]}->{g[1]}", tuple(g) == ("S", "P"),
                     f"the map is typed {g[0]}->{g[1]}, not S->P (supercell atom -> index of its primitive atom): with a reordered primitive cell (p2s_map not ascending) the inverse transform takes the masses and the column block of D(q) of another atom than the forward transform, and force constants -> D(q) -> force constants is not the identity", line=node.lineno)


def _r06i(rep):
    """Orientation of the supercell matrix the commensurate points are generated from (frame typing)."""
    from engine import frames
    from engine.frames import C as CART, L as LAT
    from rules.c04 import PMAT, SIGS

    rep.rule("R06i", "the matrix handed to get_commensurate_points in DynmatToForceConstants.__init__ is the supercell matrix relative to the primitive cell in the orientation cell_s^T = cell_p^T S (frame typing: component index of the primitive lattice x basis index of the supercell lattice), i.e. inv(primitive matrix); built from the row-vector lattices as cell_s cell_p^-1 it is S^T, which has the same determinant and gives points that are not commensurate whenever S and S^T generate different lattices", 1)
    rel = "phonopy/harmonic/dynmat_to_fc.py"
    fn = core.find_def(rel, "DynmatToForceConstants.__init__")
    want = (LAT("p", "+"), LAT("s", "-"))
    sigs = dict(SIGS)
    sigs["get_commensurate_points"] = {"pos": [want]}
    ty = frames.Typer(fn, seeds={"self._pcell.primitive_matrix": PMAT, "self._scell.cell": (LAT("s", "-"), CART), "self._pcell.cell": (LAT("p", "-"), CART), "primitive.primitive_matrix": PMAT, "supercell.cell": (LAT("s", "-"), CART), "primitive.cell": (LAT("p", "-"), CART)}, params={}, call_sigs=sigs, where=f"{rel}::DynmatToForceConstants.__init__")
    problems = ty.run()
    calls = [c for c in ast.walk(fn) if isinstance(c, ast.Call) and core.src(c.func).split(".")[-1] == "get_commensurate_points" and c.args]
    if len(calls) != 1:
        raise AnalysisError("R06i: DynmatToForceConstants.__init__ no longer calls get_commensurate_points once")
    arg = calls[0].args[0]
    problems = list(problems)
    got = ty.env.get(arg.id) if isinstance(arg, ast.Name) else ty.expr(arg)
    if got is None and not problems:
        raise AnalysisError(f"R06i: the matrix '{core.src(arg)}' handed to get_commensurate_points could not be typed")
    ok = not problems and frames.same_axis(got[0], want[0]) is not False and frames.same_axis(got[1], want[1]) is not False
    rep.instance("R06i", rel, "DynmatToForceConstants.__init__", f"get_commensurate_points({core.src(arg)}) : {frames.show(got)}", ok,
                 (problems[0].message if problems else f"the matrix is typed {frames.show(got)}") + f", not {frames.show(want)}: the commensurate points are those of the transposed supercell matrix (same count, same determinant); for off-diagonal or anisotropic centred supercells S^T q is not integral and the round trip force constants -> D(q) -> force constants loses information", line=calls[0].lineno)


def _r06h(rep):
    """Extended Euclid step behind the Smith normal form: the remainder handed to the next step is never negative, so the
    gcd (and with it the diagonal of D that range(D[i]) enumerates) comes out non-negative."""
    SNF = "phonopy/structure/snf.py"
    rep.rule("R06h", "Xgcd._step: for a divisor of either sign the remainder it returns lies in [0, |r1|) (interval evaluation of the step with Python's divmod, whose remainder takes the sign of the divisor) and the quotient is adjusted so that r0 = q r1 + r2 still holds; with a negative remainder the gcd can come out negative, a diagonal entry of the Smith normal form stays negative and range(D[i]) yields no commensurate point", 2)
    fn = core.find_def(SNF, "Xgcd._step")
    ps = [a.arg for a in fn.args.args]
    if len(ps) < 3:
        raise AnalysisError("Xgcd._step: signature changed")
    r0n, r1n = ps[1], ps[2]
    a = sp.Symbol("a", positive=True)          # |r1|
    results = []
    for sign in (1, -1):
        r1 = sign * a
        # divmod(r0, r1): r0 = q r1 + m, m in [0, r1) for r1 > 0 and in (r1, 0] for r1 < 0; m = theta * r1, theta in [0, 1)
        th = sp.Symbol("theta", nonnegative=True)   # theta < 1 is used when bounds are compared below
        states = [({"__q": sp.Symbol("q0"), "__m": th * r1}, [])]
        names = {}

        def val(e, st):
            if isinstance(e, ast.Name):
                if e.id == r1n:
                    return r1
                return st.get(e.id)
            if isinstance(e, ast.Constant) and isinstance(e.value, int):
                return sp.Integer(e.value)
            if isinstance(e, ast.UnaryOp) and isinstance(e.op, ast.USub):
                v = val(e.operand, st)
                return None if v is None else -v
            if isinstance(e, ast.BinOp) and isinstance(e.op, (ast.Add, ast.Sub, ast.Mult)):
                x, y = val(e.left, st), val(e.right, st)
                if x is None or y is None:
                    return None
                return x + y if isinstance(e.op, ast.Add) else (x - y if isinstance(e.op, ast.Sub) else x * y)
            return None

        def split(test, st):
            """[(state, truth)] for a comparison of a tracked value with 0"""
            if isinstance(test, ast.Compare) and len(test.ops) == 1 and isinstance(test.comparators[0], ast.Constant) and test.comparators[0].value == 0:
                v = val(test.left, st)
                if v is None:
                    return None
                op = type(test.ops[0])
                # v is c * theta * a or c * a (+ ...): decide by substituting theta in {0, 1/2}
                out = []
                for thv, tag in ((sp.Integer(0), "theta = 0"), (sp.Rational(1, 2), "0 < theta < 1")):
                    vv = v.subs(th, thv)
                    truth = {ast.Lt: vv.is_negative, ast.Gt: vv.is_positive, ast.LtE: vv.is_nonpositive, ast.GtE: vv.is_nonnegative, ast.Eq: vv.is_zero, ast.NotEq: (None if vv.is_zero is None else not vv.is_zero)}.get(op)
                    if truth is None:
                        return None
                    out.append((thv, bool(truth)))
                return out
            return None

        def run(stmts, st, thv):
            for s_ in stmts:
                if isinstance(s_, ast.Assign) and isinstance(s_.targets[0], ast.Tuple) and isinstance(s_.value, ast.Call) and core.src(s_.value.func) == "divmod":
                    qn, mn = (t.id for t in s_.targets[0].elts)
                    st[qn], st[mn] = st["__q"], st["__m"]
                elif isinstance(s_, ast.Assign) and isinstance(s_.targets[0], ast.Name):
                    st[s_.targets[0].id] = val(s_.value, st)
                elif isinstance(s_, ast.AugAssign) and isinstance(s_.target, ast.Name) and isinstance(s_.op, (ast.Add, ast.Sub)):
                    cur, d = st.get(s_.target.id), val(s_.value, st)
                    st[s_.target.id] = None if cur is None or d is None else (cur + d if isinstance(s_.op, ast.Add) else cur - d)
                elif isinstance(s_, ast.If):
                    sp_ = split(s_.test, st)
                    if sp_ is None:
                        raise AnalysisError(f"Xgcd._step: test '{core.src(s_.test)}' outside the modelled fragment")
                    truth = dict(sp_)[thv]
                    run(s_.body if truth else s_.orelse, st, thv)
                elif isinstance(s_, ast.Return):
                    st["__ret"] = s_.value
            return st

        for thv in (sp.Integer(0), sp.Rational(1, 2)):
            st = run(fn.body, {"__q": sp.Symbol("q0"), "__m": th * r1}, thv)
            ret = st.get("__ret")
            if not isinstance(ret, ast.Tuple) or len(ret.elts) < 2:
                raise AnalysisError("Xgcd._step no longer returns (r1, r2, ...)")
            r2 = val(ret.elts[1], st)
            qv = None
            # quotient consistency: r0 = q0 r1 + theta r1 must equal q r1 + r2 for the q used in the s / t updates
            qnames = [t.id for s_ in fn.body if isinstance(s_, ast.Assign) and isinstance(s_.targets[0], ast.Tuple) and isinstance(s_.value, ast.Call) and core.src(s_.value.func) == "divmod" for t in s_.targets[0].elts[:1]]
            qv = st.get(qnames[0]) if qnames else None
            results.append((sign, thv, r2, qv, th * r1 + sp.Symbol("q0") * r1))
    bad_r = [(sg, thv, r2) for sg, thv, r2, _, _ in results if r2 is None or not (r2.subs(th, thv).is_nonnegative)]
    bad_q = [(sg, thv) for sg, thv, r2, qv, r0 in results if r2 is None or qv is None or sp.simplify((qv * (sg * a) + r2 - r0).subs(th, thv)) != 0]
    rep.instance("R06h", SNF, "Xgcd._step", "remainder >= 0 for positive and negative divisors", not bad_r,
                 f"for a {'negative' if bad_r and bad_r[0][0] < 0 else 'positive'} divisor the remainder handed on is {bad_r[0][2] if bad_r else ''} (a = |r1|, theta in [0, 1)): negative, so the gcd and a diagonal entry of the Smith normal form can come out negative and get_commensurate_points_in_integers enumerates range(D[i]) = nothing for those supercell matrices", line=fn.lineno)
    rep.instance("R06h", SNF, "Xgcd._step", "r0 = q r1 + r2 with the quotient used for the Bezout coefficients", not bad_q, "the quotient is not adjusted together with the remainder", line=fn.lineno)


_run_main = run


def run(rep: core.Report):
    _r06k(rep)
    _run_main(rep)
    _r06f(rep)
    _r06h(rep)
    _r06i(rep)
    _r06j(rep)
    from rules import shared_trunc

    shared_trunc.run(rep, "R06g")


def selftest():
    V = []
    b = lambda name, file, old, new, rule, expect="", **kw: V.append(dict(name=name, kind="break", file=file, old=old, new=new, rule=rule, expect=expect, **kw))
    n = lambda name, file, old, new, **kw: V.append(dict(name=name, kind="neutral", file=file, old=old, new=new, **kw))
    D2F_ = "phonopy/harmonic/dynmat_to_fc.py"
    b("full layout filled by a Python loop that scatters rows and gathers columns through the same permutation", D2F_, "        if self._fc.shape[0] == self._fc.shape[1]:\n            distribute_force_constants_by_translations(self._fc, self._pcell)", "        if self._fc.shape[0] == self._fc.shape[1]:\n            for perm in self._pcell.atomic_permutations:\n                for s_i in self._pcell.p2s_map:\n                    self._fc[perm[s_i]] = self._fc[s_i][perm]", "R06y.permcov", "_inverse_transformation")
    n("full layout filled by a Python loop that scatters rows and columns", D2F_, "        if self._fc.shape[0] == self._fc.shape[1]:\n            distribute_force_constants_by_translations(self._fc, self._pcell)", "        if self._fc.shape[0] == self._fc.shape[1]:\n            for perm in self._pcell.atomic_permutations:\n                for s_i in self._pcell.p2s_map:\n                    self._fc[perm[s_i], perm] = self._fc[s_i]")
    b("inverse transform: primitive index by rank among the sorted representatives", "phonopy/harmonic/dynmat_to_fc.py", "        s2pp = np.array([p2p[i] for i in s2p], dtype=\"int64\")", "        s2pp = np.array(np.unique(s2p, return_inverse=True)[1], dtype=\"int64\")", "R06j", "_c_inverse_transformation")
    b("OpenMP arm of the inverse transform passes another primitive index", DYN, "                fc, dm, ij / num_satom, ij % num_satom, comm_points, svecs,", "                fc, dm, ij % num_patom, ij % num_satom, comm_points, svecs,", "R06k", "dym_transform_dynmat_to_fc")
    D2F_ = "phonopy/harmonic/dynmat_to_fc.py"
    b("supercell matrix from the row-vector lattices (transposed)", D2F_, "        supercell_matrix = np.linalg.inv(self._pcell.primitive_matrix)\n", "        supercell_matrix = np.dot(self._scell.cell, np.linalg.inv(self._pcell.cell))\n", "R06i", "get_commensurate_points")
    n("supercell matrix from the column-vector lattices", D2F_, "        supercell_matrix = np.linalg.inv(self._pcell.primitive_matrix)\n", "        supercell_matrix = np.dot(np.linalg.inv(self._pcell.cell.T), self._scell.cell.T)\n")
    b("inverse phase with the forward sign", DYN, "                phase -= comm_points[k][m] * svecs[svecs_adrs + l][m];", "                phase += comm_points[k][m] * svecs[svecs_adrs + l][m];", "R06a", "")
    b("inverse combines Re and Im with a plus", DYN, "                    (dm[adrs][0] * cos_phase - dm[adrs][1] * sin_phase) * coef;", "                    (dm[adrs][0] * cos_phase + dm[adrs][1] * sin_phase) * coef;", "R06a", "")
    b("inverse forgets 1/N", DYN, "    coef = sqrt(masses[i] * masses[s2pp_map[j]]) / N;", "    coef = sqrt(masses[i] * masses[s2pp_map[j]]);", "R06a", "")
    b("inverse pair addressing transposed", DYN, "    i_pair = j * num_patom + i;\n    m_pair = multi[i_pair][0];\n    svecs_adrs = multi[i_pair][1];\n    coef", "    i_pair = i * num_patom + j;\n    m_pair = multi[i_pair][0];\n    svecs_adrs = multi[i_pair][1];\n    coef", "R06a", "")
    b("forward phase without multiplicity average", DYN, "        cos_phase += cos(phase * 2 * PI) / m_pair;", "        cos_phase += cos(phase * 2 * PI);", "R06b", "get_dm")
    b("python inverse phase sign", D2F, "        phases = -2j * np.pi * np.dot(self._commensurate_points, pos.T)", "        phases = 2j * np.pi * np.dot(self._commensurate_points, pos.T)", "R06c", "_sum_q")
    b("integer points: index scaled by its own D", D2F, "            a.ravel() * D[1] * D[2], b.ravel() * D[0] * D[2], c.ravel() * D[0] * D[1]", "            a.ravel() * D[0] * D[2], b.ravel() * D[0] * D[2], c.ravel() * D[0] * D[1]", "R06d", "column")
    b("force-constant buffer allocated once", D2F, "        self._fc = np.zeros(self._fc_shape, dtype=\"double\", order=\"C\")\n        self._inverse_transformation(lang=lang)", "        if self._fc is None:\n            self._fc = np.zeros(self._fc_shape, dtype=\"double\", order=\"C\")\n        self._inverse_transformation(lang=lang)", "R06e", "run")
    n("inverse coefficient reordered", DYN, "                    (dm[adrs][0] * cos_phase - dm[adrs][1] * sin_phase) * coef;", "                    coef * (cos_phase * dm[adrs][0] - sin_phase * dm[adrs][1]);")
    n("python inverse coefficient reordered", D2F, "                coef = np.sqrt(m[p_i] * m[p_j]) / N", "                coef = np.sqrt(m[p_j] * m[p_i]) / N")
    b("setter folds the caller's points into the unit cell", D2F, '        self._commensurate_points = np.array(comm_points, dtype="double", order="C")', '        pts = np.array(comm_points, dtype="double", order="C")\n        self._commensurate_points = pts - np.floor(pts)', "R06f", "setter")
    n("setter converts through asarray and copy", D2F, '        self._commensurate_points = np.array(comm_points, dtype="double", order="C")', '        pts = np.asarray(comm_points, dtype="double")\n        self._commensurate_points = np.ascontiguousarray(pts).copy()')
    b("xgcd step keeps the raw divmod remainder", "phonopy/structure/snf.py", "        q, m = divmod(r0, r1)\n        if m < 0:\n            if r1 > 0:\n                m += r1\n                q -= 1\n            if r1 < 0:\n                m -= r1\n                q += 1\n        r2 = m", "        q, r2 = divmod(r0, r1)", "R06h", "remainder")
    return V
