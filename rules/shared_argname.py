"""Shared rule (C04 R04y.argname): a value named after an optional parameter does not land, positionally, in another
optional parameter's slot while its own stays at the default.

``_trim_cell(relative_axes, cell, check_overlap=True, symprec=1e-5, ...)`` called as
``_trim_cell(pmat, supercell, self._symprec, positions_to_reorder=...)`` binds the tolerance to ``check_overlap`` (a
float is truthy, so nothing raises) and leaves ``symprec`` at 1e-5: the caller's tolerance is silently ignored.

The rule looks at every call whose callee resolves to exactly one function / method definition of the package (by
simple name), and at each positional argument that is a plain name or attribute.  With the leading ``self._`` /
underscores removed, the argument's name is compared with the callee's parameter names.  Reported when all of

  * the name equals a parameter p' other than the one the argument lands in,
  * the landing parameter is optional (has a default) -- an argument in a required slot is where the caller has to
    put something, whatever it is called (``similarity_transformation(lattice, rot)``),
  * p' is optional and is not supplied by this call at all.

Held instances: positional arguments that land in optional slots.
"""

from __future__ import annotations

import ast

from engine import core
from engine.core import AnalysisError


def _norm(s: str) -> str:
    return s.split(".")[-1].lstrip("_")


def definitions(files):
    defs = {}
    for rel in files:
        for n in ast.walk(core.parse(rel)):
            if isinstance(n, ast.FunctionDef):
                defs.setdefault(n.name, []).append(n)
    return {k: v[0] for k, v in defs.items() if len(v) == 1}


def scan(tree, defs):
    held, found = [], []
    for c in ast.walk(tree):
        if not isinstance(c, ast.Call):
            continue
        name = c.func.id if isinstance(c.func, ast.Name) else (c.func.attr if isinstance(c.func, ast.Attribute) else None)
        fn = defs.get(name)
        if fn is None or any(isinstance(a, ast.Starred) for a in c.args) or any(k.arg is None for k in c.keywords):
            continue
        params = fn.args.posonlyargs + fn.args.args
        ndef = len(fn.args.defaults)
        opt = {p.arg for p in params[len(params) - ndef:]} if ndef else set()
        opt |= {p.arg for p, d in zip(fn.args.kwonlyargs, fn.args.kw_defaults) if d is not None}
        ps = [p.arg for p in params]
        if ps and ps[0] in ("self", "cls"):
            if not isinstance(c.func, ast.Attribute):
                continue
            ps = ps[1:]
        allp = ps + [p.arg for p in fn.args.kwonlyargs]
        supplied = set(ps[: len(c.args)]) | {k.arg for k in c.keywords}
        for k, a in enumerate(c.args):
            if k >= len(ps):
                break
            land = ps[k]
            if land not in opt:
                continue
            held.append((c, land))
            if not isinstance(a, (ast.Name, ast.Attribute)):
                continue
            an = _norm(core.src(a))
            if an == _norm(land):
                continue
            others = [p for p in allp if p != land and _norm(p) == an and p in opt and p not in supplied]
            if others:
                found.append((c, a, land, others[0], fn))
    return held, found


_CONTROL = '''
def trim(axes, cell, check_overlap=True, symprec=1e-5, order=None):
    return axes
class P:
    def bad(self, m, c):
        return trim(m, c, self._symprec, order=None)
    def good(self, m, c):
        return trim(m, c, symprec=self._symprec)
    def good2(self, m, c, check):
        return trim(m, c, check, self._symprec)
'''


def run(rep: core.Report, rid: str, scope: list[str], def_files: list[str] | None = None, floor: int = 0):
    rep.rule(rid, "positional arguments in optional slots: a value named after an optional parameter of the callee does not land in another optional parameter's position while the like-named parameter stays at its default (callee resolved by unique simple name over the package)", floor)
    t = ast.parse(_CONTROL)
    for n in ast.walk(t):
        for ch in ast.iter_child_nodes(n):
            ch._parent = n
    cd = {n.name: n for n in ast.walk(t) if isinstance(n, ast.FunctionDef)}
    h, f = scan(t, cd)
    bad = sorted({core.qualname_of(x[0]).split(".")[-1] for x in f})
    if bad != ["bad"]:
        raise AnalysisError(f"{rid}: the rule no longer classifies its own examples (got {bad})")
    defs = definitions(def_files or core.python_files("phonopy"))
    for rel in scope:
        tree = core.parse(rel)
        held, found = scan(tree, defs)
        flagged = {id(x[0]) for x in found}
        for c, land in held:
            if id(c) in flagged:
                continue
            rep.instance(rid, rel, core.qualname_of(c), f"{core.norm(core.src(c.func), 40)}(...): positional argument for optional '{land}'", True, "", line=c.lineno, nontrivial=False)
        for c, a, land, other, fn in found:
            rep.instance(rid, rel, core.qualname_of(c), f"{core.norm(core.src(c.func), 40)}(... {core.src(a)} ...)", False,
                         f"'{core.src(a)}' is passed positionally to {fn.name}() and lands in its optional parameter '{land}', while the optional parameter '{other}' -- which this value is named after -- is not supplied and keeps its default: the caller's value is ignored where it was meant to act (a tolerance bound to a flag is merely truthy) and nothing raises", line=c.lineno)
