"""Shared rule (C14 R14m, C11 R11q, C15 R15g): results handed out are not overwritten by the next call.

A calculation object that is kept across calls (the Phonopy object keeps one GroupVelocity, one dynamical matrix, ...)
hands its result arrays out by reference (a property returning ``self._x``).  A later call that writes into the same
array in place -- ``self._x[i] = ...``, ``self._x += ...``, or the same through a local alias ``a = self._x`` -- changes
what the earlier caller holds: results of an earlier q-point list become those of the later one, a second ``run()``
re-applies a factor.  The rule: in every method of the listed classes, an in-place write into an *exposed* array
attribute is preceded, on the same path, by an assignment of a new value to that attribute in the same call:

  * an assignment ``self._x = ...`` earlier in the method, in a block that encloses the write (an allocation under a
    condition that does not enclose the write does not count: "allocated only when the shape changes" reuses the array);
  * or a call, earlier in an enclosing block, of a method of the class (or ``super()``) that assigns it unconditionally;
  * or, for a private helper, the same in every method of the class that calls it.

Exposed: returned by a property or a public method of the class (``return self._x``, possibly subscripted).  Attributes
that hold numbers (assigned a numeric literal somewhere in the class: counters, running distances) are not arrays.
"""

from __future__ import annotations

import ast

from engine import core
from engine.core import AnalysisError

# (file, class, attribute): reason the in-place write is the documented behaviour
EXCEPTIONS = {
    ("phonopy/phonon/group_velocity.py", "GroupVelocity", "_directions"): "row 0 is per-call scratch: it is assigned on both arms of the test on the perturbation (R14f decides that) before it is normalised in place; rows 1-3 are constants",
    ("phonopy/phonon/tetrahedron_mesh.py", "TetrahedronMesh", "_integration_weights"): "the iterator yields its buffer for immediate use; every element is rewritten in each step (all bands) before it is yielded",
}


def _methods(cls):
    return {n.name: n for n in cls.body if isinstance(n, ast.FunctionDef)}


def _blocks_of(m):
    """statement -> list of enclosing statement lists (innermost last)"""
    out = {}

    def walk(stmts, chain):
        for st in stmts:
            out[id(st)] = chain + [stmts]
            for fld in ("body", "orelse", "finalbody"):
                sub = getattr(st, fld, None)
                if isinstance(sub, list) and sub and isinstance(sub[0], ast.stmt):
                    walk(sub, chain + [stmts])
            for h in getattr(st, "handlers", []) or []:
                walk(h.body, chain + [stmts])

    walk(m.body, [])
    return out


def _stmt_of(node, m):
    """the statement of m that contains node"""
    for st in ast.walk(m):
        if isinstance(st, ast.stmt) and st is not m and any(x is node for x in ast.walk(st)):
            best = st
    # innermost statement
    cands = [st for st in ast.walk(m) if isinstance(st, ast.stmt) and st is not m and any(x is node for x in ast.walk(st))]
    return min(cands, key=lambda s: len(list(ast.walk(s)))) if cands else None


def _assigns_unconditionally(m, attr, methods, depth=0):
    """the method assigns self.<attr> on every path: a top-level assignment, a call of a method that does, or an
    if statement whose two arms both do"""

    def block(stmts):
        for st in stmts:
            if isinstance(st, ast.Assign):
                for t in st.targets:
                    for y in (t.elts if isinstance(t, ast.Tuple) else [t]):
                        if isinstance(y, ast.Attribute) and core.src(y.value) == "self" and y.attr == attr:
                            return True
            if isinstance(st, (ast.Expr, ast.Assign)) and depth < 3:
                for c in ast.walk(st):
                    if isinstance(c, ast.Call) and isinstance(c.func, ast.Attribute) and core.src(c.func.value) in ("self", "super()") and c.func.attr in methods and methods[c.func.attr] is not m:
                        if _assigns_unconditionally(methods[c.func.attr], attr, methods, depth + 1):
                            return True
            if isinstance(st, ast.If) and st.orelse and block(st.body) and block(st.orelse):
                return True
            if isinstance(st, ast.With) and block(st.body):
                return True
        return False

    return block(m.body)


def scan(tree, rel, classes=None):
    """[(class, method, write statement, attribute, ok, why)]"""
    out = []
    all_classes = {n.name: n for n in tree.body if isinstance(n, ast.ClassDef)}
    for cname, cls in all_classes.items():
        if classes is not None and cname not in classes:
            continue
        methods = dict(_methods(cls))
        todo, seen_b = list(cls.bases), set()
        while todo:  # methods of the base classes defined in the same file (transitively)
            b = todo.pop(0)
            if isinstance(b, ast.Name) and b.id in all_classes and b.id not in seen_b:
                seen_b.add(b.id)
                for k, v in _methods(all_classes[b.id]).items():
                    methods.setdefault(k, v)
                todo += list(all_classes[b.id].bases)
        numeric = set()
        exposed = set()
        for m in methods.values():
            for st in ast.walk(m):
                if isinstance(st, ast.Assign) and isinstance(st.value, ast.Constant) and isinstance(st.value.value, (int, float)) and not isinstance(st.value.value, bool):
                    for t in st.targets:
                        if isinstance(t, ast.Attribute) and core.src(t.value) == "self":
                            numeric.add(t.attr)
            if not m.name.startswith("_") or any(core.src(d) == "property" for d in m.decorator_list) or m.name == "__next__":
                for r in ast.walk(m):
                    if isinstance(r, ast.Return) and r.value is not None:
                        for v in (r.value.elts if isinstance(r.value, ast.Tuple) else [r.value]):
                            while isinstance(v, ast.Subscript):
                                v = v.value
                            if isinstance(v, ast.Attribute) and core.src(v.value) == "self":
                                exposed.add(v.attr)
        callers = {}
        for m in methods.values():
            for c in ast.walk(m):
                if isinstance(c, ast.Call) and isinstance(c.func, ast.Attribute) and core.src(c.func.value) == "self" and c.func.attr in methods:
                    callers.setdefault(c.func.attr, []).append((m, c))

        def fresh_before(m, node, attr, depth=0):
            st = _stmt_of(node, m)
            blocks = _blocks_of(m).get(id(st), [])
            for blk in blocks:
                for prev in blk:
                    if prev.lineno >= st.lineno:
                        break
                    if isinstance(prev, ast.Assign):
                        for t in prev.targets:
                            for y in (t.elts if isinstance(t, ast.Tuple) else [t]):
                                if isinstance(y, ast.Attribute) and core.src(y.value) == "self" and y.attr == attr:
                                    return True
                    if isinstance(prev, (ast.Expr, ast.Assign)):
                        for c in ast.walk(prev):
                            if isinstance(c, ast.Call) and isinstance(c.func, ast.Attribute) and core.src(c.func.value) in ("self", "super()") and c.func.attr in methods and methods[c.func.attr] is not m and _assigns_unconditionally(methods[c.func.attr], attr, methods):
                                return True
            if m.name.startswith("_") and not m.name.startswith("__") and depth < 2 and callers.get(m.name):
                return all(fresh_before(cm, cc, attr, depth + 1) for cm, cc in callers[m.name])
            return False

        for m in methods.values():
            if m.name == "__init__" or m not in cls.body:
                continue
            alias = {}
            for st in ast.walk(m):
                if isinstance(st, ast.Assign) and len(st.targets) == 1 and isinstance(st.targets[0], ast.Name) and isinstance(st.value, ast.Attribute) and core.src(st.value.value) == "self":
                    alias[st.targets[0].id] = st.value.attr
            for st in ast.walk(m):
                tgt = st.target if isinstance(st, ast.AugAssign) else (st.targets[0] if isinstance(st, ast.Assign) and len(st.targets) == 1 and isinstance(st.targets[0], ast.Subscript) else None)
                if tgt is None:
                    continue
                base = tgt
                while isinstance(base, ast.Subscript):
                    base = base.value
                attr = base.attr if isinstance(base, ast.Attribute) and core.src(base.value) == "self" else (alias.get(base.id) if isinstance(base, ast.Name) else None)
                if attr is None or attr in numeric:
                    continue  # (exposure is not required: state set by another method and changed in place by run() makes a second run() differ from the first)
                if isinstance(st, ast.AugAssign) and isinstance(st.value, ast.Constant):
                    continue
                ok = fresh_before(m, st, attr)
                why = EXCEPTIONS.get((rel, cname, attr))
                out.append((cname, m, st, attr, ok or why is not None, why))
    return out


_CONTROL = '''
class K:
    def __init__(self):
        self._r = None
        self._s = None
    @property
    def r(self):
        return self._r
    @property
    def s(self):
        return self._s
    def bad(self, qs):
        if self._r is None or len(self._r) != len(qs):
            self._r = [0] * len(qs)
        for i, q in enumerate(qs):
            self._r[i] = q
    def good(self, qs):
        self._s = [0] * len(qs)
        for i, q in enumerate(qs):
            self._s[i] = q
'''


def run(rep: core.Report, rid: str, scope: list[str], floor: int = 1):
    rep.rule(rid, "results handed out by reference are not overwritten by a later call: every in-place write into an exposed array attribute (directly or through a local alias) is preceded on its path by an assignment of a new value to that attribute in the same call (an allocation under a condition that does not enclose the write reuses the earlier result)", floor)
    ctrl = scan(ast.parse(_CONTROL), "<control>")
    if sorted((m.name, ok) for _, m, _, _, ok, _ in ctrl) != [("bad", False), ("good", True)]:
        raise AnalysisError(f"{rid}: the rule no longer classifies its own two examples")
    for rel in scope:
        for cname, m, st, attr, ok, why in scan(core.parse(rel), rel):
            rep.instance(rid, rel, f"{cname}.{m.name}", core.norm(core.src(st), 90) + (f"  [documented: {why}]" if why else ""), ok,
                         f"'{core.norm(core.src(st), 80)}' writes into the array that self.{attr} already holds and that an earlier call has handed out (the class returns it by reference); no new array is assigned to self.{attr} on this path of the call: results held by the caller from an earlier call are silently replaced / a factor is applied once more", line=st.lineno, nontrivial=why is None)
