"""C18 — the command line is a faithful front-end: option route == tag route (DESIGN §3 C18)."""

from __future__ import annotations

import ast
import re

from engine import core, tables
from engine.core import AnalysisError

ARGP, SETT = tables.ARGP, tables.SETT
SCRIPT = "phonopy/cui/phonopy_script.py"

# options consumed directly by the scripts / argparse, not through the settings pipeline (one reason each)
DIRECT = {
    "conf_filename": "positional configuration/phonopy.yaml file name, read by the script itself",
    "filename": "positional file names of create-force-sets modes",
    "is_graph_plot": "plot/save switches are read from args by phonopy_script (not settings)",
    "is_graph_save": "plot/save switches are read from args by phonopy_script (not settings)",
    "is_legend": "plot legend switch read from args by phonopy_script",
    "is_wien2k_p1": "WIEN2k P1 switch read from args by phonopy_script",
    "loglevel": "verbosity, resolved by phonopy_script before settings exist",
    "quiet": "verbosity, resolved by phonopy_script before settings exist",
    "verbose": "verbosity, resolved by phonopy_script before settings exist",
}
# read_options probes for keys no parser defines (API use of ConfParser with a plain namespace), one reason each
PROBE_ONLY = {
    "calculator": "set programmatically by the script from the --<calculator> flags",
    "frequency_scale_factor": "accepted from Namespace objects built by other front ends (phono3py)",
    "lapack_solver": "accepted from Namespace objects built by other front ends",
    "num_frequency_points": "accepted from Namespace objects built by other front ends",
    "primitive_axis": "old spelling kept for Namespace objects built by other front ends",
    "store_dense_svecs": "accepted from Namespace objects built by other front ends",
}


def _handler_accepts(node: ast.If, key: str) -> set:
    t = core.src(node)
    acc = set()
    if ".lower() == '.true.'" in t or "== '.true.'" in t:
        acc.add("bool")
    if re.search(r"\bint\(", t):
        acc.add("int")
    if re.search(r"\bfloat\(|fracval\(", t):
        acc.add("float")
    if ".split(" in t or "_parse_conf_" in t or "get_" in t:
        acc.add("list")
    if not acc or re.search(r"set_parameter\([^,]+, confs\[", t) or ".strip()" in t or ".lower()" in t or ".upper()" in t:
        acc.add("str")
    return acc


def run(rep: core.Report):
    _r18f(rep)
    _r18h(rep)
    _r18j(rep)
    _r18k(rep)
    _r18l(rep)
    _r18m(rep)
    _r18n(rep)
    from rules import shared_selfalias

    shared_selfalias.run(rep, "R18i", ["phonopy/cui/create_force_sets.py", "phonopy/cui/phonopy_script.py", "phonopy/cui/load_helper.py", "phonopy/cui/collect_cell_info.py", "phonopy/file_IO.py", "phonopy/interface/vasp.py"])
    _r18g(rep)
    rep.rule("R18a", "table closure: every option dest is forwarded (or handled directly), every forwarded key has a parse_conf handler, every parameter has a set_settings consumer calling an existing setter, every settings.<x> read by the scripts exists", 300)
    rep.rule("R18b", "encoding agreement: what read_options stores for a key (.true./.false. literal, joined list, raw typed value) is what the key's parse_conf handler parses; store_false flags forward the negated literal", 90)
    rep.rule("R18c", "guard kind: a numeric option (type=int|float, default None) is forwarded under 'is not None', so an explicit 0 reaches the settings exactly as the tag 'KEY = 0' does", 15)
    rep.rule("R18e", "silence of the option route: an option that was not typed forwards nothing, so a tag from the configuration file survives the option pass -- the parser default of every forwarded dest does not satisfy the guard under which read_options forwards it", 100)
    rep.rule("R18d", "the fc-calculator default split between phonopy-load and phonopy is decided in one place", 1)

    dests = tables.argparse_dests()
    fw, probes = tables.read_options()
    handlers = tables.conf_handlers()
    cons = tables.settings_consumers()
    attrs, setters = tables.settings_attrs()
    if len(dests) < 100 or len({f.conf_key for f in fw}) < 90:
        raise AnalysisError(f"tables shrank: {len(dests)} dests, {len({f.conf_key for f in fw})} forwarded keys (floors 100 / 90)")
    all_attrs = set()
    for k, v in attrs.items():
        all_attrs |= set(v)
    all_setters = {}
    for k, v in setters.items():
        all_setters.update(v)

    # (i) dest -> probe
    for d, info in sorted(dests.items()):
        if d.endswith("_mode") and info.action == "store_true":
            continue  # calculator flags (checked under C17)
        ok = d in probes or d in DIRECT
        rep.instance("R18a", ARGP, "get_parser", f"option dest '{d}' {info.flags[:1]} is forwarded by read_options", ok,
                     f"the option {info.flags} is parsed but nothing reads args.{d}: it has no effect, while its tag has", line=info.line, nontrivial=d in probes)
    for p in sorted(probes):
        ok = p in dests or p in PROBE_ONLY
        rep.instance("R18a", SETT, "read_options", f"probe '{p}' has an option", ok, f"read_options looks for args.{p} but no parser defines it (renamed dest?)", line=probes[p], nontrivial=p in dests)
    # (ii) conf key -> handler
    for f in fw:
        rep.instance("R18a", SETT, f"{f.cls}.read_options", f"'{f.dest}' -> confs['{f.conf_key}'] has a parse_conf handler", f.conf_key in handlers,
                     f"read_options stores confs['{f.conf_key}'] but parse_conf has no branch for it: the option is silently dropped", line=f.line)
    # (iii) parameter -> consumer -> setter
    produced = {}
    for k, lst in handlers.items():
        for cls, node in lst:
            for nm in tables.set_parameter_names(node):
                produced.setdefault(nm, k)
    tree = core.parse(SETT)
    for m in ast.walk(tree):
        if isinstance(m, ast.FunctionDef) and m.name.startswith("_parse_conf_"):
            for nm in tables.set_parameter_names(m):
                produced.setdefault(nm, m.name)
    for nm, key in sorted(produced.items()):
        rep.instance("R18a", SETT, "set_settings", f"parameter '{nm}' (from tag {key.upper()}) is consumed", nm in cons,
                     f"parse_conf stores parameter '{nm}' but set_settings never reads it: tag {key.upper()} has no effect", nontrivial=True)
    for nm, ss in sorted(cons.items()):
        rep.instance("R18a", SETT, "set_settings", f"consumer of '{nm}' has a producer", nm in produced, f"set_settings reads params['{nm}'] but no parse_conf branch produces it (renamed?)", nontrivial=False)
        for st in ss:
            ok = st in all_setters
            rep.instance("R18a", SETT, "set_settings", f"'{nm}' -> settings.{st}()", ok, f"set_settings calls settings.{st}(), which no Settings class defines", nontrivial=True)
            if ok:
                keys = all_setters[st]
                rep.instance("R18a", SETT, st, f"{st} stores {keys}", bool(keys) and all(k in all_attrs for k in keys), f"{st} stores a key that is not in any _default table: {keys}", nontrivial=False)
    # (iv) settings.<x> reads in the scripts
    n_reads = 0
    for rel in (SCRIPT, "phonopy/cui/load_helper.py", "phonopy/cui/create_force_sets.py", "phonopy/cui/collect_cell_info.py", "phonopy/cui/load.py"):
        tree2 = core.parse(rel)
        seen = set()
        for n in ast.walk(tree2):
            if isinstance(n, ast.Attribute) and isinstance(n.value, ast.Name) and n.value.id in ("settings", "_settings") and isinstance(n.ctx, ast.Load):
                if n.attr in seen or n.attr.startswith("set_") or n.attr in ("default",):
                    continue
                seen.add(n.attr)
                n_reads += 1
                rep.instance("R18a", rel, core.qualname_of(n), f"settings.{n.attr}", n.attr in all_attrs, f"settings.{n.attr} is read but no Settings class has that key: KeyError at run time", line=n.lineno)
    if n_reads < 60:
        raise AnalysisError(f"R18a: only {n_reads} distinct settings reads found in the scripts")

    # R18b encoding
    for f in fw:
        if f.conf_key not in handlers:
            continue
        acc = set()
        for cls, node in handlers[f.conf_key]:
            acc |= _handler_accepts(node, f.conf_key)
        d = dests.get(f.dest)
        ok, why = True, ""
        if f.kind in ("true", "false"):
            ok = "bool" in acc
            why = f"read_options stores the literal '{f.value}' but the handler of '{f.conf_key}' does not parse .true./.false."
            if ok and d is not None and d.action in ("store_true", "store_false"):
                negative_flag = any(x.startswith("--no") for x in d.flags) or f.dest.startswith("is_no")
                if f.guard in ("truthy", "is True"):
                    # the flag was given (store_true) / not negated (store_false kept True)
                    want = "false" if (negative_flag and d.action == "store_true") else "true"
                    ok = f.kind == want
                    why = f"option {d.flags[:1]} ({d.action}) is {'a negative' if negative_flag else 'a positive'} flag: when it is set, '.{want}.' must be stored for '{f.conf_key}', not '{f.value}'"
                elif f.guard in ("is False", "falsy"):
                    ok = f.kind == "false"
                    why = f"option {d.flags[:1]} stored False: '.false.' must be forwarded for '{f.conf_key}', not '{f.value}'"
        elif f.kind == "join":
            ok = "list" in acc or "str" in acc
            why = f"a space-joined list is stored for '{f.conf_key}' but its handler parses a scalar"
        elif f.kind == "raw" and d is not None and d.type_ in ("int", "float"):
            ok = bool(acc & {"int", "float", "str"})  # a pass-through handler leaves the conversion to set_settings
            why = f"a {d.type_} is stored for '{f.conf_key}' but its handler parses {sorted(acc)}"
        rep.instance("R18b", SETT, f"{f.cls}.read_options", f"'{f.dest}' stores {f.kind} value for '{f.conf_key}'; handler accepts {sorted(acc)}", ok, why, line=f.line)

    # R18c guard kind
    for f in fw:
        d = dests.get(f.dest)
        if d is None or d.type_ not in ("int", "float") or f.kind != "raw":
            continue
        ok = f.guard in ("is not None", "none") or f.guard.startswith("other")
        rep.instance("R18c", SETT, f"{f.cls}.read_options", f"numeric option '{f.dest}' ({d.type_}) forwarded to '{f.conf_key}' under '{f.guard}'", ok,
                     f"'{' '.join(d.flags[:1])} 0' is dropped by the truthiness test although the tag {f.conf_key.upper()} = 0 is honoured: option and tag do not mean the same", line=f.line)

    # R18e an untyped option is silent
    every = tables.argparse_all()
    for f, d in [(f, d) for f in fw for d in every if d.dest == f.dest]:
        if d.default is None:
            dv = {"store_true": False, "store_false": True}.get(d.action)
        else:
            try:
                dv = ast.literal_eval(d.default)
            except (ValueError, SyntaxError):
                rep.unknown(f"R18e default of '{f.dest}' is not a literal: {d.default}")
                continue
        passes = {"is not None": dv is not None, "truthy": bool(dv), "falsy": not dv, "is True": dv is True, "is False": dv is False}.get(f.guard)
        if passes is None:
            continue
        rep.instance("R18e", ARGP, "get_parser", f"default {dv!r} of '{f.dest}' ({' '.join(d.flags[:1])}) does not pass the forwarding guard '{f.guard}' (-> confs['{f.conf_key}'] = {f.value})", not passes,
                     f"without {' '.join(d.flags[:1])} on the command line args.{f.dest} is {dv!r}, read_options still stores confs['{f.conf_key}'] = {f.value} and the tag {f.conf_key.upper()} of the configuration file is overridden: option route and file route no longer agree", line=d.line)

    # R18d fc calculator default
    src_script = core.read(SCRIPT)
    sites = [m.start() for m in re.finditer(r"fc_calculator\s*=\s*[\"']symfc[\"']|[\"']symfc[\"']", src_script)]
    tree3 = core.parse(SCRIPT)
    deciders = set()
    for n in ast.walk(tree3):
        if isinstance(n, ast.Constant) and n.value == "symfc":
            fn = core.enclosing_function(n)
            if fn is not None:
                deciders.add(fn.name)
    rep.instance("R18d", SCRIPT, "fc-calculator default", f"'symfc' default decided in {sorted(deciders)}", len(deciders) == 1,
                 f"the default force-constants calculator is chosen in {len(deciders)} places ({sorted(deciders)}): phonopy and phonopy-load can drift apart")
    docs = tables.documented_tags()
    missing = sorted(t for t in docs if t.lower() not in handlers)
    rep.note(f"documented tags in doc/setting-tags.md without a parse_conf handler (informational): {missing}")
    rep.extra["tables"] = {"dests": len(dests), "forwards": len(fw), "handlers": len(handlers), "parameters": len(produced), "consumers": len(cons), "settings_keys": len(all_attrs), "documented_tags": len(docs)}



def _r18f(rep):
    """The command defaults (argparse_control: is_nac, fc_symmetry ... of phonopy-load) reach the settings whether or not
    a configuration file is read: every two PhonopyConfParser constructions that can occur for the same command (their
    path conditions do not fix 'load_phonopy_yaml' to opposite values) receive the same default_settings."""
    rep.rule("R18f", "the presence of a configuration file does not change the command defaults: PhonopyConfParser constructions reachable for the same command (same value of load_phonopy_yaml) get the same default_settings", 2)
    fn = core.find_def(SCRIPT, "_read_phonopy_settings")
    flag = None
    for st in ast.walk(fn):
        if isinstance(st, ast.Assign) and len(st.targets) == 1 and isinstance(st.targets[0], ast.Name) and "load_phonopy_yaml" in core.src(st.value) and "argparse_control" in core.src(st.value):
            flag = st.targets[0].id
    if flag is None:
        raise AnalysisError("_read_phonopy_settings: the command flag is no longer read from argparse_control['load_phonopy_yaml']")

    def truth_of(test, branch):
        """value of the flag implied by being in `branch` (True = body, False = orelse) of a test, or None"""
        if isinstance(test, ast.Name) and test.id == flag:
            return branch
        if isinstance(test, ast.UnaryOp) and isinstance(test.op, ast.Not) and isinstance(test.operand, ast.Name) and test.operand.id == flag:
            return not branch
        if isinstance(test, ast.BoolOp) and isinstance(test.op, ast.And) and branch:
            for v in test.values:
                t = truth_of(v, True)
                if t is not None:
                    return t
        if isinstance(test, ast.BoolOp) and isinstance(test.op, ast.Or) and not branch:
            for v in test.values:
                t = truth_of(v, False)
                if t is not None:
                    return t
        return None

    calls = []
    for c in ast.walk(fn):
        if isinstance(c, ast.Call) and core.src(c.func) == "PhonopyConfParser":
            val = None
            node = c
            while node is not fn:
                par = getattr(node, "_parent", None)
                if par is None:
                    break
                if isinstance(par, ast.If):
                    br = True if node in par.body else (False if node in par.orelse else None)
                    if br is not None:
                        t = truth_of(par.test, br)
                        if t is not None and val is None:
                            val = t
                node = par
            ds = [core.src(k.value) for k in c.keywords if k.arg == "default_settings"]
            calls.append((c, val, ds[0] if ds else None))
    if len(calls) < 2:
        raise AnalysisError(f"_read_phonopy_settings: {len(calls)} PhonopyConfParser constructions found, at least 2 confirmed by reading")
    for k, (c, val, ds) in enumerate(calls):
        clash = [c2 for c2, v2, d2 in calls[:k] + calls[k + 1 :] if (val is None or v2 is None or val == v2) and d2 != ds]
        rep.instance("R18f", SCRIPT, "_read_phonopy_settings", f"{core.norm(core.src(c), 90)} [command flag {val}]", not clash,
                     f"this construction passes default_settings={ds}, but {core.norm(core.src(clash[0]), 80) if clash else ''} — reachable for the same command — passes a different one: with a configuration file the command defaults (NAC on, symmetrised force constants for phonopy-load) are not the ones in force without it, so a tag and the equivalent option give different settings", line=c.lineno)



def _r18g(rep):
    from rules import shared_forward

    shared_forward.run(rep, "R18g", SCRIPT, None, 3)



def _r18m(rep):
    """A tag stored by the settings pass is stored whenever it is present, whatever else the same pass contains."""
    rep.rule("R18m", "every value the configuration parser stores from the parameters of one pass (set_x(params['k'])) is stored whenever 'k' is among them, independently of the *other* keys of that pass: the configuration file and the command line are parsed in two passes into one settings object, so a tag and the tag it refines may arrive in different passes; three-valued evaluation of the guards on the way to each store with 'k' present, every other key absent and the settings state unknown", 40)
    tree = core.parse(SETT)
    sites = 0

    def truth(e, k, pname):
        """True / False / None (unknown) of a guard when only key k is among the parameters"""
        if isinstance(e, ast.BoolOp):
            vals = [truth(v, k, pname) for v in e.values]
            if isinstance(e.op, ast.And):
                return False if False in vals else (None if None in vals else True)
            return True if True in vals else (None if None in vals else False)
        if isinstance(e, ast.UnaryOp) and isinstance(e.op, ast.Not):
            v = truth(e.operand, k, pname)
            return None if v is None else (not v)
        if isinstance(e, ast.Compare) and len(e.ops) == 1 and isinstance(e.ops[0], (ast.In, ast.NotIn)) and core.src(e.comparators[0]) == pname and isinstance(e.left, ast.Constant):
            present = e.left.value == k
            return present if isinstance(e.ops[0], ast.In) else (not present)
        # a value read from another key of the pass: that key is absent, the test cannot hold (a KeyError at best)
        others = [x for x in ast.walk(e) if isinstance(x, ast.Subscript) and core.src(x.value) == pname and isinstance(x.slice, ast.Constant) and x.slice.value != k]
        if others:
            return False
        return None

    for fn in [x for x in ast.walk(tree) if isinstance(x, ast.FunctionDef) and x.name == "_set_settings"]:
        pname = next((st.targets[0].id for st in fn.body if isinstance(st, ast.Assign) and isinstance(st.targets[0], ast.Name) and core.src(st.value) in ("self._parameters", "self._confs")), None)
        if pname is None:
            pname = "params"

        def walk(stmts, guards):
            nonlocal sites
            for st in stmts:
                if isinstance(st, ast.If):
                    walk(st.body, guards + [(st.test, True)])
                    walk(st.orelse, guards + [(st.test, False)])
                    continue
                if isinstance(st, (ast.For, ast.While, ast.With, ast.Try)):
                    walk(getattr(st, "body", []), guards)
                    continue
                for c in ast.walk(st):
                    if not (isinstance(c, ast.Call) and isinstance(c.func, ast.Attribute) and c.func.attr.startswith("set_")):
                        continue
                    used = sorted({x.slice.value for a in c.args for x in ast.walk(a) if isinstance(x, ast.Subscript) and core.src(x.value) == pname and isinstance(x.slice, ast.Constant)})
                    if len(used) != 1:
                        continue
                    k = used[0]
                    sites += 1
                    verdict = True
                    blocker = None
                    for test, want in guards:
                        v = truth(test, k, pname)
                        if v is not None and v != want:
                            verdict, blocker = False, test
                            break
                    rep.instance("R18m", SETT, core.qualname_of(fn), f"{c.func.attr}(params['{k}'])", verdict,
                                 "" if verdict else f"'{c.func.attr}(params[\'{k}\'])' is reached only when '{core.norm(core.src(blocker), 70)}' holds, i.e. only when another key arrives in the same pass as '{k}': with the refined tag in the configuration file and '{k}' on the command line (or the other way round) the value is silently dropped, although the same two settings given together are honoured",
                                 line=c.lineno, nontrivial=bool(guards) and len(guards) > 1)

        walk(fn.body, [])
    if sites < 40:
        raise AnalysisError(f"R18m: only {sites} stores of the form set_x(params['k']) found in the _set_settings methods")


def _r18n(rep):
    """What --save-params writes, over what the object holds."""
    import itertools

    from engine import pyeval

    rep.rule("R18n", "--save-params (SAVE_PARAMS): the settings handed to the yaml dumper, evaluated over the finite domain (no dataset / displacements only / displacements and forces) x (force constants present / absent): forces are written whenever the dataset holds them, and force constants are written whenever the object has them and the dataset holds no forces -- a summary file from which the calculation cannot be re-run is the failure", 6)
    fn = core.find_def(SCRIPT, "_finalize_phonopy")
    tree = core.parse(SCRIPT)
    params = [a.arg for a in fn.args.args]
    ph = next((a.arg for a in fn.args.args if a.annotation is not None and core.src(a.annotation).endswith("Phonopy")), None)
    st_ = next((a.arg for a in fn.args.args if a.annotation is not None and "Settings" in core.src(a.annotation)), None)
    if ph is None or st_ is None:
        raise AnalysisError("R18n: _finalize_phonopy lost its annotated parameters (the Phonopy object, the settings)")
    saves = [c for c in ast.walk(fn) if isinstance(c, ast.Call) and any(k.arg == "settings" for k in c.keywords) and (core.src(c.func) == "PhonopyYaml" or (isinstance(c.func, ast.Attribute) and c.func.attr == "save"))]
    if not saves:
        raise AnalysisError("R18n: _finalize_phonopy no longer hands settings= to the yaml dumper / save()")
    sv = next((k.value for k in saves[0].keywords if k.arg == "settings"), None)
    if not isinstance(sv, ast.Name):
        raise AnalysisError("R18n: the settings handed to save() are not a local name")
    var = sv.id
    for ds, fc in itertools.product((None, "displacements", "with-forces"), (None, "FC")):
        E = pyeval.Evaluator(tree, hooks={"attr:save_params": True, "attr:dataset": ds, "attr:force_constants": fc,
                                          "forces_in_dataset": lambda d: d == "with-forces",
                                          "get_default_physical_units": lambda *a, **k: pyeval.Opaque("units")}, where="_finalize_phonopy")
        env = {p_: pyeval.Opaque(p_) for p_ in params}
        done = False
        try:
            for s_ in fn.body:
                E.block([s_], env)
                if isinstance(s_, ast.If) and var in env:
                    done = True
                    break
        except pyeval.Unknown as ex:
            raise AnalysisError(f"R18n: _finalize_phonopy cannot be evaluated over what the object holds ({ex})")
        if not done or not isinstance(env.get(var), dict):
            raise AnalysisError(f"R18n: '{var}' is not bound to a dictionary by the save-params branch")
        got = env[var]
        need_fc = fc is not None and ds != "with-forces"
        need_fs = ds == "with-forces"
        ok = (not need_fc or got.get("force_constants") is True) and (not need_fs or got.get("force_sets") is True)
        rep.instance("R18n", SCRIPT, "_finalize_phonopy", f"dataset: {ds}, force constants: {fc} -> force_sets={got.get('force_sets')}, force_constants={got.get('force_constants')}", ok,
                     f"with --save-params, an object holding {('a dataset with ' + ds) if ds else 'no dataset'} and {'force constants' if fc else 'no force constants'} is saved with force_sets={got.get('force_sets')}, force_constants={got.get('force_constants')}: " + ("the force constants are the only thing the phonons were computed from and they are not written" if need_fc else "the forces are not written") + ", so phonopy_params.yaml does not reload to the calculation that was run", line=fn.lineno)


def _r18l(rep):
    """Dictionary-valued settings: the keys the script reads are keys the parser stores."""
    rep.rule("R18l", "dictionary-valued settings (MODULATION): every key the command-line front end reads from the settings dictionary -- subscript, 'in' test or .get() -- is a key the configuration parser stores under; a key that is never stored reads as 'not given' without any error (.get) and the value of the tag or option never reaches the library call", 3)
    parser = core.find_def(SETT, "PhonopyConfParser._parse_conf_modulation")
    local = next((st.targets[0].id for st in parser.body if isinstance(st, ast.Assign) and isinstance(st.value, ast.Dict) and isinstance(st.targets[0], ast.Name)), None)
    if local is None:
        raise AnalysisError("R18l: _parse_conf_modulation no longer builds its dictionary")
    stored = {d.value.keys[k].value for d in [st for st in parser.body if isinstance(st, ast.Assign) and isinstance(st.value, ast.Dict)] for k in range(len(d.value.keys)) if isinstance(d.value.keys[k], ast.Constant)}
    for st in ast.walk(parser):
        if isinstance(st, ast.Assign) and isinstance(st.targets[0], ast.Subscript) and core.src(st.targets[0].value) == local and isinstance(st.targets[0].slice, ast.Constant):
            stored.add(st.targets[0].slice.value)
    if len(stored) < 3:
        raise AnalysisError(f"R18l: only {sorted(stored)} stored by _parse_conf_modulation")
    tree = core.parse(SCRIPT)
    n = 0
    for fn in [x for x in ast.walk(tree) if isinstance(x, ast.FunctionDef)]:
        names = {st.targets[0].id for st in ast.walk(fn) if isinstance(st, ast.Assign) and isinstance(st.targets[0], ast.Name) and isinstance(st.value, ast.Attribute) and st.value.attr == "modulation" and "settings" in core.src(st.value.value)}
        if not names:
            continue
        for x in ast.walk(fn):
            key = None
            if isinstance(x, ast.Subscript) and isinstance(x.value, ast.Name) and x.value.id in names and isinstance(x.slice, ast.Constant):
                key = x.slice.value
            elif isinstance(x, ast.Compare) and isinstance(x.ops[0], (ast.In, ast.NotIn)) and isinstance(x.comparators[0], ast.Name) and x.comparators[0].id in names and isinstance(x.left, ast.Constant):
                key = x.left.value
            elif isinstance(x, ast.Call) and isinstance(x.func, ast.Attribute) and x.func.attr == "get" and isinstance(x.func.value, ast.Name) and x.func.value.id in names and x.args and isinstance(x.args[0], ast.Constant):
                key = x.args[0].value
            if key is None:
                continue
            n += 1
            rep.instance("R18l", SCRIPT, core.qualname_of(fn), f"{core.norm(core.src(x), 60)} : key '{key}' stored by the parser", key in stored,
                         f"the script reads the key '{key}' of the MODULATION setting, which the parser never stores (it stores {sorted(stored)}): the value given in the tag / option is silently ignored and the library call runs with its default", line=x.lineno)
    if n < 3:
        raise AnalysisError(f"R18l: only {n} reads of the MODULATION setting found in the script")


def _r18k(rep):
    """Tag values read from a configuration file keep their case (the option route hands strings over unchanged)."""
    rep.rule("R18k", "configuration file route: the value of a tag is stored as written (stripped only); case folding is applied to the tag name, never to the value -- band labels, file names, calculator options are case-sensitive and reach the settings unchanged on the option route, so a folded value makes 'TAG = value' and '--option value' mean different things", 1)
    fn = core.find_def(SETT, "ConfParser.read_file")
    FOLD = {"lower", "upper", "casefold", "capitalize", "title", "swapcase"}
    stores = [st for st in ast.walk(fn) if isinstance(st, ast.Assign) and isinstance(st.targets[0], ast.Subscript) and core.src(st.targets[0].value) == "self._confs"]
    if not stores:
        raise AnalysisError("R18k: ConfParser.read_file no longer stores into self._confs")
    asg = {}
    for st in ast.walk(fn):
        if isinstance(st, ast.Assign) and len(st.targets) == 1:
            t = st.targets[0]
            if isinstance(t, ast.Name):
                asg.setdefault(t.id, []).append(st.value)
            elif isinstance(t, (ast.Tuple, ast.List)):
                for k, el in enumerate(t.elts):
                    if isinstance(el, ast.Name):
                        asg.setdefault(el.id, []).append(st.value)  # every element comes out of the same expression

    def folded(e, depth=0):
        for x in ast.walk(e):
            if isinstance(x, ast.Call) and isinstance(x.func, ast.Attribute) and x.func.attr in FOLD:
                return x
            if isinstance(x, ast.Name) and x.id in asg and depth < 4:
                for v in asg[x.id]:
                    if v is None:
                        continue
                    r = folded(v, depth + 1) if not (isinstance(v, ast.Constant)) else None
                    if r is not None:
                        return r
        return None

    n = 0
    for st in stores:
        if isinstance(st.value, ast.BinOp) or (isinstance(st.value, ast.Call) and "self._confs" in core.src(st.value)):
            continue  # continuation lines: the stored value extended / cleaned
        n += 1
        f = folded(st.value)
        rep.instance("R18k", SETT, "ConfParser.read_file", f"{core.norm(core.src(st), 70)} : value stored as written", f is None,
                     f"the value stored for a tag passes through '{core.norm(core.src(f), 50) if f is not None else ''}': BAND_LABELS, CELL_FILENAME, CREATE_FORCE_SETS file names, FC_CALCULATOR_OPTIONS ... given in a configuration file are case-folded while the same value given as an option is not", line=st.lineno)
    if not n:
        raise AnalysisError("R18k: no 'tag = value' store found in ConfParser.read_file")


def _r18j(rep):
    """Calculator-dependent defaults are taken for the calculator of the calculation, not for the raw option."""
    rep.rule("R18j", "calculator-dependent defaults in the command-line front end (default units, displacement distance, default cell file name): the argument of every get_default_*(calculator) call is the resolved calculator -- the Phonopy object's, the collected cell information's, or a local that the phonopy.yaml's entry may overwrite -- never the raw option settings.calculator alone, which is None when the calculator is recorded only in the input yaml file", 8)
    n = 0
    for rel in ("phonopy/cui/phonopy_script.py", "phonopy/cui/load.py", "phonopy/cui/show_symmetry.py", "phonopy/cui/create_force_sets.py", "phonopy/cui/load_helper.py"):
        if not (core.REPO / rel).is_file():
            continue
        tree = core.parse(rel)
        for fn in [x for x in ast.walk(tree) if isinstance(x, ast.FunctionDef)]:
            asg = {}
            for st in ast.walk(fn):
                if isinstance(st, ast.Assign) and len(st.targets) == 1 and isinstance(st.targets[0], ast.Name):
                    asg.setdefault(st.targets[0].id, []).append(st.value)
            for c in ast.walk(fn):
                if not (isinstance(c, ast.Call) and isinstance(c.func, ast.Name) and c.func.id.startswith("get_default_") and c.args):
                    continue
                if core.enclosing_function(c) is not fn:
                    continue
                a = c.args[0]
                if isinstance(a, ast.Constant):
                    continue  # a literal calculator (the VASP fallback file name)
                vals = asg.get(a.id, [a]) if isinstance(a, ast.Name) else [a]
                raw = [v for v in vals if isinstance(v, ast.Attribute) and v.attr == "calculator" and "settings" in core.src(v.value)]
                ok = not raw or len(vals) > len(raw)  # a raw option is fine as the starting value of a local that another source may overwrite
                n += 1
                rep.instance("R18j", rel, core.qualname_of(fn), core.norm(core.src(c), 80), ok,
                             f"'{core.norm(core.src(c), 70)}' takes the default for the raw option '{core.src(raw[0]) if raw else ''}': when the calculator is recorded in the input phonopy.yaml and not repeated on the command line this is the VASP default (e.g. displacement distance 0.01 instead of 0.02 a.u. for QE), so phonopy-load -d and phonopy --qe -d write different files for the same crystal", line=c.lineno)
    if n < 8:
        raise AnalysisError(f"R18j: only {n} calls of calculator-dependent default getters found in the command-line front end")


def _r18h(rep):
    """PRIMITIVE_AXES / --pa given by the user wins over the primitive matrix stored in a phonopy.yaml input, as it does
    in phonopy.load(primitive_matrix=...): path evaluation of _collect_cells_info."""
    CCI = "phonopy/cui/collect_cell_info.py"
    rep.rule("R18h", "precedence of the user's primitive matrix: on every path of _collect_cells_info on which the primitive_matrix argument is given (not None), the primitive matrix returned is that argument, also when the input file is a phonopy.yaml that stores one (the library route phonopy.load(primitive_matrix=...) lets the argument win)", 2)
    fn = core.find_def(CCI, "_collect_cells_info")
    ps = [a.arg for a in fn.args.args]
    if "primitive_matrix" not in ps:
        raise AnalysisError("_collect_cells_info: parameter primitive_matrix vanished")
    rets = [r for r in ast.walk(fn) if isinstance(r, ast.Return) and r.value is not None]
    r0 = core.resolve_name(fn, rets[-1].value) if rets else None
    if not isinstance(r0, ast.Tuple) or len(r0.elts) != 3:
        raise AnalysisError("_collect_cells_info no longer returns (interface mode, supercell matrix, primitive matrix)")

    def truth(test, assume):
        t = core.src(test).replace(" ", "")
        if t == "primitive_matrixisnotNone":
            return assume["user"]
        if t == "primitive_matrixisNone":
            return not assume["user"]
        if t.endswith(".primitive_matrixisnotNone"):
            return assume["file"]
        if t.endswith(".primitive_matrixisNone"):
            return not assume["file"]
        if "phonopy_yaml" in t and "==" in t:
            return assume["yaml"]
        return None

    def tags(e, env):
        out = set()
        for x in ast.walk(e):
            if isinstance(x, ast.Name) and x.id == "primitive_matrix":
                out.add("user")
            elif isinstance(x, ast.Name) and x.id in env:
                out |= env[x.id]
            elif isinstance(x, ast.Attribute) and x.attr == "primitive_matrix":
                out.add("file")
        if isinstance(e, ast.Constant) and e.value is None:
            out.add("none")
        return out

    def run_block(stmts, env, assume):
        envs = [env]
        for st in stmts:
            nxt = []
            for e_ in envs:
                if isinstance(st, (ast.Assign, ast.AnnAssign)) and isinstance(st.targets[0] if isinstance(st, ast.Assign) else st.target, ast.Name) and st.value is not None:
                    e2 = dict(e_)
                    e2[(st.targets[0] if isinstance(st, ast.Assign) else st.target).id] = tags(st.value, e_)
                    nxt.append(e2)
                elif isinstance(st, ast.If):
                    tv = truth(st.test, assume)
                    if tv is not False:
                        nxt += run_block(st.body, dict(e_), assume)
                    if tv is not True:
                        nxt += run_block(st.orelse, dict(e_), assume)
                else:
                    nxt.append(e_)
            envs = nxt
        return envs

    for yaml_mode, file_has in ((True, True), (True, False), (False, False)):
        finals = run_block(fn.body, {}, {"user": True, "file": file_has, "yaml": yaml_mode})
        got = [tags(r0.elts[2], f) for f in finals]
        ok = bool(got) and all(g == {"user"} for g in got)
        rep.instance("R18h", CCI, "_collect_cells_info", f"user's primitive matrix given, {'phonopy.yaml input' if yaml_mode else 'other input'}{' that stores a primitive matrix' if file_has else ''}: returned value comes from {sorted(set().union(*got)) if got else '?'}", ok,
                     "with --pa / PRIMITIVE_AXES given, the primitive matrix handed on is the one stored in the input file: the user's request is dropped on the command-line route while phonopy.load(primitive_matrix=...) honours it, so the same setting gives different primitive cells (and band / mesh / DOS results) on the two routes", line=fn.lineno)


def selftest():
    V = []
    b = lambda name, file, old, new, rule, expect="", **kw: V.append(dict(name=name, kind="break", file=file, old=old, new=new, rule=rule, expect=expect, **kw))
    n = lambda name, file, old, new, **kw: V.append(dict(name=name, kind="neutral", file=file, old=old, new=new, **kw))
    b("save-params: force constants only when there is no dataset at all", SCRIPT, "        exists_fc_only = (\n            not forces_in_dataset(phonon.dataset) and phonon.force_constants is not None\n        )", "        exists_fc_only = phonon.dataset is None and phonon.force_constants is not None", "R18n", "_finalize_phonopy")
    n("save-params: the same test through two locals", SCRIPT, "        exists_fc_only = (\n            not forces_in_dataset(phonon.dataset) and phonon.force_constants is not None\n        )", "        has_forces = forces_in_dataset(phonon.dataset)\n        has_fc = phonon.force_constants is not None\n        exists_fc_only = has_fc and not has_forces")
    b("moment order stored only when the moment tag arrives in the same pass", SETT, '        if self._settings.is_moment:\n            if "moment_order" in params:\n                self._settings.set_moment_order(params["moment_order"])', '        if "moment" in params and params["moment"]:\n            if "moment_order" in params:\n                self._settings.set_moment_order(params["moment_order"])', "R18m", "moment_order")
    n("moment order guard written as one condition", SETT, '        if self._settings.is_moment:\n            if "moment_order" in params:\n                self._settings.set_moment_order(params["moment_order"])', '        if self._settings.is_moment and "moment_order" in params:\n            self._settings.set_moment_order(params["moment_order"])')
    b("default displacement distance for the raw calculator option", SCRIPT, "get_default_displacement_distance(phonon.calculator)", "get_default_displacement_distance(settings.calculator)", "R18j", "main")
    b("tag values lower-cased with the tag names", SETT, "                    left, right = [x.strip() for x in line.split(\"=\")]\n                    self._confs[left.lower()] = right", "                    left, right = [x.strip().lower() for x in line.split(\"=\")]\n                    self._confs[left] = right", "R18k", "read_file")
    b("modulation order read under a key the parser does not store", SCRIPT, "        derivative_order = mod_setting[\"order\"]", "        derivative_order = mod_setting.get(\"derivative_order\")", "R18l", "derivative_order")
    CFS = "phonopy/cui/create_force_sets.py"
    b("residual forces subtracted through a view of the first set", CFS, "    for i in range(1, len(force_sets)):\n        force_sets[i] -= force_sets[0]\n", "    residual_forces = force_sets[0]\n    for forces in force_sets:\n        forces -= residual_forces\n", "R18i", "_subtract_residual_forces")
    n("residual forces subtracted through a copy of the first set", CFS, "    for i in range(1, len(force_sets)):\n        force_sets[i] -= force_sets[0]\n", "    residual_forces = force_sets[0].copy()\n    for forces in force_sets:\n        forces -= residual_forces\n")
    n("residual forces subtracted from the tail", CFS, "    for i in range(1, len(force_sets)):\n        force_sets[i] -= force_sets[0]\n", "    residual_forces = force_sets[0]\n    for forces in force_sets[1:]:\n        forces -= residual_forces\n")
    b("handler of fpitch removed", SETT, 'if conf_key == "fpitch":', 'if conf_key == "f_pitch":', "R18a", "fpitch")
    b("dest renamed on the parser side", ARGP, 'dest="is_nomeshsym"', 'dest="is_no_mesh_sym"', "R18a", "is_no_mesh_sym")
    b("consumer renamed", SETT, 'if "dm_decimals" in params:', 'if "dynmat_decimals" in params:', "R18a", "decimals")
    b("setter call misspelt", SETT, "self._settings.set_sigma(params[\"sigma\"])", "self._settings.set_sigmas(params[\"sigma\"])", "R18a", "set_sigmas")
    b("numeric option back under truthiness", SETT, "            if self._args.tmax is not None:", "            if self._args.tmax:", "R18c", "tmax")
    b("documented default moved into the parser", ARGP, '"--nac-method",\n        dest="nac_method",\n        default=None,', '"--nac-method",\n        dest="nac_method",\n        default="gonze",', "R18e", "nac_method")
    b("store_false flag loses its None default", ARGP, 'dest="is_nac",\n            action="store_false",\n            default=None,', 'dest="is_nac",\n            action="store_false",', "R18e", "is_nac")
    b("negative flag forwards .true.", SETT, '            if self._args.is_nomeshsym:\n                self._confs["mesh_symmetry"] = ".false."', '            if self._args.is_nomeshsym:\n                self._confs["mesh_symmetry"] = ".true."', "R18b", "mesh_symmetry")
    b("script reads a settings key that does not exist", SCRIPT, "settings.is_mesh_symmetry", "settings.is_mesh_symmetric", "R18a", "is_mesh_symmetric", nth=0)
    n("reorder two handlers", SETT, 'if conf_key == "fpitch":', 'if conf_key == "fpitch" and True:')
    n("option read through arg_list.get under is not None", SETT, '        if "rd_temperature" in arg_list:\n            if self._args.rd_temperature is not None:\n                self._confs["random_displacement_temperature"] = (\n                    self._args.rd_temperature\n                )\n', '        rd_temperature = arg_list.get("rd_temperature")\n        if rd_temperature is not None:\n            self._confs["random_displacement_temperature"] = rd_temperature\n')
    b("option merged with its old spelling through 'or'", SETT, '        if "rd_temperature" in arg_list:\n            if self._args.rd_temperature is not None:\n                self._confs["random_displacement_temperature"] = (\n                    self._args.rd_temperature\n                )\n', '        rd_temperature = arg_list.get("rd_temperature") or arg_list.get("temperature")\n        if rd_temperature is not None:\n            self._confs["random_displacement_temperature"] = rd_temperature\n', "R18c", "rd_temperature")
    b("phonopy-load with --config loses the command defaults", SCRIPT, "                args=args,\n                default_settings=argparse_control,\n            )", "                args=args,\n            )", "R18f", "_read_phonopy_settings")
    b("fc-calculator helper called without the command flag", SCRIPT, "    fc_calculator, _ = _get_fc_calculator_params(\n        settings, load_phonopy_yaml=load_phonopy_yaml\n    )\n    if settings.fc_symmetry and fc_calculator == \"traditional\":", "    fc_calculator, _ = _get_fc_calculator_params(settings)\n    if settings.fc_symmetry and fc_calculator == \"traditional\":", "R18g", "load_phonopy_yaml")
    b("stored primitive matrix wins over the user's", "phonopy/cui/collect_cell_info.py", "        if primitive_matrix is not None:\n            _primitive_matrix = primitive_matrix\n        elif phpy.primitive_matrix is not None:\n            _primitive_matrix = phpy.primitive_matrix", "        if phpy.primitive_matrix is not None:\n            _primitive_matrix = phpy.primitive_matrix\n        elif primitive_matrix is not None:\n            _primitive_matrix = primitive_matrix", "R18h", "phonopy.yaml input that stores")
    return V
