"""Shared rule (C02 R02y.outbuf): what a per-call method hands out is not a buffer the object keeps for all calls.

``self._work = np.zeros(...)`` in ``__init__`` and, in the per-q-point method,
``self._dynamical_matrix = solver(self, q, dynmat=self._work)`` with a solver that fills and returns the array it was
given: each call is right at the moment it returns, but every matrix handed out (the property returns
``self._dynamical_matrix``) is the same storage, and the next q-point overwrites what the caller -- a list of matrices
collected over a q-point loop, a finite difference of two matrices -- still holds.

Per class (base classes by name inside the file):

  * *persistent buffers*: attributes bound to an allocation (``np.zeros`` / ``empty`` / ``ones`` / ``full`` and the
    ``_like`` forms) in ``__init__`` and never re-bound in another method;
  * *exposed attributes*: returned by a property or public method -- ``return self._x``, a local bound to it, a
    subscript or view of it -- on some path;
  * function summaries, module functions and methods: parameters the return value may be (``return p``, ``return p[0]``,
    ``return p.view(...)``, also when ``p`` is re-bound on some paths only).

Reported: in a method other than ``__init__``, an exposed attribute is bound to a persistent buffer, to a view of one,
or to the result of a call whose return value may be the persistent buffer passed to it.  Held instances: bindings of
exposed attributes in per-call methods.
"""

from __future__ import annotations

import ast

from engine import core
from engine.core import AnalysisError

_ALLOC = {"np.zeros", "np.empty", "np.ones", "np.full", "np.zeros_like", "np.empty_like", "np.ones_like", "np.full_like", "np.ndarray"}
_VIEW_ATTRS = {"T", "real", "imag"}
_VIEW_CALLS = {"view", "reshape", "ravel", "squeeze", "transpose", "swapaxes"}


def _strip_view(e):
    """the expression under subscripts / views"""
    while True:
        if isinstance(e, ast.Subscript):
            e = e.value
        elif isinstance(e, ast.Attribute) and e.attr in _VIEW_ATTRS:
            e = e.value
        elif isinstance(e, ast.Call) and isinstance(e.func, ast.Attribute) and e.func.attr in _VIEW_CALLS:
            e = e.func.value
        else:
            return e


def returns_params(fn):
    """names of the parameters the return value of fn may be (through views)"""
    params = {a.arg for a in fn.args.posonlyargs + fn.args.args + fn.args.kwonlyargs}
    # a parameter re-bound unconditionally at the top level of the body no longer is the caller's object
    rebound = set()
    for st in fn.body:
        if isinstance(st, ast.Assign):
            for t in st.targets:
                if isinstance(t, ast.Name) and t.id in params:
                    rebound.add(t.id)
    out = set()
    for r in ast.walk(fn):
        if isinstance(r, ast.Return) and r.value is not None:
            vals = r.value.elts if isinstance(r.value, ast.Tuple) else [r.value]
            for v in vals:
                b = _strip_view(v)
                if isinstance(b, ast.Name) and b.id in params and b.id not in rebound:
                    out.add(b.id)
    return out


def scan(tree):
    held, found = [], []
    mod_fns = {n.name: n for n in tree.body if isinstance(n, ast.FunctionDef)}
    classes = {c.name: c for c in ast.walk(tree) if isinstance(c, ast.ClassDef)}

    def mro(c, depth=0):
        out = [c]
        if depth < 5:
            for b in c.bases:
                bn = b.id if isinstance(b, ast.Name) else None
                if bn in classes:
                    out += mro(classes[bn], depth + 1)
        return out

    for cls in classes.values():
        chain = mro(cls)
        methods = {}
        for c in reversed(chain):
            for m in c.body:
                if isinstance(m, ast.FunctionDef):
                    methods[m.name] = m
        inits = [m for c in chain for m in c.body if isinstance(m, ast.FunctionDef) and m.name == "__init__"]
        buffers = {}
        for init in inits:
            for st in ast.walk(init):
                if isinstance(st, ast.Assign) and isinstance(st.value, ast.Call) and core.src(st.value.func) in _ALLOC:
                    for t in st.targets:
                        if isinstance(t, ast.Attribute) and isinstance(t.value, ast.Name) and t.value.id == "self":
                            buffers[t.attr] = st
        for m in methods.values():
            if m.name == "__init__":
                continue
            for st in ast.walk(m):
                if isinstance(st, ast.Assign):
                    for t in st.targets:
                        if isinstance(t, ast.Attribute) and isinstance(t.value, ast.Name) and t.value.id == "self":
                            buffers.pop(t.attr, None)
        exposed = set()
        for m in methods.values():
            public = not m.name.startswith("_") or any(core.src(d) == "property" for d in m.decorator_list)
            if not public or any(core.src(d).endswith(".setter") for d in m.decorator_list):
                continue
            local = {}
            for st in ast.walk(m):
                if isinstance(st, ast.Assign) and len(st.targets) == 1 and isinstance(st.targets[0], ast.Name):
                    b = _strip_view(st.value)
                    if isinstance(b, ast.Attribute) and isinstance(b.value, ast.Name) and b.value.id == "self":
                        local[st.targets[0].id] = b.attr
            for r in ast.walk(m):
                if isinstance(r, ast.Return) and r.value is not None:
                    b = _strip_view(r.value)
                    if isinstance(b, ast.Attribute) and isinstance(b.value, ast.Name) and b.value.id == "self":
                        exposed.add(b.attr)
                    elif isinstance(b, ast.Name) and b.id in local:
                        exposed.add(local[b.id])
        for m in cls.body:
            if not isinstance(m, ast.FunctionDef) or m.name == "__init__":
                continue
            for st in ast.walk(m):
                if not isinstance(st, ast.Assign):
                    continue
                for t in st.targets:
                    if not (isinstance(t, ast.Attribute) and isinstance(t.value, ast.Name) and t.value.id == "self" and t.attr in exposed):
                        continue
                    why = None
                    b = _strip_view(st.value)
                    if isinstance(b, ast.Attribute) and isinstance(b.value, ast.Name) and b.value.id == "self" and b.attr in buffers:
                        why = (b.attr, None)
                    elif isinstance(b, ast.Call):
                        cal = b.func.id if isinstance(b.func, ast.Name) else (b.func.attr if isinstance(b.func, ast.Attribute) and isinstance(b.func.value, ast.Name) and b.func.value.id == "self" else None)
                        callee = mod_fns.get(cal) if isinstance(b.func, ast.Name) else methods.get(cal)
                        if callee is not None:
                            rp = returns_params(callee)
                            ps = [a.arg for a in callee.args.posonlyargs + callee.args.args]
                            if ps and ps[0] == "self" and isinstance(b.func, ast.Attribute):
                                ps = ps[1:]
                            bound = list(zip(ps, b.args)) + [(k.arg, k.value) for k in b.keywords if k.arg]
                            for pn, a in bound:
                                ab = _strip_view(a)
                                if pn in rp and isinstance(ab, ast.Attribute) and isinstance(ab.value, ast.Name) and ab.value.id == "self" and ab.attr in buffers:
                                    why = (ab.attr, callee.name)
                    if why:
                        found.append((cls, m, st, t.attr, why))
                    else:
                        held.append((cls, m, st, t.attr))
    return held, found


_CONTROL = '''
import numpy as np
def solve(obj, q, out=None):
    if out is None or out.shape != (1, 3, 3):
        out = np.zeros((1, 3, 3))
    fill(out, q)
    return out[0]
class Bad:
    def __init__(self):
        self._work = np.zeros((1, 3, 3))
        self._dm = None
    @property
    def dm(self):
        return self._dm
    def run(self, q):
        self._dm = solve(self, q, out=self._work)
class Good:
    def __init__(self):
        self._dm = None
    @property
    def dm(self):
        return self._dm
    def run(self, q):
        self._dm = solve(self, q)
'''


def run(rep: core.Report, rid: str, scope: list[str], floor: int = 0):
    rep.rule(rid, "an attribute that a property or public method hands out is not bound, in a per-call method, to a buffer allocated once in __init__ (directly, as a view, or as the return value of a function that may return the array passed to it): otherwise every result handed out is the same storage and the next call overwrites what earlier callers hold", floor)
    t = ast.parse(_CONTROL)
    h, f = scan(t)
    if sorted(x[0].name for x in f) != ["Bad"] or "Good" not in {x[0].name for x in h}:
        raise AnalysisError(f"{rid}: the rule no longer classifies its own examples (found {[x[0].name for x in f]})")
    for rel in scope:
        tree = core.parse(rel)
        held, found = scan(tree)
        for cls, m, st, attr in held:
            rep.instance(rid, rel, f"{cls.name}.{m.name}", f"self.{attr} = {core.norm(core.src(st.value), 60)}", True, "", line=st.lineno, nontrivial=False)
        for cls, m, st, attr, (buf, via) in found:
            rep.instance(rid, rel, f"{cls.name}.{m.name}", f"self.{attr} = {core.norm(core.src(st.value), 60)}", False,
                         f"{cls.name}.{m.name} binds the attribute '{attr}', which the class hands out by reference, to the buffer 'self.{buf}' that __init__ allocates once" + (f" (through {via}(), whose return value may be the array passed to it)" if via else "") + ": every call hands out the same storage, so the matrix a caller keeps from one q-point is overwritten by the next (a list of matrices collected over a loop holds the last one everywhere)", line=st.lineno)
