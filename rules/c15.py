"""C15 — a Phonopy object answers from its current state whatever its history (DESIGN §3 C15)."""

from __future__ import annotations

import ast

from engine import core, pyabs, pycfg
from engine.core import AnalysisError

API = "phonopy/api_phonopy.py"
ATOMS = "phonopy/structure/atoms.py"
DM = "phonopy/harmonic/dynamical_matrix.py"

PRIMARY = ("self._force_constants", "self._nac_params")
MASS_CALLS = ("self._primitive.set_masses", "self._supercell.set_masses", "self._unitcell.set_masses")
MASS_ATTRS = ("self._primitive.masses", "self._supercell.masses", "self._unitcell.masses")
REBUILD = "self._set_dynamical_matrix"
# guards under which skipping the rebuild is accepted: it is impossible (no masses / no force constants yet)
# repo functions that modify an argument in place only transiently (net identity), one reason each
NET_IDENTITY = {
    "show_drift_force_constants": "transposes a compact array in place (phonoc.transpose_compact_fc), reads the drift, and transposes it back",
}
ACCEPT_DIRTY = {("self._primitive.masses is None", True), ("self._force_constants is None", True)}


class Effects:
    """Does a repo function mutate (in place) the object bound to one of its parameters?"""

    def __init__(self):
        self.idx = pyabs.Index()
        self.memo = {}

    def mutates(self, fdef: ast.FunctionDef, pname: str, depth=0) -> bool:
        key = (id(fdef), pname)
        if key in self.memo:
            return self.memo[key]
        self.memo[key] = False
        if depth > 5:
            return False
        aliases = {pname}
        res = False
        for s in ast.walk(fdef):
            if isinstance(s, ast.Assign) and len(s.targets) == 1 and isinstance(s.targets[0], ast.Name) and isinstance(s.value, ast.Name) and s.value.id in aliases:
                aliases.add(s.targets[0].id)
        for s in ast.walk(fdef):
            if isinstance(s, (ast.Assign, ast.AugAssign)):
                tg = s.targets if isinstance(s, ast.Assign) else [s.target]
                for t in tg:
                    for tt in (t.elts if isinstance(t, ast.Tuple) else [t]):
                        if isinstance(tt, ast.Subscript) and isinstance(tt.value, ast.Name) and tt.value.id in aliases:
                            res = True
                        if isinstance(s, ast.AugAssign) and isinstance(tt, ast.Name) and tt.id in aliases:
                            res = True
            elif isinstance(s, ast.Call):
                f = core.src(s.func)
                for k, a in enumerate(s.args):
                    if isinstance(a, ast.Name) and a.id in aliases:
                        if f.startswith("phonoc.") and k == 0:
                            res = True  # kernels write their first array argument
                        else:
                            nm = s.func.id if isinstance(s.func, ast.Name) else (s.func.attr if isinstance(s.func, ast.Attribute) else None)
                            for rel, g, gcls in self.idx.funcs.get(nm, []):
                                ps = [p.arg for p in g.args.args]
                                if gcls is not None and ps and ps[0] == "self":
                                    ps = ps[1:]
                                if k < len(ps) and self.mutates(g, ps[k], depth + 1):
                                    res = True
        self.memo[key] = res
        return res

    def call_mutates_arg(self, call: ast.Call, argtext: str) -> bool:
        nm = call.func.id if isinstance(call.func, ast.Name) else (call.func.attr if isinstance(call.func, ast.Attribute) else None)
        if nm in NET_IDENTITY:
            return False
        for k, a in enumerate(call.args):
            if core.src(a) == argtext:
                if core.src(call.func).startswith("phonoc.") and k == 0:
                    return True
                for rel, g, gcls in self.idx.funcs.get(nm, []):
                    ps = [p.arg for p in g.args.args]
                    if gcls is not None and ps and ps[0] == "self":
                        ps = ps[1:]
                    if k < len(ps) and self.mutates(g, ps[k]):
                        return True
        return False


def run(rep: core.Report):
    rep.rule("R15a", "every public method/setter of Phonopy that rebinds or mutates force constants, NAC parameters or masses reaches _set_dynamical_matrix() on every normal exit (or only skips it when masses/force constants are absent); dataset writers reset the displaced-supercell cache", 9)
    rep.rule("R15b", "_set_dynamical_matrix builds a fresh object from all four state fields and rebuilds every persistent helper that captured the old one", 3)
    rep.rule("R15c", "derived-state builders do not write a primary state field with a value that depends on that field through anything but identity", 3)
    rep.rule("R15d", "PhonopyAtoms hands out copies and stores converted copies; Phonopy.dataset copies its input; Phonopy._copy forwards every constructor parameter", 25)
    rep.rule("R15e", "DynamicalMatrixGL's lazily built caches are written only by its constructor, the NAC setters and make_Gonze_nac_dataset", 3)
    cls = core.find_def(API, "Phonopy")
    eff = Effects()
    methods = {}
    for m in cls.body:
        if isinstance(m, ast.FunctionDef):
            kind = "setter" if core._is_property_setter(m) else ("getter" if any(core.src(d) == "property" for d in m.decorator_list) else "method")
            methods.setdefault(m.name, []).append((kind, m))

    summary = {}  # (name, kind) -> 'clean' | 'dirty' | None

    def classify_factory(owner):
        def classify(s):
            # rebuild
            for c in ast.walk(s):
                if isinstance(c, ast.Call) and core.src(c.func) == REBUILD:
                    return "clean"
            verdict = None
            if isinstance(s, ast.Assign):
                for t in s.targets:
                    tt = core.src(t)
                    if tt in PRIMARY:
                        if isinstance(s.value, ast.Constant) and s.value.value is None:
                            continue  # writing None: getters return None before any cache is consulted
                        verdict = "dirty"
                    if tt in MASS_ATTRS:
                        verdict = "dirty"
                    # property setter of this class invoked by attribute assignment
                    if isinstance(t, ast.Attribute) and isinstance(t.value, ast.Name) and t.value.id == "self" and not t.attr.startswith("_"):
                        for kind, m in methods.get(t.attr, []):
                            if kind == "setter" and m is not owner:
                                r = method_summary(m)
                                if r is not None:
                                    verdict = r
                    if isinstance(t, ast.Subscript) and core.src(t.value) in PRIMARY:
                        verdict = "dirty"
            if isinstance(s, ast.AugAssign) and (core.src(s.target) in PRIMARY or (isinstance(s.target, ast.Subscript) and core.src(s.target.value) in PRIMARY)):
                verdict = "dirty"
            for c in ast.walk(s):
                if not isinstance(c, ast.Call):
                    continue
                f = core.src(c.func)
                if f in MASS_CALLS:
                    verdict = "dirty"
                for p in PRIMARY:
                    if any(core.src(a) == p for a in c.args) and eff.call_mutates_arg(c, p):
                        verdict = "dirty"
                if isinstance(c.func, ast.Attribute) and isinstance(c.func.value, ast.Name) and c.func.value.id == "self":
                    for kind, m in methods.get(c.func.attr, []):
                        if kind == "method" and m is not owner:
                            r = method_summary(m)
                            if r is not None:
                                verdict = r
            return verdict

        return classify

    active = set()

    def method_summary(m):
        key = id(m)
        if key in summary:
            return summary[key]
        if key in active:
            return None
        active.add(key)
        ts = pycfg.Typestate(m, classify_factory(m))
        exits = ts.run()
        touched = _touches(m, classify_factory(m))
        res = None
        if touched:
            dirty = [w for n, w in exits if pycfg.Typestate.MARK not in w.defined and not (set(w.facts) & ACCEPT_DIRTY)]
            res = "dirty" if dirty else "clean"
        active.discard(key)
        summary[key] = res
        summary[(key, "exits")] = exits
        return res

    def _touches(m, classify):
        for s in ast.walk(m):
            if isinstance(s, ast.stmt) and not isinstance(s, (ast.FunctionDef, ast.If, ast.For, ast.While, ast.With, ast.Try)):
                if classify(s) in ("dirty", "clean"):
                    # 'clean' alone (a bare rebuild) is not a write
                    if classify(s) == "dirty":
                        return True
        return False

    writers = 0
    for name, lst in sorted(methods.items()):
        for kind, m in lst:
            if kind == "getter" or name in ("__init__", "_set_dynamical_matrix"):
                continue
            if name.startswith("_"):
                continue  # private helpers are judged through their public callers
            r = method_summary(m)
            if r is None:
                continue
            writers += 1
            exits = summary[(id(m), "exits")]
            bad = [(n, w) for n, w in exits if pycfg.Typestate.MARK not in w.defined and not (set(w.facts) & ACCEPT_DIRTY)]
            why = ""
            if bad:
                n, w = bad[0]
                where = f"the return at line {n.lineno}" if n is not None else "the end of the method"
                why = f"force constants / NAC parameters / masses are written but {where} is reached without _set_dynamical_matrix() on the path [{', '.join(f'{t}={v}' for t, v in sorted(w.facts))}]: the cached dynamical matrix (and group velocity) stay stale"
            rep.instance("R15a", API, f"Phonopy.{name}" + (".setter" if kind == "setter" else ""), "state write is followed by _set_dynamical_matrix() on every normal exit", not bad, why, line=m.lineno)
    if writers < 7:
        raise AnalysisError(f"R15a: only {writers} state-writing public methods found, 7 confirmed by reading")

    # dataset writers reset the displaced supercells
    for name, lst in sorted(methods.items()):
        for kind, m in lst:
            if kind == "getter" or name == "__init__":
                continue
            writes = []
            for s in ast.walk(m):
                if isinstance(s, ast.Assign):
                    for t in s.targets:
                        tt = core.src(t)
                        if tt == "self._dataset" and not (isinstance(s.value, ast.Constant) and s.value.value is None and name in ("set_unitcell",)):
                            writes.append(s)
                        if isinstance(t, ast.Subscript) and core.src(t.value) == "self._dataset" and isinstance(t.slice, ast.Constant) and t.slice.value in ("displacements", "first_atoms", "natom"):
                            writes.append(s)
            if not writes:
                continue

            def classify(s, writes=writes):
                if s in writes:
                    return "dirty"
                if isinstance(s, ast.Assign) and core.src(s.targets[0]) == "self._supercells_with_displacements" and isinstance(s.value, ast.Constant) and s.value.value is None:
                    return "clean"
                if isinstance(s, ast.Assign) and isinstance(s.targets[0], ast.Attribute) and core.src(s.targets[0]) in ("self.displacements", "self.dataset"):
                    return "clean"
                return None

            exits = pycfg.Typestate(m, classify).run()
            bad = [(n, w) for n, w in exits if pycfg.Typestate.MARK not in w.defined]
            rep.instance("R15a", API, f"Phonopy.{name}" + (".setter" if kind == "setter" else ""), "dataset displacement content replaced => self._supercells_with_displacements = None on every exit", not bad,
                         "the displacement dataset is replaced but the cached displaced supercells survive", line=m.lineno)

    _r15b(rep, cls, methods)
    _r15c(rep, cls, methods)
    _r15d(rep, cls, methods)
    _r15e(rep)


# ---------------------------------------------------------------------------


def _r15b(rep, cls, methods):
    m = methods["_set_dynamical_matrix"][0][1]
    assigns = [s for s in ast.walk(m) if isinstance(s, ast.Assign) and core.src(s.targets[0]) == "self._dynamical_matrix"]
    fresh = [s for s in assigns if isinstance(s.value, ast.Call)]
    ok = len(fresh) == 1 and core.src(fresh[0].value.func) == "get_dynamical_matrix"
    rep.instance("R15b", API, "Phonopy._set_dynamical_matrix", "self._dynamical_matrix = get_dynamical_matrix(…) (fresh object)", ok, "the dynamical matrix is not rebuilt by a fresh constructor call", line=m.lineno)
    if ok:
        args = [core.src(a) for a in fresh[0].value.args]
        need = {"self._force_constants", "self._supercell", "self._primitive"}
        nac_ok = any(a in ("nac_params", "self._nac_params") for a in args)
        # nac_params local derives from self._nac_params
        derives = [core.src(s.value) for s in ast.walk(m) if isinstance(s, ast.Assign) and core.src(s.targets[0]) == "nac_params"]
        nac_ok = nac_ok and (not derives or all("self._nac_params" in d for d in derives))
        rep.instance("R15b", API, "Phonopy._set_dynamical_matrix", f"get_dynamical_matrix({', '.join(args[:4])}, …)", need <= set(args) and nac_ok,
                     "the rebuild does not read all of force constants, supercell, primitive (masses) and NAC parameters", line=fresh[0].lineno)
    # persistent helpers that captured the dynamical matrix
    captured = {}
    for name, lst in methods.items():
        for kind, mm in lst:
            for s in ast.walk(mm):
                if isinstance(s, ast.Assign) and isinstance(s.value, ast.Call) and isinstance(s.targets[0], ast.Attribute) and core.src(s.targets[0]).startswith("self._"):
                    if any(core.src(a) == "self._dynamical_matrix" for a in list(s.value.args) + [k.value for k in s.value.keywords]):
                        captured.setdefault(core.src(s.targets[0]), set()).add(name)
    persistent = []
    for attr, builders in captured.items():
        # read by a public run/init method that does not rebuild it itself
        for name, lst in methods.items():
            for kind, mm in lst:
                if name in builders or name.startswith("_") or kind == "getter":
                    continue
                reads = [n for n in ast.walk(mm) if isinstance(n, ast.Attribute) and core.src(n) == attr and isinstance(n.ctx, ast.Load)]
                passes = [n for n in reads if not isinstance(getattr(n, "_parent", None), ast.Compare)]
                assigns_here = [s for s in ast.walk(mm) if isinstance(s, ast.Assign) and core.src(s.targets[0]) == attr]
                if passes and not assigns_here and attr not in persistent:
                    # used (not merely tested) by a method that does not build it
                    uses_as_value = [n for n in passes if isinstance(getattr(n, "_parent", None), (ast.keyword, ast.Assign)) or (isinstance(getattr(n, "_parent", None), ast.Call) and n in n._parent.args)]
                    if uses_as_value:
                        persistent.append(attr)
    rebuilt = set()
    for c in ast.walk(m):
        if isinstance(c, ast.Call) and core.src(c.func).startswith("self._set_"):
            target = methods.get(c.func.attr)
            if target:
                for s in ast.walk(target[0][1]):
                    if isinstance(s, ast.Assign) and core.src(s.targets[0]).startswith("self._"):
                        rebuilt.add(core.src(s.targets[0]))
    for s in ast.walk(m):
        if isinstance(s, ast.Assign):
            rebuilt.add(core.src(s.targets[0]))
    helpers = [a for a in persistent if a in ("self._group_velocity",) or a not in ("self._mesh", "self._band_structure", "self._qpoints")]
    for a in sorted(set(helpers)):
        rep.instance("R15b", API, "Phonopy._set_dynamical_matrix", f"persistent helper {a} (built from the dynamical matrix, reused by later run_* calls) is rebuilt", a in rebuilt,
                     f"{a} keeps a reference to the previous dynamical-matrix object after a state change", line=m.lineno)
    if "self._group_velocity" not in helpers:
        raise AnalysisError("R15b: the group-velocity helper was not recognised as persistent (anchor lost)")


def _r15c(rep, cls, methods):
    for name in ("_set_dynamical_matrix", "_set_group_velocity", "_build_supercells_with_displacements"):
        if name not in methods:
            raise AnalysisError(f"anchor vanished: Phonopy.{name}")
        m = methods[name][0][1]
        bad = []
        for s in ast.walk(m):
            if isinstance(s, ast.Assign):
                for t in s.targets:
                    tt = core.src(t)
                    if tt in PRIMARY or tt == "self._dataset":
                        bad.append(s)
        if not bad:
            rep.instance("R15c", API, f"Phonopy.{name}", "writes no primary state field", True, line=m.lineno)
        for s in bad:
            # allowed: identity / dtype-normalising round trip.  The value comes back from the object that
            # was just built *from* the field; it is an identity only if the builder passed the field unchanged.
            v = core.src(s.value)
            ident = False
            if v == "self._dynamical_matrix.force_constants":
                g = core.find_def(DM, "get_dynamical_matrix")
                scaled = [x for x in ast.walk(g) if isinstance(x, ast.Assign) and core.src(x.targets[0]) == "_fc2" and core.src(x.value) != "fc2"]
                ident = not scaled
                why = f"'{core.src(s)}' writes back what get_dynamical_matrix built from the field, and that is '{core.src(scaled[0].value)}' when frequency_scale_factor is set: every later rebuild rescales the stored force constants again" if scaled else ""
            else:
                why = f"a derived-state builder assigns {core.src(s.targets[0])} = {v}"
            rep.instance("R15c", API, f"Phonopy.{name}", core.src(s), ident, why, line=s.lineno)


def _r15d(rep, cls, methods):
    a = core.find_def(ATOMS, "PhonopyAtoms")
    fields = set()
    for s in ast.walk(a):
        if isinstance(s, ast.Assign) and isinstance(s.targets[0], ast.Attribute) and core.src(s.targets[0]).startswith("self._") and isinstance(s.value, ast.Call) and core.src(s.value.func) in ("np.array", "np.zeros", "np.dot"):
            fields.add(core.src(s.targets[0]))
    for m in a.body:
        if isinstance(m, ast.FunctionDef):
            local_arrays = {core.src(x.targets[0]) for x in ast.walk(m) if isinstance(x, ast.Assign) and isinstance(x.targets[0], ast.Name) and isinstance(x.value, ast.Call) and core.src(x.value.func) in ("np.array", "np.zeros", "np.dot")}
            for x in ast.walk(m):
                if isinstance(x, ast.Assign) and isinstance(x.targets[0], ast.Attribute) and core.src(x.targets[0]).startswith("self._") and isinstance(x.value, ast.Name) and x.value.id in local_arrays:
                    fields.add(core.src(x.targets[0]))
    if len(fields) < 5:
        raise AnalysisError(f"PhonopyAtoms: array-valued fields not recognised ({fields})")
    for m in a.body:
        if not isinstance(m, ast.FunctionDef) or m.name.startswith("_"):
            continue
        if core._is_property_setter(m):
            continue
        for r in ast.walk(m):
            if isinstance(r, ast.Return) and r.value is not None:
                leaks = []
                for n in ast.walk(r.value):
                    if isinstance(n, ast.Attribute) and core.src(n) in fields:
                        par = getattr(n, "_parent", None)
                        wrapped = False
                        cur = n
                        while cur is not r.value and cur is not None:
                            p = getattr(cur, "_parent", None)
                            if isinstance(p, ast.Call) and (cur in p.args or (isinstance(p.func, ast.Attribute) and p.func.value is cur and p.func.attr in ("copy", "tolist", "astype"))):
                                wrapped = True
                                break
                            if isinstance(p, ast.Attribute) and p.attr in ("copy",):
                                pass
                            cur = p
                        if isinstance(par, ast.Attribute) and par.attr == "copy":
                            wrapped = True
                        if isinstance(par, ast.Call) and n in par.args:
                            wrapped = True
                        if isinstance(par, ast.keyword):
                            wrapped = True  # handed to a constructor/function, whose own stores are checked below
                        if not wrapped:
                            leaks.append(core.src(n))
                if any(isinstance(n, ast.Attribute) and core.src(n) in fields for n in ast.walk(r.value)):
                    rep.instance("R15d", ATOMS, f"PhonopyAtoms.{m.name}", core.norm(core.src(r), 90), not leaks,
                                 f"the public method hands out the internal array(s) {leaks} without a copy: a caller can change the cell's state through the returned value", line=r.lineno)
        # stores
    for m in a.body:
        if not isinstance(m, ast.FunctionDef):
            continue
        params = {p.arg for p in m.args.args} - {"self"}
        for s in ast.walk(m):
            if isinstance(s, ast.Assign) and isinstance(s.targets[0], ast.Attribute) and core.src(s.targets[0]) in fields:
                bare = isinstance(s.value, ast.Name) and s.value.id in params
                rep.instance("R15d", ATOMS, f"PhonopyAtoms.{m.name}", core.norm(core.src(s), 90), not bare,
                             f"the caller's array '{core.src(s.value)}' is stored without conversion/copy: later changes by the caller change the cell", line=s.lineno)
    # Phonopy.dataset setter
    ds = [m for k, m in methods["dataset"] if k == "setter"][0]
    copies = [s for s in ast.walk(ds) if isinstance(s, ast.Assign) and core.src(s.targets[0]) == "self._dataset" and isinstance(s.value, ast.Name)]
    rep.instance("R15d", API, "Phonopy.dataset.setter", "type-1 dataset is deep-copied, type-2 goes through the array-converting setters", not copies and "copy.deepcopy(dataset)" in core.src(ds),
                 "the caller's dataset dict is stored by reference", line=ds.lineno)
    dsp = [m for k, m in methods["displacements"] if k == "setter"][0]
    st = [s for s in ast.walk(dsp) if isinstance(s, ast.Assign) and core.src(s.targets[0]) == "self._dataset['displacements']"]
    okc = bool(st) and isinstance(st[0].value, ast.Name) and any(isinstance(x, ast.Assign) and core.src(x.targets[0]) == st[0].value.id and core.src(x.value).startswith("np.array(") for x in ast.walk(dsp))
    rep.instance("R15d", API, "Phonopy.displacements.setter", core.src(st[0]) if st else "<vanished>", okc, "displacements are stored without np.array conversion", line=dsp.lineno)
    # _copy forwards every constructor parameter
    init = methods["__init__"][0][1]
    params = [p.arg for p in init.args.args if p.arg not in ("self", "unitcell")]
    cp = methods["_copy"][0][1]
    calls = [c for c in ast.walk(cp) if isinstance(c, ast.Call) and core.src(c.func) == "Phonopy"]
    if not calls:
        raise AnalysisError("Phonopy._copy: constructor call vanished")
    kws = {k.arg: core.src(k.value) for k in calls[0].keywords}
    for p in params:
        if p == "nac_params":
            continue  # deprecated constructor argument; documented as not copied
        ok = p in kws
        val = kws.get(p, "<missing>")
        # the forwarded value must be the attribute that stored that parameter (or the override local)
        stored = [core.src(s.targets[0]) for s in ast.walk(init) if isinstance(s, ast.Assign) and isinstance(s.value, ast.Name) and s.value.id == p and isinstance(s.targets[0], ast.Attribute)]
        if ok and stored and p not in ("supercell_matrix", "primitive_matrix", "log_level"):
            ok = val in stored
        rep.instance("R15d", API, "Phonopy._copy", f"{p}={val}", ok, f"copy() does not forward constructor parameter '{p}' (stored as {stored}): the copy is configured differently from the original", line=calls[0].lineno)
    # the constructor keeps a private copy of the caller's cell: every store into self._unitcell has a freshly built object on the right
    stores = [s for s in ast.walk(init) if isinstance(s, ast.Assign) and core.src(s.targets[0]) == "self._unitcell"]
    if not stores:
        raise AnalysisError("R15d: Phonopy.__init__ no longer stores self._unitcell")
    params = {a.arg for a in init.args.args}
    for st in stores:
        v = st.value
        fresh = isinstance(v, ast.Call) and not (isinstance(v.func, ast.Name) and v.func.id in ("np.asarray",))
        alias = isinstance(v, (ast.Name, ast.Attribute)) and (core.src(v).split(".")[0] in params)
        rep.instance("R15d", API, "Phonopy.__init__", core.src(st), fresh and not alias, "the caller's unit cell object is stored by reference: the masses setter then mutates the caller's cell, and copies / objects built from the same cell share it", line=st.lineno)


def _r15e(rep):
    cls = core.find_def(DM, "DynamicalMatrixGL")
    allowed = {"__init__", "_set_nac_params", "make_Gonze_nac_dataset", "nac_params", "short_range_force_constants", "_prepare_Gonze_force_constants", "set_Gonze_nac_dataset", "_run_c_recip_dipole_dipole_q0", "_run_py_recip_dipole_dipole_q0"}
    for attr in ("self._Gonze_force_constants", "self._dd_q0", "self._G_list"):
        writers = set()
        for m in cls.body:
            if isinstance(m, ast.FunctionDef):
                for s in ast.walk(m):
                    if isinstance(s, ast.Assign) and any(core.src(t) == attr for t in s.targets):
                        writers.add(m.name)
        if not writers:
            raise AnalysisError(f"anchor vanished: DynamicalMatrixGL never assigns {attr}")
        rep.instance("R15e", DM, "DynamicalMatrixGL", f"{attr} written by {sorted(writers)}", writers <= allowed, f"{attr} is also written by {sorted(writers - allowed)}: a lazily built cache can outlive the state it was built from", line=cls.lineno)


_run_main = run


def run(rep: core.Report):
    _run_main(rep)
    from rules import shared_alias

    shared_alias.run(rep, "R15f", ["phonopy/structure/symmetry.py", "phonopy/harmonic/force_constants.py", "phonopy/harmonic/dynamical_matrix.py", "phonopy/structure/atoms.py", "phonopy/structure/cells.py"])
    from rules import shared_freshwrite

    _r15h(rep)
    from rules import shared_viewupdate

    shared_viewupdate.run(rep, "R15i", ["phonopy/harmonic/dynamical_matrix.py", "phonopy/harmonic/derivative_dynmat.py", "phonopy/harmonic/force_constants.py", "phonopy/harmonic/dynmat_to_fc.py", "phonopy/api_phonopy.py", "phonopy/structure/atoms.py"])
    _r15j(rep)
    shared_freshwrite.run(rep, "R15g", ["phonopy/harmonic/dynamical_matrix.py", "phonopy/phonon/group_velocity.py", "phonopy/harmonic/derivative_dynmat.py"], 2)


def _r15h(rep):
    """Constructor configuration is changed by user actions only, never by the internal rebuild of derived objects."""
    rep.rule("R15h", "configuration of the Phonopy object (attributes assigned directly from a constructor parameter: NAC parameters, symmetry tolerance, unit factor, group-velocity step, ...) is reassigned only by public methods and property setters -- a user action -- and never by a private method that rebuilds derived objects: a value written back from a derived object (the finite-difference step a Gonze-Lee group-velocity object chose for itself) would outlive the state that produced it and reach later rebuilds, copy() and ph2ph", 10)
    API_ = "phonopy/api_phonopy.py"
    cls = core.find_def(API_, "Phonopy")
    init = next((n for n in cls.body if isinstance(n, ast.FunctionDef) and n.name == "__init__"), None)
    if init is None:
        raise AnalysisError("R15h: Phonopy.__init__ vanished")
    params = {a.arg for a in init.args.args + init.args.kwonlyargs}
    conf = {}
    for st in init.body:
        if isinstance(st, ast.Assign) and len(st.targets) == 1 and isinstance(st.targets[0], ast.Attribute) and core.src(st.targets[0].value) == "self" and isinstance(st.value, ast.Name) and st.value.id in params:
            conf[st.targets[0].attr] = st.value.id
    if len(conf) < 8:
        raise AnalysisError(f"R15h: only {len(conf)} configuration attributes found in Phonopy.__init__")
    writers = {a: [] for a in conf}
    for m in [n for n in cls.body if isinstance(n, ast.FunctionDef) and n.name != "__init__"]:
        for st in ast.walk(m):
            tgts = st.targets if isinstance(st, ast.Assign) else ([st.target] if isinstance(st, (ast.AugAssign, ast.AnnAssign)) else [])
            for t in tgts:
                for y in (t.elts if isinstance(t, ast.Tuple) else [t]):
                    if isinstance(y, ast.Attribute) and core.src(y.value) == "self" and y.attr in conf:
                        writers[y.attr].append((m, st))
    for attr, par in sorted(conf.items()):
        bad = [(m, st) for m, st in writers[attr] if m.name.startswith("_") and not any(core.src(d).endswith(".setter") for d in m.decorator_list)]
        shown = sorted({m.name for m, _ in writers[attr]}) or ["-"]
        rep.instance("R15h", API_, "Phonopy", f"self.{attr} (constructor parameter {par}): reassigned by {shown}", not bad,
                     f"the private method {bad[0][0].name if bad else ''} assigns the configuration attribute self.{attr} ('{core.norm(core.src(bad[0][1]), 70) if bad else ''}'): a value derived from the current state replaces what the user configured and stays when the state changes; an object that went through that state differs from a fresh one with the same final state", line=bad[0][1].lineno if bad else init.lineno)


def _r15j(rep):
    """Which force constants the batch solver hands to the kernel: decided by the call, not by what was built before."""
    import itertools

    from engine import pyeval

    PYDM = "phonopy/harmonic/dynamical_matrix.py"
    rep.rule("R15j", "force constants handed to the compiled solver, evaluated over (is_nac argument None / False / True) x (Gonze-Lee / Wang) x (short-range dataset already built / not yet): the short-range force constants go to the kernel exactly when this call asks for the non-analytical term with the Gonze-Lee method, the full ones otherwise -- whether an earlier query has already built the dataset makes no difference (the zone-centre evaluation without direction runs with is_nac=False)", 12)
    tree = core.parse(PYDM)
    fn = core.find_def(PYDM, "run_dynamical_matrix_solver_c")
    pn = [a.arg for a in fn.args.args]
    if "is_nac" not in pn:
        raise AnalysisError("R15j: run_dynamical_matrix_solver_c lost its parameter 'is_nac'")
    kcalls = [c for c in ast.walk(fn) if isinstance(c, ast.Call) and core.src(c.func).startswith("phonoc.")]
    if len(kcalls) != 1:
        raise AnalysisError(f"R15j: {len(kcalls)} kernel calls in run_dynamical_matrix_solver_c")
    kname = core.src(kcalls[0].func)

    class _Stop(Exception):
        def __init__(self, args):
            self.args_ = args

    for arg, method, built in itertools.product((None, False, True), ("gonze", "wang"), (False, True)):
        state = {"built": built}

        def dataset(_base=None):
            return ["SHORT_RANGE_FC" if state["built"] else None, "dd_q0", "Gc", "G_list", "Lambda"]

        def make(*a, **k):
            state["built"] = True
            return None

        def kernel(*a, **k):
            raise _Stop(a)

        hooks = {"isinstance": lambda *a: False, "call:is_nac": lambda: True, "attr:nac_method": method, "attr:Gonze_nac_dataset": dataset, "call:make_Gonze_nac_dataset": make,
                 "attr:force_constants": "FULL_FC", "attr:store_dense_svecs": True, "call:get_smallest_vectors": lambda: ["svecs", "multi"],
                 "_get_fc_elements_mapping": lambda *a: ["p2s", "s2p"], "sparse_to_dense_svecs": lambda *a: ["svecs", "multi"], kname: kernel, "len": lambda x: pyeval.Opaque("len", (repr(x),))}
        E = pyeval.Evaluator(tree, hooks=hooks, where="run_dynamical_matrix_solver_c")
        try:
            E.call(fn, [pyeval.Opaque("dm"), pyeval.Opaque("qpoints")], {"is_nac": arg})
            raise AnalysisError("R15j: the kernel call is not reached")
        except _Stop as st:
            passed = st.args_
        except pyeval.Unknown as ex:
            raise AnalysisError(f"R15j: run_dynamical_matrix_solver_c cannot be evaluated ({ex})")
        except pyeval.Raised as ex:
            raise AnalysisError(f"R15j: run_dynamical_matrix_solver_c raises {ex} on the evaluated path")
        eff = True if arg is None else arg
        want = "SHORT_RANGE_FC" if (eff and method == "gonze") else "FULL_FC"
        got = [x for x in passed if x in ("SHORT_RANGE_FC", "FULL_FC")]
        ok = got == [want]
        rep.instance("R15j", PYDM, "run_dynamical_matrix_solver_c", f"is_nac={arg}, method {method}, dataset {'built' if built else 'not built'}: kernel receives {got}", ok,
                     f"with is_nac={arg} and the {method} method the kernel receives {got or 'no force constants'} {'when' if built else 'before'} the short-range dataset has been built, instead of {want}: " + ("a zone-centre evaluation (is_nac=False) made after any other NAC query on the same object uses force constants with the dipole-dipole part removed, so the result depends on the order of the queries" if want == "FULL_FC" else "the non-analytical term is added to the wrong force constants"), line=fn.lineno)


def selftest():
    V = []
    b = lambda name, file, old, new, rule, expect="", **kw: V.append(dict(name=name, kind="break", file=file, old=old, new=new, rule=rule, expect=expect, **kw))
    n = lambda name, file, old, new, **kw: V.append(dict(name=name, kind="neutral", file=file, old=old, new=new, **kw))
    FCF_ = "phonopy/harmonic/force_constants.py"
    PYDM_ = "phonopy/harmonic/dynamical_matrix.py"
    b("batch solver picks the force constants by the object's NAC state instead of the call's flag", PYDM_, "    use_Wang_NAC = False\n    if _is_nac:\n        if dm.nac_method == \"gonze\":", "    use_Wang_NAC = False\n    if dm.is_nac():\n        if dm.nac_method == \"gonze\":", "R15j", "run_dynamical_matrix_solver_c")
    n("batch solver: method test with the sides exchanged", PYDM_, "    if _is_nac:\n        if dm.nac_method == \"gonze\":", "    if _is_nac:\n        if \"gonze\" == dm.nac_method:")
    b("drift report transposes a conditional copy of the caller's compact force constants", FCF_, "            phonoc.transpose_compact_fc(\n                force_constants, permutations, s2pp_map, p2s_map, nsym_list\n            )\n            maxval1, jk1 = _get_drift_per_index(force_constants)\n            phonoc.transpose_compact_fc(\n                force_constants, permutations, s2pp_map, p2s_map, nsym_list\n            )\n            maxval2, jk2 = _get_drift_per_index(force_constants)", "            fc = np.ascontiguousarray(force_constants, dtype=\"double\")\n            maxval2, jk2 = _get_drift_per_index(fc)\n            phonoc.transpose_compact_fc(fc, permutations, s2pp_map, p2s_map, nsym_list)\n            maxval1, jk1 = _get_drift_per_index(fc)", "R15f", "show_drift_force_constants")
    n("drift report transposes a private copy", FCF_, "            phonoc.transpose_compact_fc(\n                force_constants, permutations, s2pp_map, p2s_map, nsym_list\n            )\n            maxval1, jk1 = _get_drift_per_index(force_constants)\n            phonoc.transpose_compact_fc(\n                force_constants, permutations, s2pp_map, p2s_map, nsym_list\n            )\n            maxval2, jk2 = _get_drift_per_index(force_constants)", "            fc = np.array(force_constants, dtype=\"double\", order=\"C\")\n            maxval2, jk2 = _get_drift_per_index(fc)\n            phonoc.transpose_compact_fc(fc, permutations, s2pp_map, p2s_map, nsym_list)\n            maxval1, jk1 = _get_drift_per_index(fc)")
    b("group-velocity step written back by the rebuild", "phonopy/api_phonopy.py", "        self._group_velocity = GroupVelocity(\n            self._dynamical_matrix,\n            q_length=self._gv_delta_q,\n            symmetry=self._primitive_symmetry,\n            frequency_factor_to_THz=self._factor,\n        )\n", "        self._group_velocity = GroupVelocity(\n            self._dynamical_matrix,\n            q_length=self._gv_delta_q,\n            symmetry=self._primitive_symmetry,\n            frequency_factor_to_THz=self._factor,\n        )\n        if self._gv_delta_q is None:\n            self._gv_delta_q = self._group_velocity.q_length\n", "R15h", "_gv_delta_q")
    b("nac_params setter forgets the rebuild", API, "        self._nac_params = nac_params\n        if self._force_constants is not None:\n            self._set_dynamical_matrix()", "        self._nac_params = nac_params", "R15a", "nac_params")
    b("masses setter forgets the rebuild", API, "        self._unitcell.set_masses(u_masses)\n        if self._force_constants is not None:\n            self._set_dynamical_matrix()", "        self._unitcell.set_masses(u_masses)", "R15a", "masses")
    b("cutoff radius: rebuild only when logging", API, "            symprec=self._symprec,\n        )\n        if self._primitive.masses is not None:\n            self._set_dynamical_matrix()\n\n    @property\n    def supercell_energies", "            symprec=self._symprec,\n        )\n        if self._log_level:\n            self._set_dynamical_matrix()\n\n    @property\n    def supercell_energies", "R15a", "set_force_constants_zero_with_radius")
    b("new public writer without rebuild", API, "    def set_masses(self, masses):", "    def scale_force_constants(self, s):\n        \"\"\"Scale.\"\"\"\n        self._force_constants = self._force_constants * s\n\n    def set_masses(self, masses):", "R15a", "scale_force_constants")
    b("symmetrize: early return before rebuild", API, "        if show_drift and self._log_level:\n            sys.stdout.write(\"Max drift after symmetrization by translation: \")", "        if not show_drift:\n            return\n        if show_drift and self._log_level:\n            sys.stdout.write(\"Max drift after symmetrization by translation: \")", "R15a", "symmetrize_force_constants")
    b("displacements setter keeps cached supercells", API, "        self._dataset[\"displacements\"] = disp\n        self._supercells_with_displacements = None", "        self._dataset[\"displacements\"] = disp", "R15a", "displacements")
    b("group velocity not rebuilt", API, "        if self._group_velocity is not None:\n            self._set_group_velocity()\n\n    def _set_group_velocity", "    def _set_group_velocity", "R15b", "_group_velocity")
    b("copy drops symprec", API, "            symprec=self._symprec,\n            is_symmetry=self._is_symmetry,\n            store_dense_svecs", "            is_symmetry=self._is_symmetry,\n            store_dense_svecs", "R15d", "symprec")
    b("copy forwards the wrong flag", API, "use_SNF_supercell=self._use_SNF_supercell,", "use_SNF_supercell=self._store_dense_svecs,", "R15d", "use_SNF_supercell")
    b("cell getter returns internal array", ATOMS, "        return self._cell.copy()", "        return self._cell", "R15d", "cell")
    b("scaled positions stored by reference", ATOMS, "        self._scaled_positions = np.array(scaled_positions, dtype=\"double\", order=\"C\")", "        self._scaled_positions = scaled_positions", "R15d", "_set_scaled_positions")
    n("rebuild wrapped in the existing guard style", API, "        self._nac_params = nac_params\n        if self._force_constants is not None:\n            self._set_dynamical_matrix()", "        self._nac_params = nac_params\n        if self._force_constants is None:\n            return\n        self._set_dynamical_matrix()")
    return V
