"""Shared rule (C15 R15f, C08 R08g): a conditional copy is not changed in place.

`np.asarray(x, dtype=...)`, `np.ascontiguousarray(x)` and `np.require(x, ...)` return x itself when x already has the
requested dtype / layout and a copy otherwise.  Changing their result in place (`r -= ...`, `r[...] = ...`, `r.sort()`,
or handing r to a helper that does) therefore changes the caller's array for some inputs and not for others: the state
of the caller depends on the dtype it happened to use, and "arrays handed in by the caller are not modified" fails.
The rule follows such values inside a module: through locals, through returns of module functions (a function that
returns the conditional copy of its parameter passes the aliasing on to its caller) and into module functions that
mutate their parameter in place.  Only values that *may alias a parameter of the function under analysis -- or the stored array that a property of a
parameter hands out (``mesh.frequencies``; decided from the property bodies of all phonopy classes with that name) --
through a conditional copy* are tracked, in functions and methods, through locals and attributes of self; a compiled
routine that stores through an argument (summaries of the C sources through the glue) changes it in place; arrays a function created itself (np.array, zeros_like, arithmetic results, .copy()) are
fresh.
"""

from __future__ import annotations

import ast

from engine import core

COND_COPY = {"np.asarray", "np.ascontiguousarray", "np.require", "np.asanyarray", "np.asfortranarray"}
VIEWS = {"reshape", "view", "ravel", "squeeze", "swapaxes", "transpose"}
MUT_METHODS = {"sort", "fill", "resize", "itemset", "put", "partition"}


def _functions(tree):
    return {n.name: n for n in tree.body if isinstance(n, ast.FunctionDef)}


def _alias(e, env, fns, depth=0):
    """parameter names (of the function whose env this is) that the value of e may alias *through a conditional copy*"""
    if isinstance(e, ast.Name):
        return set(env.get(e.id, set()))
    if isinstance(e, ast.Call):
        f = core.src(e.func)
        if f in COND_COPY and e.args:
            inner = e.args[0]
            base = set(env.get(inner.id, set())) if isinstance(inner, ast.Name) else _alias(inner, env, fns, depth)
            if isinstance(inner, ast.Name) and inner.id in env.get("__params__", set()):
                base = base | {inner.id}
            # state of another object: an attribute of a parameter that hands out the stored array itself, directly or
            # after it was bound to a local / to an attribute of self without a copy
            base = base | _plain_origin(inner, env)
            return base
        if isinstance(e.func, ast.Attribute) and e.func.attr in VIEWS:
            return _alias(e.func.value, env, fns, depth)
        if isinstance(e.func, ast.Name) and e.func.id in fns and depth < 3:
            summ = summary(fns[e.func.id], fns, depth + 1)
            out = set()
            for pos in summ["returns"]:
                if pos < len(e.args):
                    a = e.args[pos]
                    out |= _alias(a, env, fns, depth)
                    if isinstance(a, ast.Name) and a.id in env.get("__params__", set()):
                        out.add(a.id)
            return out
        return set()
    if isinstance(e, ast.Subscript) and isinstance(e.slice, (ast.Slice, ast.Tuple)):
        return _alias(e.value, env, fns, depth)
    if isinstance(e, ast.Attribute) and e.attr == "T":
        return _alias(e.value, env, fns, depth)
    if isinstance(e, ast.Attribute):
        return set(env.get(core.src(e), set()))
    if isinstance(e, ast.IfExp):
        return _alias(e.body, env, fns, depth) | _alias(e.orelse, env, fns, depth)
    return set()


_cache: dict = {}
EXPOSING: dict = {}  # property name -> True when every phonopy class that defines it returns the stored array itself
EXPOSING_BY_CLASS: dict = {}  # (class name, property name) -> the property returns the stored array itself (base classes followed)
ENTRY_WRITES: dict = {}  # phonoc entry -> argument positions the compiled code stores through


def _plain_origin(e, env):
    """labels of foreign state that e is, without any copy: 'p.attr' for an exposing property of parameter p"""
    direct = env.get("__direct__", {})
    if isinstance(e, (ast.Name, ast.Attribute)) and core.src(e) in direct:
        return set(direct[core.src(e)])
    if isinstance(e, ast.Attribute) and isinstance(e.value, ast.Name) and e.value.id in env.get("__params__", set()) and e.value.id not in ("self", "cls"):
        cls = env.get("__annot__", {}).get(e.value.id)
        verdict = EXPOSING_BY_CLASS.get((cls, e.attr)) if cls else None
        if verdict is None:
            verdict = EXPOSING.get(e.attr)  # no usable annotation: every class that defines the property must expose
        if verdict:
            return {core.src(e)}
    return set()


def prepare(with_c: bool):
    """class / kernel facts the rule uses beyond one module: which properties hand out stored arrays, which phonoc
    entries store through which argument"""
    from rules import shared_ctoralias

    if not EXPOSING:
        K = shared_ctoralias._Classes(core.python_files("phonopy"))
        votes = {}
        for rel in core.python_files("phonopy"):
            for c in ast.walk(core.parse(rel)):
                if not isinstance(c, ast.ClassDef):
                    continue
                for m in c.body:
                    if isinstance(m, ast.FunctionDef) and any(core.src(d) == "property" for d in m.decorator_list):
                        rets = [r for r in ast.walk(m) if isinstance(r, ast.Return) and r.value is not None]
                        direct = bool(rets) and all(isinstance(r.value, ast.Attribute) and isinstance(r.value.value, ast.Name) and r.value.value.id == "self" for r in rets)
                        votes.setdefault(m.name, []).append(direct)
        EXPOSING.update({k: all(v) for k, v in votes.items()})
        for cn in K.cls:
            for c in reversed(K.mro(cn)):
                for m in c.body:
                    if isinstance(m, ast.FunctionDef) and any(core.src(d) == "property" for d in m.decorator_list):
                        rets = [r for r in ast.walk(m) if isinstance(r, ast.Return) and r.value is not None]
                        EXPOSING_BY_CLASS[(cn, m.name)] = bool(rets) and all(isinstance(r.value, ast.Attribute) and isinstance(r.value.value, ast.Name) and r.value.value.id == "self" for r in rets)
    if with_c and not ENTRY_WRITES:
        from rules import shared_zeroinit

        csum = shared_zeroinit.c_summaries()
        glue, exported = shared_zeroinit.xabi.glue_table()
        for ex, fnname in exported.items():
            g = glue.get(fnname)
            if g is None:
                continue
            pidx = {p_.name: i for i, p_ in enumerate(g.params)}
            w = set()
            for callee, texts, nodes in g.calls:
                for ix, a in enumerate(nodes):
                    if csum.get(callee, {}).get(ix) not in ("acc", "init"):
                        continue
                    for x in shared_zeroinit.cast.walk(a):
                        if x.get("kind") == "DeclRefExpr":
                            nm = x.get("referencedDecl", {}).get("name")
                            if nm in pidx:
                                w.add(pidx[nm])
                            elif nm in g.origin and g.origin[nm][0] == "data" and g.origin[nm][1] in pidx:
                                w.add(pidx[g.origin[nm][1]])
            ENTRY_WRITES[ex] = w


def summary(fn, fns, depth=0):
    """{'returns': positions of parameters the return value may alias through a conditional copy,
        'mutates': positions of parameters changed in place, 'sites': [(node, parameter name)]}"""
    key = (id(fn), depth)
    if key in _cache:
        return _cache[key]
    params = [a.arg for a in fn.args.args]
    annot = {}
    for a in fn.args.args + fn.args.kwonlyargs:
        an = a.annotation
        if isinstance(an, ast.Subscript) and core.src(an.value) in ("Optional", "typing.Optional"):
            an = an.slice
        if isinstance(an, ast.Constant) and isinstance(an.value, str):
            annot[a.arg] = an.value.split(".")[-1]
        elif isinstance(an, (ast.Name, ast.Attribute)):
            annot[a.arg] = core.src(an).split(".")[-1]
    env = {"__params__": set(params), "__direct__": {}, "__annot__": annot}
    sites = []
    mutated = set()
    direct = {p: {p} for p in params}  # plain (non-conditional) aliases of a parameter: a parameter itself

    def alias_plain(e):
        if isinstance(e, ast.Name):
            return set(direct.get(e.id, set())) | set(env.get(e.id, set()))
        return _alias(e, env, fns, depth)

    stmts = sorted((n for n in ast.walk(fn) if isinstance(n, (ast.Assign, ast.AugAssign, ast.Expr, ast.Return))), key=lambda n: (n.lineno, n.col_offset))
    # statements that run only on some paths: their assignments add to what a name may be, they do not replace it
    conditional = set()
    for blk in ast.walk(fn):
        if isinstance(blk, (ast.If, ast.For, ast.While, ast.Try, ast.With)) and blk is not fn:
            for sub in ast.walk(blk):
                if sub is not blk and isinstance(sub, ast.stmt) and not isinstance(blk, ast.With):
                    conditional.add(id(sub))
    returns = set()
    for st in stmts:
        if isinstance(st, ast.Assign) and len(st.targets) == 1 and isinstance(st.targets[0], (ast.Name, ast.Attribute)):
            key = core.src(st.targets[0])
            po = _plain_origin(st.value, env) if isinstance(st.value, (ast.Name, ast.Attribute)) else set()
            new_alias = _alias(st.value, env, fns, depth)
            if id(st) in conditional:
                env[key] = set(env.get(key, set())) | new_alias
                po = po | set(env["__direct__"].get(key, set()))
            else:
                env[key] = new_alias
                direct.pop(key, None)
            if po:
                env["__direct__"][key] = po
            else:
                env["__direct__"].pop(key, None)
        elif isinstance(st, ast.Assign) and isinstance(st.targets[0], ast.Subscript):
            base = st.targets[0].value
            for p in (_alias(base, env, fns, depth) if not isinstance(base, ast.Name) else set(env.get(base.id, set()))):
                sites.append((st, p))
                mutated.add(p)
        elif isinstance(st, ast.AugAssign):
            t = st.target.value if isinstance(st.target, ast.Subscript) else st.target
            for p in (set(env.get(t.id, set())) if isinstance(t, ast.Name) else _alias(t, env, fns, depth)):
                sites.append((st, p))
                mutated.add(p)
        elif isinstance(st, ast.Expr) and isinstance(st.value, ast.Call):
            c = st.value
            if isinstance(c.func, ast.Attribute) and c.func.attr in MUT_METHODS and isinstance(c.func.value, ast.Name):
                for p in set(env.get(c.func.value.id, set())):
                    sites.append((st, p))
                    mutated.add(p)
            if isinstance(c.func, ast.Attribute) and core.src(c.func.value) == "phonoc" and ENTRY_WRITES.get(c.func.attr):
                # a compiled routine that stores through this argument
                for pos in ENTRY_WRITES[c.func.attr]:
                    if pos < len(c.args) and isinstance(c.args[pos], (ast.Name, ast.Attribute)):
                        for p in set(env.get(core.src(c.args[pos]), set())):
                            sites.append((st, p))
                            mutated.add(p)
            if isinstance(c.func, ast.Name) and c.func.id in fns and depth < 3:
                # does the helper change its parameter in place?  (directly: AugAssign / subscript store on the parameter)
                callee = fns[c.func.id]
                cps = [a.arg for a in callee.args.args]
                changed = set()
                for x in ast.walk(callee):
                    if isinstance(x, ast.AugAssign):
                        t = x.target.value if isinstance(x.target, ast.Subscript) else x.target
                        if isinstance(t, ast.Name) and t.id in cps:
                            changed.add(cps.index(t.id))
                    if isinstance(x, ast.Assign) and isinstance(x.targets[0], ast.Subscript) and isinstance(x.targets[0].value, ast.Name) and x.targets[0].value.id in cps:
                        changed.add(cps.index(x.targets[0].value.id))
                for pos in changed:
                    if pos < len(c.args) and isinstance(c.args[pos], ast.Name):
                        for p in set(env.get(c.args[pos].id, set())):
                            sites.append((st, p))
                            mutated.add(p)
        elif isinstance(st, ast.Return) and st.value is not None:
            vals = st.value.elts if isinstance(st.value, ast.Tuple) else [st.value]
            for v in vals:
                returns |= {params.index(p) for p in _alias(v, env, fns, depth) if p in params}
    out = {"returns": returns, "mutates": {params.index(p) for p in mutated if p in params}, "sites": sites}
    _cache[key] = out
    return out


def run(rep: core.Report, rid: str, scope: list[str], floor: int = 0):
    rep.rule(rid, "a conditional copy (np.asarray / ascontiguousarray / require of a parameter) is not changed in place, directly, through a local or a returned alias, or by a helper: otherwise the caller's array is modified for some dtypes / layouts and not for others", floor)
    _cache.clear()
    ctrl = ast.parse("def h(b):\n    b -= b.sum(axis=0)\ndef g(x):\n    return np.asarray(x, dtype='double')\ndef f(borns):\n    y = g(borns)\n    h(y)\n    return y\ndef ok(borns):\n    y = np.array(borns, dtype='double')\n    y -= 1\n    return y\n")
    cf = _functions(ctrl)
    if not summary(cf["f"], cf)["mutates"] or summary(cf["ok"], cf)["mutates"]:
        raise core.AnalysisError(f"{rid}: the rule no longer classifies its own examples")
    _cache.clear()
    prepare(any("phonoc." in core.read(rel) for rel in scope))
    ctrl2 = ast.parse("def bad(mesh: Mesh, t):\n    f = np.ascontiguousarray(mesh.frequencies, dtype='double')\n    f *= t\n    return f\ndef good(mesh: Mesh, t):\n    f = np.array(mesh.frequencies, dtype='double')\n    f *= t\n    return f\nclass K:\n    def __init__(self, mesh: Mesh, t):\n        self._f = mesh.frequencies\n        self._f = np.ascontiguousarray(self._f, dtype='double')\n        self._f *= t\n")
    c2 = _functions(ctrl2)
    init2 = [n for n in ast.walk(ctrl2) if isinstance(n, ast.FunctionDef) and n.name == "__init__"][0]
    if EXPOSING_BY_CLASS.get(("Mesh", "frequencies")) and (not summary(c2["bad"], c2)["sites"] or summary(c2["good"], c2)["sites"] or not summary(init2, c2)["sites"]):
        raise core.AnalysisError(f"{rid}: the rule no longer classifies its own examples (state of another object)")
    _cache.clear()
    for rel in scope:
        tree = core.parse(rel)
        fns = _functions(tree)
        allf = [(core.qualname_of(n) if not (n in tree.body) else n.name, n) for n in ast.walk(tree) if isinstance(n, ast.FunctionDef)]
        for name, fn in allf:
            summ = summary(fn, fns)
            seen = set()
            for node, p in summ["sites"]:
                if (node.lineno, p) in seen:
                    continue
                seen.add((node.lineno, p))
                rep.instance(rid, rel, name, f"{core.norm(core.src(node), 70)} on a conditional copy of '{p}'", False,
                             f"'{core.norm(core.src(node), 60)}' changes in place a value that is the caller's own array '{p}' whenever that array already has the requested dtype / layout (np.asarray and its relatives copy only when they must): a float64 input is modified, a list or an integer array is not -- the object the caller keeps (e.g. the Born charges of its NAC parameters, the frequencies stored in a mesh object) is silently altered and later states depend on it", line=node.lineno)
            if summ["returns"] or any(isinstance(c, ast.Call) and core.src(c.func) in COND_COPY for c in ast.walk(fn)):
                rep.instance(rid, rel, name, f"conditional copies in {name}: none changed in place", not summ["sites"], "", line=fn.lineno, nontrivial=False)
