"""Shared rule (C15 R15f, C08 R08g): a conditional copy is not changed in place.

`np.asarray(x, dtype=...)`, `np.ascontiguousarray(x)` and `np.require(x, ...)` return x itself when x already has the
requested dtype / layout and a copy otherwise.  Changing their result in place (`r -= ...`, `r[...] = ...`, `r.sort()`,
or handing r to a helper that does) therefore changes the caller's array for some inputs and not for others: the state
of the caller depends on the dtype it happened to use, and "arrays handed in by the caller are not modified" fails.
The rule follows such values inside a module: through locals, through returns of module functions (a function that
returns the conditional copy of its parameter passes the aliasing on to its caller) and into module functions that
mutate their parameter in place.  Only values that *may alias a parameter of the function under analysis through a
conditional copy* are tracked; arrays a function created itself (np.array, zeros_like, arithmetic results, .copy()) are
fresh.
"""

from __future__ import annotations

import ast

from engine import core

COND_COPY = {"np.asarray", "np.ascontiguousarray", "np.require", "np.asanyarray", "np.asfortranarray"}
VIEWS = {"reshape", "view", "ravel", "squeeze", "swapaxes", "transpose"}
MUT_METHODS = {"sort", "fill", "resize", "itemset", "put", "partition"}


def _functions(tree):
    return {n.name: n for n in tree.body if isinstance(n, ast.FunctionDef)}


def _alias(e, env, fns, depth=0):
    """parameter names (of the function whose env this is) that the value of e may alias *through a conditional copy*"""
    if isinstance(e, ast.Name):
        return set(env.get(e.id, set()))
    if isinstance(e, ast.Call):
        f = core.src(e.func)
        if f in COND_COPY and e.args:
            inner = e.args[0]
            base = set(env.get(inner.id, set())) if isinstance(inner, ast.Name) else _alias(inner, env, fns, depth)
            if isinstance(inner, ast.Name) and inner.id in env.get("__params__", set()):
                base = base | {inner.id}
            return base
        if isinstance(e.func, ast.Attribute) and e.func.attr in VIEWS:
            return _alias(e.func.value, env, fns, depth)
        if isinstance(e.func, ast.Name) and e.func.id in fns and depth < 3:
            summ = summary(fns[e.func.id], fns, depth + 1)
            out = set()
            for pos in summ["returns"]:
                if pos < len(e.args):
                    a = e.args[pos]
                    out |= _alias(a, env, fns, depth)
                    if isinstance(a, ast.Name) and a.id in env.get("__params__", set()):
                        out.add(a.id)
            return out
        return set()
    if isinstance(e, ast.Subscript) and isinstance(e.slice, (ast.Slice, ast.Tuple)):
        return _alias(e.value, env, fns, depth)
    if isinstance(e, ast.Attribute) and e.attr == "T":
        return _alias(e.value, env, fns, depth)
    if isinstance(e, ast.IfExp):
        return _alias(e.body, env, fns, depth) | _alias(e.orelse, env, fns, depth)
    return set()


_cache: dict = {}


def summary(fn, fns, depth=0):
    """{'returns': positions of parameters the return value may alias through a conditional copy,
        'mutates': positions of parameters changed in place, 'sites': [(node, parameter name)]}"""
    key = (id(fn), depth)
    if key in _cache:
        return _cache[key]
    params = [a.arg for a in fn.args.args]
    env = {"__params__": set(params)}
    sites = []
    mutated = set()
    direct = {p: {p} for p in params}  # plain (non-conditional) aliases of a parameter: a parameter itself

    def alias_plain(e):
        if isinstance(e, ast.Name):
            return set(direct.get(e.id, set())) | set(env.get(e.id, set()))
        return _alias(e, env, fns, depth)

    stmts = sorted((n for n in ast.walk(fn) if isinstance(n, (ast.Assign, ast.AugAssign, ast.Expr, ast.Return))), key=lambda n: (n.lineno, n.col_offset))
    returns = set()
    for st in stmts:
        if isinstance(st, ast.Assign) and len(st.targets) == 1 and isinstance(st.targets[0], ast.Name):
            env[st.targets[0].id] = _alias(st.value, env, fns, depth)
            direct.pop(st.targets[0].id, None)
        elif isinstance(st, ast.Assign) and isinstance(st.targets[0], ast.Subscript):
            base = st.targets[0].value
            for p in (_alias(base, env, fns, depth) if not isinstance(base, ast.Name) else set(env.get(base.id, set()))):
                sites.append((st, p))
                mutated.add(p)
        elif isinstance(st, ast.AugAssign):
            t = st.target.value if isinstance(st.target, ast.Subscript) else st.target
            for p in (set(env.get(t.id, set())) if isinstance(t, ast.Name) else _alias(t, env, fns, depth)):
                sites.append((st, p))
                mutated.add(p)
        elif isinstance(st, ast.Expr) and isinstance(st.value, ast.Call):
            c = st.value
            if isinstance(c.func, ast.Attribute) and c.func.attr in MUT_METHODS and isinstance(c.func.value, ast.Name):
                for p in set(env.get(c.func.value.id, set())):
                    sites.append((st, p))
                    mutated.add(p)
            if isinstance(c.func, ast.Name) and c.func.id in fns and depth < 3:
                # does the helper change its parameter in place?  (directly: AugAssign / subscript store on the parameter)
                callee = fns[c.func.id]
                cps = [a.arg for a in callee.args.args]
                changed = set()
                for x in ast.walk(callee):
                    if isinstance(x, ast.AugAssign):
                        t = x.target.value if isinstance(x.target, ast.Subscript) else x.target
                        if isinstance(t, ast.Name) and t.id in cps:
                            changed.add(cps.index(t.id))
                    if isinstance(x, ast.Assign) and isinstance(x.targets[0], ast.Subscript) and isinstance(x.targets[0].value, ast.Name) and x.targets[0].value.id in cps:
                        changed.add(cps.index(x.targets[0].value.id))
                for pos in changed:
                    if pos < len(c.args) and isinstance(c.args[pos], ast.Name):
                        for p in set(env.get(c.args[pos].id, set())):
                            sites.append((st, p))
                            mutated.add(p)
        elif isinstance(st, ast.Return) and st.value is not None:
            vals = st.value.elts if isinstance(st.value, ast.Tuple) else [st.value]
            for v in vals:
                returns |= {params.index(p) for p in _alias(v, env, fns, depth) if p in params}
    out = {"returns": returns, "mutates": {params.index(p) for p in mutated if p in params}, "sites": sites}
    _cache[key] = out
    return out


def run(rep: core.Report, rid: str, scope: list[str], floor: int = 0):
    rep.rule(rid, "a conditional copy (np.asarray / ascontiguousarray / require of a parameter) is not changed in place, directly, through a local or a returned alias, or by a helper: otherwise the caller's array is modified for some dtypes / layouts and not for others", floor)
    _cache.clear()
    ctrl = ast.parse("def h(b):\n    b -= b.sum(axis=0)\ndef g(x):\n    return np.asarray(x, dtype='double')\ndef f(borns):\n    y = g(borns)\n    h(y)\n    return y\ndef ok(borns):\n    y = np.array(borns, dtype='double')\n    y -= 1\n    return y\n")
    cf = _functions(ctrl)
    if not summary(cf["f"], cf)["mutates"] or summary(cf["ok"], cf)["mutates"]:
        raise core.AnalysisError(f"{rid}: the rule no longer classifies its own examples")
    _cache.clear()
    for rel in scope:
        tree = core.parse(rel)
        fns = _functions(tree)
        for name, fn in fns.items():
            summ = summary(fn, fns)
            seen = set()
            for node, p in summ["sites"]:
                if (node.lineno, p) in seen:
                    continue
                seen.add((node.lineno, p))
                rep.instance(rid, rel, name, f"{core.norm(core.src(node), 70)} on a conditional copy of '{p}'", False,
                             f"'{core.norm(core.src(node), 60)}' changes in place a value that is the caller's own array '{p}' whenever that array already has the requested dtype / layout (np.asarray and its relatives copy only when they must): a float64 input is modified, a list or an integer array is not -- the object the caller keeps (e.g. the Born charges of its NAC parameters) is silently altered and later states depend on it", line=node.lineno)
            if summ["returns"] or any(isinstance(c, ast.Call) and core.src(c.func) in COND_COPY for c in ast.walk(fn)):
                rep.instance(rid, rel, name, f"conditional copies in {name}: none changed in place", not summ["sites"], "", line=fn.lineno, nontrivial=False)
