"""Shared rule (C12 R12m, C15 R15i, C02 R02l): a view of stored or passed data is not updated in place under a local name.

``fc_elem = fc[s_i, k]`` is a view of the force constants; ``fc_elem += fc_nac[i, j]`` adds the NAC term into the force
constants themselves, for every later use (``fc_elem = fc[s_i, k] + fc_nac[i, j]`` made a new array).  Reported: an
augmented assignment to a local NAME that was bound to a basic-indexing view (integer / slice / loop-variable
subscripts, ``.T``) of an array reachable from ``self`` or from a parameter, with no rebinding in between.  Updates
written with the subscript on the left (``a[i] += x``) say what they change and are left to the other rules.
"""

from __future__ import annotations

import ast

from engine import core
from engine.core import AnalysisError
from rules.shared_readonly import _roots, _bind, _bind_iter


def _is_view_index(sl, scalars):
    parts = sl.elts if isinstance(sl, ast.Tuple) else [sl]
    for p in parts:
        if isinstance(p, ast.Slice):
            continue
        if isinstance(p, ast.Constant) and (p.value is None or isinstance(p.value, int)):
            continue
        if isinstance(p, ast.Constant) and p.value is Ellipsis:
            continue
        names = [n for n in ast.walk(p) if isinstance(n, ast.Name)]
        if names and all(n.id in scalars for n in names) and not any(isinstance(n, ast.Call) for n in ast.walk(p)):
            continue
        return False
    return True


def scan(tree):
    out = []
    for fn in [x for x in ast.walk(tree) if isinstance(x, ast.FunctionDef)]:
        env = {a.arg: {"param:" + a.arg} for a in fn.args.args + fn.args.kwonlyargs if a.arg != "self"}
        scalars = set()   # loop variables of range / enumerate: integers
        views = {}        # local name -> (roots, binding statement)

        def visit(stmts):
            for st in stmts:
                if isinstance(st, ast.Assign):
                    r = _roots(st.value, env)
                    # an element of an integer index map taken at an integer position is an integer
                    if len(st.targets) == 1 and isinstance(st.targets[0], ast.Name) and isinstance(st.value, ast.Subscript) and "map" in core.src(st.value.value).lower() and _is_view_index(st.value.slice, scalars) and not isinstance(st.value.slice, (ast.Slice, ast.Tuple)):
                        scalars.add(st.targets[0].id)
                    for t in st.targets:
                        if isinstance(t, ast.Name):
                            v = st.value
                            while isinstance(v, ast.Attribute) and v.attr == "T":
                                v = v.value
                            if isinstance(v, ast.Subscript) and r and _is_view_index(v.slice, scalars):
                                views[t.id] = (r, st)
                            else:
                                views.pop(t.id, None)
                        if not isinstance(t, ast.Subscript):
                            _bind(t, r, env)
                elif isinstance(st, ast.AugAssign):
                    if isinstance(st.target, ast.Name) and st.target.id in views:
                        out.append((fn, st, views[st.target.id]))
                elif isinstance(st, ast.For):
                    it = st.iter
                    inner_it = it.args[0] if isinstance(it, ast.Call) and core.src(it.func) in ("list", "tuple") and it.args else it
                    if isinstance(inner_it, ast.Call) and core.src(inner_it.func) in ("np.ndindex", "itertools.product", "product") and all(isinstance(a, ast.Call) and core.src(a.func) == "range" or not isinstance(a, (ast.List, ast.Tuple)) for a in inner_it.args) and core.src(inner_it.func) == "np.ndindex":
                        for n in ast.walk(st.target):
                            if isinstance(n, ast.Name):
                                scalars.add(n.id)
                    if isinstance(it, ast.Call) and core.src(it.func) == "range":
                        for n in ast.walk(st.target):
                            if isinstance(n, ast.Name):
                                scalars.add(n.id)
                    elif isinstance(it, ast.Call) and core.src(it.func) == "enumerate" and isinstance(st.target, ast.Tuple) and isinstance(st.target.elts[0], ast.Name):
                        scalars.add(st.target.elts[0].id)
                        # elements of an integer index map are integers too (for i, s_i in enumerate(p2s_map))
                        if len(st.target.elts) == 2 and isinstance(st.target.elts[1], ast.Name) and "map" in core.src(it.args[0]):
                            scalars.add(st.target.elts[1].id)
                    for n in ast.walk(st.target):
                        if isinstance(n, ast.Name):
                            views.pop(n.id, None)
                    _bind_iter(st.target, st.iter, env)
                    visit(st.body)
                    visit(st.orelse)
                elif isinstance(st, (ast.If, ast.While)):
                    visit(st.body)
                    visit(st.orelse)
                elif isinstance(st, ast.With):
                    visit(st.body)
                elif isinstance(st, ast.Try):
                    visit(st.body)
                    for h in st.handlers:
                        visit(h.body)
                    visit(st.finalbody)

        visit(fn.body)
    return out


_CONTROL = '''
def bad(self, q):
    fc = self._force_constants
    for i, s_i in enumerate(self._p2s_map):
        for k in range(3):
            elem = fc[s_i, k]
            elem += self._nac[i, k]
            use(elem)

def good(self, q):
    fc = self._force_constants
    for i, s_i in enumerate(self._p2s_map):
        for k in range(3):
            elem = fc[s_i, k] + self._nac[i, k]
            elem += 1
            use(elem)
'''


def run(rep: core.Report, rid: str, scope: list[str]):
    rep.rule(rid, "a local name bound to a basic-indexing view of an array reachable from self or from a parameter is not the target of an augmented assignment (x = a[i, j]; x += b changes a): expected count on the tree: none; built-in pair of examples", 0)
    ctrl = sorted({f.name for f, _, _ in scan(ast.parse(_CONTROL))})
    if ctrl != ["bad"]:
        raise AnalysisError(f"{rid}: the rule no longer classifies its own examples ({ctrl})")
    for rel in scope:
        for fn, st, (roots, bind) in scan(core.parse(rel)):
            rep.instance(rid, rel, core.qualname_of(fn), f"{core.norm(core.src(bind), 50)} ; {core.norm(core.src(st), 50)}", False,
                         f"'{core.norm(core.src(bind), 60)}' binds a view of {sorted(roots)} and '{core.norm(core.src(st), 60)}' updates it in place: the stored array itself is changed on every call (e.g. the NAC term accumulates in the force constants), so a second evaluation, and everything else that uses the array, sees other data", line=st.lineno)
