def run(rep, an, tus):
    pass
