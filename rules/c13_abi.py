"""R13a — ABI agreement between Python call sites, the nanobind glue, phonopy.h and the
C definitions (the glue takes untyped nb::ndarray<> and raw-casts .data())."""

from __future__ import annotations

import ast
import os

import sympy as sp
import re

from engine import cast, core, pyabs, xabi
from engine.core import AnalysisError

# C element type  <-  abstract Python dtypes that are layout compatible
OK = {
    "double": {"double", "pyfloat", "pyint", "double<-complex128"},  # scalars: numpy float scalars are accepted as double
    "int64_t": {"int64", "pyint", "pybool", "int_", "pyint?"},
    "int": {"intc", "pyint", "pybool", "pyint?"},
    "const char *": {"str"},
    "char *": {"str"},
}
SCALAR_PY = {"pyfloat", "pyint", "pybool", "pyint?", "str"}


def _norm_type(t: str) -> str:
    return re.sub(r"\s+", " ", t.replace("const ", "").replace(" const", "")).strip()



def _multi_dim(an, g, p) -> bool:
    """Does the kernel address this array with more than one index (so that its memory order matters)?  Yes when the
    glue casts it to a pointer to arrays, or when some access of the forwarded kernel parameter has a subscript that is
    not a single loop variable / constant (a stride appears)."""
    if any("(*)" in (c[1] or "") or "[" in (c[1] or "") for c in p.casts):
        return True
    locals_ = {c[0] for c in p.casts}
    for callee, texts, _nodes in g.calls:
        summ = an.summary(callee)
        if summ is None:
            continue
        kparams = list(getattr(summ, "params", None) or [])  # parameter names in declaration order
        for pos, t in enumerate(texts):
            if t.strip() in locals_ | {p.name}:
                for acc in list(getattr(summ, "reads", [])) + list(getattr(summ, "writes", [])):
                    kp = kparams[pos] if kparams and pos < len(kparams) else None
                    if kp is not None and acc.base != kp:
                        continue
                    try:
                        e = sp.expand(sp.sympify(acc.index))
                    except Exception:
                        continue
                    if any(t_.is_Mul and len([f_ for f_ in t_.args if f_.free_symbols]) >= 2 for t_ in sp.Add.make_args(e)):
                        return True
    return False


def run(rep: core.Report, an, tus):
    rep.rule("R13a.entries", "every m.def entry resolves to a glue function that forwards to one kernel with the arity of its phonopy.h prototype; prototype == definition (types)", 21)
    rep.rule("R13a.roles", "no argument of a C/C++ call is a variable named like a *different* parameter of the callee (swapped-argument detector over all resolved call sites)", 500)
    rep.rule("R13a.glue", "every nb::ndarray<> parameter is cast exactly once, to a pointer type equal to its local's declared type; size variables come from shape(k) of a parameter", 100)
    rep.rule("R13a.arity", "every Python call site passes exactly as many positional arguments as the glue function declares, no keywords", 22)
    rep.rule("R13a.dtype", "the abstract dtype of each Python argument is layout-compatible with the C element type the glue casts it to; arrays are not known to be non-contiguous; arrays are not scalars", 150)
    rep.rule("R13a.rank", "a size read from shape(k) is read from an argument whose Python-side rank exceeds k (where the allocation shape is visible)", 6)

    glue, exported = xabi.glue_table()
    protos = xabi.header_prototypes()
    defs = {}
    all_params = {}
    for tu in tus:
        for n, f in tu.functions.items():
            defs.setdefault(n, (tu, f))
            all_params.setdefault(n, [p.get("name") for p in cast.params(f)])
    for h in ("c/phonopy.h", "c/dynmat.h", "c/derivative_dynmat.h", "c/tetrahedron_method.h", "c/rgrid.h"):
        for n, sig in xabi.header_prototypes(h).items():
            all_params.setdefault(n, [s[0] for s in sig])

    if len(exported) < 21:
        raise AnalysisError(f"R13a: {len(exported)} m.def entries found, 21 confirmed by reading")

    # --- entries ---------------------------------------------------------
    for ex, fname in sorted(exported.items()):
        if fname.startswith("phpy_"):
            ok = fname in protos and fname in defs and len(protos[fname]) == 0
            rep.instance("R13a.entries", cast.GLUE, fname, f"m.def('{ex}') -> {fname}()", ok, "directly exported C function must be declared in phonopy.h, defined, and take no arguments")
            continue
        g = glue[fname]
        kernels = [(cn, args) for cn, args, _ in g.calls if cn.startswith("phpy_")]
        ok = len(kernels) == 1 and kernels[0][0] in protos
        why = f"glue function forwards to {[k[0] for k in kernels]}"
        if ok:
            cn, args = kernels[0]
            ok = len(args) == len(protos[cn])
            why = f"{cn} takes {len(protos[cn])} arguments, glue passes {len(args)}"
            if ok and cn in defs:
                dsig = xabi.c_signature(defs[cn][1])
                if [_norm_type(t) for _, t in dsig] != [_norm_type(t) for _, t in protos[cn]]:
                    ok, why = False, f"phonopy.h prototype of {cn} and its definition disagree on parameter types"
        rep.instance("R13a.entries", cast.GLUE, fname, f"m.def('{ex}') -> {fname} -> {kernels[0][0] if kernels else '?'}", ok, why, line=g.line)

    # --- swapped-argument detector over every resolved C call -------------
    for tu in tus:
        for fname, fn in tu.functions.items():
            for c in cast.walk(fn):
                if c.get("kind") != "CallExpr":
                    continue
                cn = cast.callee_name(c)
                if cn not in all_params:
                    continue
                ps, args = all_params[cn], cast.call_args(c)
                if len(ps) != len(args):
                    rep.instance("R13a.roles", tu.rel, fname, f"{cn}(…): {len(args)} arguments for {len(ps)} parameters", False, "arity mismatch", line=tu.line(c))
                    continue
                names = [cast.ref_name(a) for a in args]
                for i, (a, p) in enumerate(zip(names, ps)):
                    if a is None or not p:
                        continue
                    swapped = a != p and a in ps and ps.index(a) != i and names[ps.index(a)] != a
                    rep.instance("R13a.roles", tu.rel, fname, f"{cn}(… arg {i} '{a}' -> parameter '{p}')", not swapped,
                                 f"argument '{a}' is passed in the position of parameter '{p}' although the callee has a parameter named '{a}' at position {ps.index(a) if a in ps else '?'}: arguments swapped",
                                 line=tu.line(c), nontrivial=(a == p))
    # header vs definition names (same detector across the declaration boundary)
    for n, sig in protos.items():
        if n in defs:
            dn = [p.get("name") for p in cast.params(defs[n][1])]
            hn = [s_[0] for s_ in sig]
            bad = [(i, h, d) for i, (h, d) in enumerate(zip(hn, dn)) if h != d and h in dn and dn.index(h) != i]
            rep.instance("R13a.roles", "c/phonopy.h", n, f"prototype parameter names vs definition ({len(hn)} parameters)", not bad and len(hn) == len(dn),
                         f"header and definition order their parameters differently: {bad[:2]}")

    # --- glue internals ---------------------------------------------------------
    for fname, g in sorted(glue.items()):
        for p in g.params:
            if p.kind != "ndarray":
                continue
            ok = len(p.casts) == 1 and p.casts[0][1] is not None
            why = f"{len(p.casts)} .data() casts"
            if ok:
                local, ct = p.casts[0]
                decl = g.locals_.get(local)
                ok = decl is not None and _norm_type(decl) == _norm_type(ct)
                why = f"cast to '{ct}' but local '{local}' is declared '{decl}'"
            rep.instance("R13a.glue", cast.GLUE, fname, f"{p.name}.data() -> ({p.casts[0][1] if p.casts else '?'}) {p.casts[0][0] if p.casts else '?'}", ok, why, line=g.line)
            for local, axis in p.shapes:
                rep.instance("R13a.glue", cast.GLUE, fname, f"{local} = {p.name}.shape({axis})", axis is not None and cast.is_int_type(g.locals_.get(local, "")), "size variable is not an integer local read from a literal axis", line=g.line)

    # --- Python call sites ---------------------------------------------------
    R = pyabs.Resolver()
    sites = [s for s in xabi.python_sites()]
    n_sites = 0
    pairs = 0
    for s in sites:
        if s.entry not in exported:
            rep.instance("R13a.arity", s.file, s.qualname, f"phonoc.{s.entry}(…)", False, f"'{s.entry}' is not exported by the extension module", line=s.line)
            continue
        fname = exported[s.entry]
        if fname.startswith("phpy_"):
            rep.instance("R13a.arity", s.file, s.qualname, f"phonoc.{s.entry}()", not s.call.args and not s.call.keywords, "capability function takes no arguments", line=s.line, nontrivial=False)
            continue
        g = glue[fname]
        n_sites += 1
        ok = len(s.call.args) == len(g.params) and not s.call.keywords and not any(isinstance(a, ast.Starred) for a in s.call.args)
        rep.instance("R13a.arity", s.file, s.qualname, f"phonoc.{s.entry}: {len(s.call.args)} positional arguments for {len(g.params)} glue parameters", ok,
                     "argument count differs from the glue function's parameter list (every later pointer would be bound to the wrong array)", line=s.line)
        if not ok:
            continue
        fn = core.enclosing_function(s.call)
        cls = None
        cur = fn
        while cur is not None:
            cur = getattr(cur, "_parent", None)
            if isinstance(cur, ast.ClassDef):
                cls = cur
                break
        for a, p in zip(s.call.args, g.params):
            exp = p.elem if p.kind == "ndarray" else _norm_type(p.ctype)
            exp_key = exp if exp in OK else ("const char *" if "char" in exp else exp)
            if exp_key not in OK:
                raise AnalysisError(f"{cast.GLUE}::{fname}: parameter {p.name} has unmodelled type '{exp}'")
            srcs = R.resolve(a, fn, cls)
            pairs += 1
            complex_ok = p.kind == "ndarray" and p.casts and "[2]" in (p.casts[0][1] or "")
            bad = [x for x in srcs if x.dtype not in ("?", "none") and not x.dtype.startswith("?") and x.dtype not in OK[exp_key] and not (x.dtype == "complex128" and complex_ok)]
            if p.kind == "ndarray":
                bad += [x for x in srcs if x.dtype in SCALAR_PY]
            nonc = [x for x in srcs if p.kind == "ndarray" and x.contig is False]
            if p.kind == "ndarray" and not nonc:
                kept = [x for x in srcs if x.contig is None and "keeps the caller's memory order" in x.why]
                if kept and _multi_dim(an, g, p):
                    nonc = kept
                else:
                    # a 1-D argument: a copy (np.array) of a strided 1-D array is contiguous, a conditional copy
                    # (np.asarray: the caller's array itself when the dtype already matches) is not
                    kept1 = [x for x in kept if "np.asarray(" in x.why]
                    if kept1:
                        nonc = kept1
            unknown = [x for x in srcs if x.dtype == "?" or x.dtype.startswith("?")]
            for u in unknown[:1]:
                rep.unknown(f"{s.file}::{s.qualname} phonoc.{s.entry} {p.name} <- {core.norm(core.src(a), 40)}: {u.why[:90]}")
            ok = not bad and not nonc
            why = ""
            if bad:
                why = f"C side reads '{exp}' ({p.casts[0][1] if p.casts else p.ctype}) but a source of this argument is {bad[0].dtype} [{bad[0].why[:100]}]: the kernel would reinterpret the buffer"
            elif nonc:
                why = f"a source of this argument is a non-contiguous view [{nonc[0].why[:100]}]; the glue reads the raw buffer in C order"
            rep.instance("R13a.dtype", s.file, s.qualname, f"phonoc.{s.entry} {p.name} ({exp}) <- {core.norm(core.src(a), 60)}", ok, why, line=a.lineno,
                         nontrivial=bool([x for x in srcs if x not in unknown]),
                         sample={"arg": core.src(a)[:60], "c_type": p.casts[0][1] if p.casts else p.ctype, "sources": sorted({x.short() for x in srcs})[:5]})
            # rank of shape() reads
            for local, axis in p.shapes:
                ranks = {len(x.shape) for x in srcs if x.shape not in (None, ()) and not any(t.startswith("<") for t in x.shape)}
                if ranks:
                    rep.instance("R13a.rank", s.file, s.qualname, f"phonoc.{s.entry}: {local} = {p.name}.shape({axis}); Python rank {sorted(ranks)}", all(r > axis for r in ranks),
                                 f"the glue reads axis {axis} of an array allocated with rank {sorted(ranks)}", line=a.lineno)
    # sibling agreement of shape-axis provenance across glue functions
    axes = {}
    for fname, g in glue.items():
        for p in g.params:
            if not p.shapes:
                continue
            sizes = tuple(sorted(re.sub(r"^n(um)?_?", "", local) for local, _ in p.shapes))
            layout = tuple(sorted((re.sub(r"^n(um)?_?", "", local), axis) for local, axis in p.shapes))
            axes.setdefault((re.sub(r"^py_", "", p.name), sizes), set()).add((layout, fname))
    for (pn, sizes), uses in sorted(axes.items()):
        if len(uses) < 2:
            continue
        layouts = {l for l, _ in uses}
        rep.instance("R13a.glue", cast.GLUE, "<glue>", f"sizes {sizes} are read from the same axes of '{pn}' in {len(uses)} glue functions", len(layouts) == 1,
                     f"glue functions disagree on which axis of '{pn}' holds which size: {sorted(uses)}")
    if n_sites < 22:
        raise AnalysisError(f"R13a: {n_sites} Python call sites with arguments found, 22 confirmed by reading")
    rep.extra["abi"] = {"exported": len(exported), "python_sites": n_sites, "argument_pairs": pairs}
